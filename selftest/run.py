#!/usr/bin/env python3
"""Seeded-mutant battery: each mutant is one text substitution in a scratch
copy of /repo's sources; the named check must fire and name the instance, and
must be silent on the unmutated copy. Scratch lives outside /repo and /verif
and is deleted afterwards.

usage: selftest/run.py [--prop C08] [--id m-c08-1] [--keep]
"""
import json, os, shutil, subprocess, sys, tempfile

HERE = os.path.dirname(os.path.abspath(__file__))
VERIF = os.path.dirname(HERE)


def seeded_as_mutants(prop):
    """kept sub-agent changes of a property, as (id, patch path) pairs"""
    import glob
    out = []
    for d in sorted(glob.glob(os.path.join(VERIF, "seeded", "C*-m*"))):
        try:
            owner = json.load(open(os.path.join(d, "meta.json"))).get("property")
        except Exception:
            owner = os.path.basename(d)[:3]
        if owner == prop and os.path.exists(os.path.join(d, "patch.diff")):
            out.append((os.path.basename(d), os.path.join(d, "patch.diff")))
    return out


def refactor_battery(prop, files_analysed=None, limit=None):
    """-> [(id, SILENT|ALARM|STALE|SKIPPED, detail)]: every kept behaviour-preserving refactoring (seeded/refactors) that
    touches a file this property's rules read, applied alone to a scratch copy of /repo's sources; the check must stay
    silent. An alarm here says something about the checker (a rule keyed to syntax), never about aiken."""
    import glob, re
    pats = sorted(glob.glob(os.path.join(VERIF, "seeded", "refactors", "*", "patch.diff")))
    files_analysed = set(files_analysed or [])
    todo = []
    for p in pats:
        touched = set(re.findall(r"^\+\+\+ b/(\S+)", open(p).read(), re.M))
        if files_analysed and not (touched & files_analysed):
            continue
        todo.append((os.path.basename(os.path.dirname(p)), p))
    if limit:
        todo = todo[:limit]
    if not todo:
        return []
    scratch = tempfile.mkdtemp(prefix="verif-refactor-")
    res = []
    try:
        root = os.path.join(scratch, "repo")
        os.makedirs(root)
        subprocess.run(["rsync", "-a", "--exclude", "target", "--exclude", ".git", "--exclude", "test_data", "/repo/crates", "/repo/Cargo.toml", "/repo/Cargo.lock", "/repo/examples", root + "/"], check=True)
        env = dict(os.environ, VERIF_REPO=root, VERIF_EVIDENCE_DIR=os.path.join(scratch, "evidence"), VERIF_CACHE=os.path.join(scratch, "cache"), VERIF_FLOW_TARGET=os.path.join(VERIF, ".cache", "flow-target"), VERIF_TIER="quick", VERIF_NO_BATTERY="1")
        for rid, patch in todo:
            r0 = subprocess.run(["patch", "-p1", "-s", "-F0", "-i", patch], cwd=root, capture_output=True, text=True)
            if r0.returncode != 0:
                res.append((rid, "STALE", "patch no longer applies"))
                subprocess.run("find . -name '*.rej' -delete -o -name '*.orig' -delete", shell=True, cwd=root)
                subprocess.run(["rsync", "-a", "--delete", "--exclude", "target", "--exclude", ".git", "--exclude", "test_data", "/repo/crates", root + "/"], check=False)
                continue
            try:
                r = subprocess.run([os.path.join(VERIF, "check"), prop], capture_output=True, text=True, env=env, cwd=VERIF)
            finally:
                subprocess.run(["patch", "-p1", "-R", "-s", "-i", patch], cwd=root, capture_output=True, text=True)
            fired = [l for l in r.stdout.splitlines() if l.startswith("FAIL ")]
            res.append((rid, "ALARM" if (r.returncode != 0 or fired) else "SILENT", fired[0][:160] if fired else ""))
    finally:
        shutil.rmtree(scratch, ignore_errors=True)
    return res


def battery(prop, only=None, include_seeded=True, keep=False):
    """-> [(id, CAUGHT|MISSED|STALE, detail)] : every hand-written mutant and every seeded change of `prop`, applied one
    at a time to a scratch copy of /repo's sources (outside /repo and /verif), must make `./check prop` fire"""
    muts = json.load(open(os.path.join(HERE, "mutants.json")))
    muts = [m for m in muts if (not prop or m["property"] == prop) and (not only or m["id"] == only)]
    scratch = tempfile.mkdtemp(prefix="verif-selftest-")
    results = []
    try:
        results = _run(muts, scratch, prop if include_seeded and prop and not only else None)
    finally:
        if not keep:
            shutil.rmtree(scratch, ignore_errors=True)
    return results


def _run(muts, scratch, seeded_prop):
    results = []
    if True:
        root = os.path.join(scratch, "repo")
        os.makedirs(root)
        subprocess.run(["rsync", "-a", "--exclude", "target", "--exclude", ".git", "--exclude", "test_data", "/repo/crates", "/repo/Cargo.toml", "/repo/Cargo.lock", "/repo/examples", root + "/"], check=True)
        ev = os.path.join(scratch, "evidence")
        env = dict(os.environ, VERIF_REPO=root, VERIF_EVIDENCE_DIR=ev, VERIF_CACHE=os.path.join(scratch, "cache"), VERIF_FLOW_TARGET=os.path.join(VERIF, ".cache", "flow-target"))
        for m in muts:
            path = os.path.join(root, m["file"])
            orig = open(path).read()
            if m["old"] not in orig:
                results.append((m["id"], "STALE", "pattern no longer present in %s" % m["file"]))
                continue
            new = orig.replace(m["old"], m["new"], 1)
            open(path, "w").write(new)
            try:
                r = subprocess.run([os.path.join(VERIF, "check"), m["property"]], capture_output=True, text=True, env=env, cwd=VERIF)
            finally:
                open(path, "w").write(orig)
            out = r.stdout
            fired = [l for l in out.splitlines() if l.startswith("FAIL ")]
            hit = [l for l in fired if m["expect"] in l]
            if r.returncode == 1 and hit:
                results.append((m["id"], "CAUGHT", hit[0][:160]))
            else:
                results.append((m["id"], "MISSED", "rc=%d; fired=%r" % (r.returncode, [f[:100] for f in fired[:3]])))
        if seeded_prop:
            for sid, patch in seeded_as_mutants(seeded_prop):
                r0 = subprocess.run(["git", "apply", "--directory=" + os.path.relpath(root, scratch), patch], cwd=scratch, capture_output=True, text=True) if False else subprocess.run(["patch", "-p1", "-s", "-i", patch], cwd=root, capture_output=True, text=True)
                if r0.returncode != 0:
                    results.append((sid, "STALE", "patch no longer applies: " + (r0.stdout + r0.stderr)[:120]))
                    subprocess.run(["rsync", "-a", "--delete", "--exclude", "target", "--exclude", ".git", "--exclude", "test_data", "/repo/crates", root + "/"], check=False)
                    continue
                try:
                    r = subprocess.run([os.path.join(VERIF, "check"), seeded_prop], capture_output=True, text=True, env=env, cwd=VERIF)
                finally:
                    subprocess.run(["patch", "-p1", "-R", "-s", "-i", patch], cwd=root, capture_output=True, text=True)
                fired = [l for l in r.stdout.splitlines() if l.startswith("FAIL ")]
                if r.returncode == 1 and fired:
                    results.append((sid, "CAUGHT", fired[0][:160]))
                else:
                    results.append((sid, "MISSED", "rc=%d (seeded change; see seeded/%s/meta.json)" % (r.returncode, sid)))
    return results


def main():
    args = sys.argv[1:]
    prop = args[args.index("--prop") + 1] if "--prop" in args else None
    only = args[args.index("--id") + 1] if "--id" in args else None
    results = battery(prop, only, include_seeded="--no-seeded" not in args, keep="--keep" in args)
    bad = 0
    for i, s_, d in results:
        print("%-8s %-28s %s" % (s_, i, d))
        if s_ != "CAUGHT":
            bad += 1
    print("selftest: %d mutants, %d caught, %d not" % (len(results), len(results) - bad, bad))
    return 1 if bad else 0


if __name__ == "__main__":
    sys.exit(main())
