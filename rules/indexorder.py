"""Deferred removal by index: a loop that removes elements of a Vec at positions taken from its loop variable walks those
positions from the highest down — directly (`.rev()` on the loop) or because the list of positions it iterates was itself
recorded in descending order (every push of a position happens under a reversed enumeration). Removing in ascending order
makes every later recorded position stale after the first removal: the wrong element moves, or Vec::remove panics.

Shape rule with the receiver type confirmed on MIR (the call at that line resolves to Vec::remove)."""
import re
from .lib import *

ITER_ADAPTORS = {"for_each", "map", "filter_map", "flat_map", "filter", "fold", "try_for_each", "any", "all", "find", "find_map", "rev", "enumerate", "iter", "into_iter", "iter_mut"}


def _pat_names(p):
    return [x["name"] for x in walk(p) if x.get("k") == "Ident"]


def _tuple_pos(pat, name):
    """position of `name` in a (possibly nested at top level) tuple pattern; None when the pattern is the ident itself"""
    if pat.get("k") in ("PTuple", "Tuple"):
        for i, e in enumerate(pat["elems"]):
            if name in _pat_names(e):
                return i
    return None


def _has_rev(sh, rel, e):
    return any(n.get("k") == "MethodCall" and n["m"] == "rev" for n in walk(e))


def _binders(node, stack, out_push, target):
    """collect push sites `target.push(<tuple or expr>)` together with the stack of enclosing binders"""
    if isinstance(node, dict):
        k = node.get("k")
        if k == "For":
            _binders(node["e"], stack, out_push, target)
            _binders(node["body"], stack + [("for", node["pat"], node["e"])], out_push, target)
            return
        if k == "MethodCall":
            if node["m"] == "push" and node["recv"].get("k") == "Path" and node["recv"]["p"] == target and node["args"]:
                out_push.append((node, list(stack)))
            _binders(node["recv"], stack, out_push, target)
            for a in node["args"]:
                if a.get("k") == "Closure":
                    pat = {"k": "PTuple", "elems": a.get("inputs", [])} if len(a.get("inputs", [])) != 1 else a["inputs"][0]
                    _binders(a["body"], stack + [("closure", pat, node["recv"])], out_push, target)
                else:
                    _binders(a, stack, out_push, target)
            return
        for v in node.values():
            _binders(v, stack, out_push, target)
    elif isinstance(node, list):
        for v in node:
            _binders(v, stack, out_push, target)


def sites(sh, fl, rel_filter):
    """yield (rel, qual, loop, remove-call, verdict, detail) for every `for … { V.remove(loopvar) }` on a Vec"""
    vec_remove_lines = {}
    for f in fl.fns.values():
        for b in f["blocks"]:
            c = b.get("callee") or ""
            if b.get("k") == "call" and re.search(r"(^|::)Vec::<[^>]*>::remove$|(^|::)Vec::<.*>::remove$", c):
                vec_remove_lines.setdefault(f.get("file", ""), set()).add(b.get("fl") or b.get("l"))
    for rel in sh.files():
        if not rel_filter(rel) or "/tests/" in rel or rel.endswith("tests.rs"):
            continue
        lines = set()
        for ffile, ls in vec_remove_lines.items():
            if ffile.endswith(rel):
                lines |= ls
        if not lines:
            continue
        fj = sh.file(rel)
        for q, f in all_fns(fj):
            if "body" not in f:
                continue
            for loop in walk(f["body"]):
                if loop.get("k") != "For":
                    continue
                lvars = _pat_names(loop["pat"])
                for c in walk(loop["body"]):
                    if not (c.get("k") == "MethodCall" and c["m"] == "remove" and c["args"]):
                        continue
                    if not any(l in lines for l in range(c["s"][0], c["s"][2] + 1)):
                        continue
                    a = c["args"][0]
                    while a.get("k") == "Unary" and a.get("op") == "*":
                        a = a["e"]
                    if not (a.get("k") == "Path" and a["p"] in lvars):
                        continue  # adjusted index / key computed otherwise: not this rule's shape
                    ix = a["p"]
                    # (i) the loop itself is reversed
                    if _has_rev(sh, rel, loop["e"]):
                        yield rel, q, loop, c, True, "loop iterates `%s` in reverse" % sh.nsrc(rel, loop["e"])[:60]
                        continue
                    # (iii) the loop leaves right after the removal
                    leaves = any(x.get("k") in ("Break", "Return") for x in walk(loop["body"]))
                    # (ii) positions recorded earlier in descending order
                    it = loop["e"]
                    while it.get("k") == "MethodCall" and it["m"] in ("iter", "into_iter", "drain", "iter_mut", "copied", "cloned"):
                        it = it["recv"]
                    while it.get("k") in ("Reference", "Ref", "Unary"):
                        it = it.get("e", {})
                    if it.get("k") == "Path":
                        pos = _tuple_pos(loop["pat"], ix)
                        pushes = []
                        _binders(f["body"], [], pushes, it["p"])
                        ok = bool(pushes)
                        why = []
                        for pn, stack in pushes:
                            arg = pn["args"][0]
                            comp = arg
                            if pos is not None and arg.get("k") == "Tuple" and pos < len(arg.get("es", [])):
                                comp = arg["es"][pos]
                            names = [x["p"] for x in walk(comp) if x.get("k") == "Path"]
                            # innermost binder that introduces one of those names
                            binder = next((b for b in reversed(stack) if any(n in _pat_names(b[1]) for n in names)), None)
                            if binder is None or not _has_rev(sh, rel, binder[2]):
                                ok = False
                                why.append("position pushed at line %d is not bound under a reversed enumeration" % pn["s"][0])
                        if ok:
                            yield rel, q, loop, c, True, "positions in `%s` are recorded under a reversed enumeration (%d push site(s))" % (it["p"], len(pushes))
                            continue
                        if leaves:
                            yield rel, q, loop, c, True, "the loop leaves after a removal"
                            continue
                        yield rel, q, loop, c, False, "; ".join(why) or "no push site of `%s` found in this function" % it["p"]
                        continue
                    if leaves:
                        yield rel, q, loop, c, True, "the loop leaves after a removal"
                        continue
                    yield rel, q, loop, c, False, "ascending iteration over `%s`" % sh.nsrc(rel, loop["e"])[:60]


def rule(sh, fl, rep, rid, rel_filter, floor_sites):
    n = 0
    for rel, q, loop, c, ok, detail in sites(sh, fl, rel_filter):
        n += 1
        rep.touched(rel, q)
        rep.check(ok, rid, "index-removal#%s#%s" % (rel.split("/")[-1], q), sh.loc(rel, c), "%s removes Vec elements at recorded positions in ascending order (%s): after the first removal every later position is stale — the wrong element is moved or Vec::remove panics" % (q, detail), why_ok=detail, sample={"fn": q, "how": detail})
    if n < floor_sites:
        rep.bad(rid, "index-removal#sites", "", "only %d deferred index-removal loop(s) found, %d confirmed by hand (anchor)" % (n, floor_sites))
