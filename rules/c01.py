"""C01 — compiled code computes what the Aiken source means.

Decided statically (necessary clauses): the operator-lowering table of the
code generator equals the specification table (builtin, operand order,
laziness); no operator that is lowered lazily may have its operands swapped
(contradiction rule between BinOp::is_symmetric and the lowering); the
checker's and the generator's operand kinds agree; the Data-cast tables are
mutually inverse per type kind; the Air interpreter is total.
Not decided: hoisting, monomorphisation, recursion, decision trees, field
access, expect decoders — the meaning of lowering itself.
"""
import re
from .lib import *
from . import cast_rules

EXPLANATION = (
    "Operator table (13 operators): for each BinOp the arm of CodeGenerator::gen_uplc / Air::BinOp is read from the syntax tree — builtin referenced "
    "(resolved through uplc::builder helper names), order of `left`/`right` in the apply chain, strict vs delayed conditional — and compared with the "
    "specification table taken from the property (floor division, floor modulo, > and >= as swapped < and <=, short-circuit && and ||). "
    "Contradiction rule: the set BinOp::is_symmetric()==true (operands may be swapped before lowering) must be disjoint from the lazily lowered operators and "
    "every other member must lower to a commutative builtin. Checker/generator agreement on operand kinds (ExprTyper::infer_binop). 4x12 Data-cast table (R01-CAST)."
)
LEVEL_NOTE = "decides the operator and cast tables only; values computed by lowered code are not decided"

G = "crates/aiken-lang/src/gen_uplc.rs"
AST = "crates/aiken-lang/src/ast.rs"
TE = "crates/aiken-lang/src/tipo/expr.rs"
UB = "crates/uplc/src/builder.rs"
AIR = "crates/aiken-lang/src/gen_uplc/air.rs"

# specification (property statement + Aiken language reference): operator -> (builtin, operand order, evaluation)
OPS = {
    "AddInt": ("AddInteger", "LR", "strict"),
    "SubInt": ("SubtractInteger", "LR", "strict"),
    "MultInt": ("MultiplyInteger", "LR", "strict"),
    "DivInt": ("DivideInteger", "LR", "strict"),  # floor division — QuotientInteger is the confusable
    "ModInt": ("ModInteger", "LR", "strict"),  # floor modulo — RemainderInteger is the confusable
    "LtInt": ("LessThanInteger", "LR", "strict"),
    "LtEqInt": ("LessThanEqualsInteger", "LR", "strict"),
    "GtInt": ("LessThanInteger", "RL", "strict"),
    "GtEqInt": ("LessThanEqualsInteger", "RL", "strict"),
    "And": (None, "L?R:false", "lazy-right"),
    "Or": (None, "L?true:R", "lazy-right"),
}
# specification: builtins f with f(a,b) = f(b,a) including failure behaviour (shared with C02)
COMMUTATIVE = {"AddInteger", "MultiplyInteger", "EqualsInteger", "EqualsByteString", "EqualsString", "EqualsData", "Bls12_381_G1_Add", "Bls12_381_G2_Add", "Bls12_381_G1_Equal", "Bls12_381_G2_Equal", "Bls12_381_MulMlResult", "Bls12_381_FinalVerify"}
# specification: operand kind the checker must demand per operator
KINDS = {"And": "bool", "Or": "bool", "LtInt": "int", "LtEqInt": "int", "GtInt": "int", "GtEqInt": "int", "AddInt": "int", "SubInt": "int", "MultInt": "int", "DivInt": "int", "ModInt": "int"}


def builder_helpers(sh):
    """uplc::builder zero-argument helper name -> DefaultFunction it wraps"""
    out = {}
    for q, f in all_fns(sh.file(UB)):
        if "body" not in f or f["sig"]["inputs"]:
            continue
        bs = [last(p) for p in paths_in(f["body"]) if "DefaultFunction::" in p]
        if len(bs) == 1:
            out[f["name"]] = bs[0]
    return out


def chain_of(e):
    """(root expr, [(method, args)]) for a method chain"""
    ms = []
    while e["k"] == "MethodCall":
        ms.append((e["m"], e["args"]))
        e = e["recv"]
    return e, list(reversed(ms))


NEEDS_FLOW = True


def run(ctx, rep):
    sh = ctx.shape
    from . import indexorder
    rep.rule("R01-REMOVEORDER", "code generator: elements are removed from a Vec at recorded positions only from the highest position down", floor=1)
    rep.guarded("R01-REMOVEORDER", lambda: indexorder.rule(sh, ctx.flow, rep, "R01-REMOVEORDER", lambda rel: rel.startswith("crates/aiken-lang/src/gen_uplc"), 1))
    rep.rule("R01-OPS", "operator lowering table = specification table (builtin, operand order, laziness) for 11 non-equality operators", floor=11)
    rep.rule("R01-LAZY", "no lazily lowered operator is in the may-swap-operands set; every other member lowers to a commutative builtin", floor=5)
    rep.rule("R01-KINDS", "the type checker demands the operand kind the generated builtin consumes", floor=11)
    rep.rule("R01-CAST", "to-Data / from-Data tables agree per type kind (4 functions x 12 kinds)", floor=40)
    rep.rule("R01-AIR", "CodeGenerator::gen_uplc has an explicit arm for every Air instruction", floor=30)
    tab = {}
    rep.guarded("R01-OPS", lambda: r_ops(sh, rep, tab))
    rep.guarded("R01-LAZY", lambda: r_lazy(sh, rep, tab))
    rep.guarded("R01-KINDS", lambda: r_kinds(sh, rep))
    rep.guarded("R01-CAST", lambda: cast_rules.rule_cast(sh, rep, "R01-CAST"))
    rep.guarded("R01-AIR", lambda: r_air(sh, rep))
    rep.rule("R01-STATIC", "a recursive function's parameter is hoisted as static only when every self-call passes that very parameter at its own position", floor=2)
    rep.guarded("R01-STATIC", lambda: r_static(sh, rep))
    rep.rule("R01-LISTTRIM", "list destructuring: a discard in front of an open tail still counts towards the length a failing `expect` demands (only the tail position is dropped because a tail is present)", floor=2)
    rep.guarded("R01-LISTTRIM", lambda: r_listtrim(sh, rep))
    rep.rule("R01-CANCEL", "the optimiser drops a cast pair outer(inner(x)) only when the inner builtin cannot fail: a failed `expect` / partial builtin must still abort in the compiled program (shared with C02)", floor=4)

    def cancel():
        from . import c02
        from .btab import BuiltinTables
        c02.r_cancel(sh, rep, BuiltinTables(sh), "R01-CANCEL")

    rep.guarded("R01-CANCEL", cancel)
    rep.rule("R01-DELAYSCAN", "a strict `let` in front of an if/else is not moved into one branch: the inliner's occurrence analysis counts a use inside a delayed branch as delayed unless the other branch is `error` (shared with C02)", floor=2)

    def delayscan():
        from . import c02
        c02.r_delayscan(sh, rep, "R01-DELAYSCAN")

    rep.guarded("R01-DELAYSCAN", delayscan)
    rep.rule("R07-TAILPICK", "`when` on lists runs the first matching clause: the tail case for a list length is chosen by longest fitting prefix (shared with C07)", floor=2)

    def tailpick():
        from . import c07
        c07.r_tailpick(sh, rep)

    rep.guarded("R07-TAILPICK", tailpick)
    rep.rule("R07-SEED", "decision-tree matrices receive every clause row that can match their case, in source order (shared with C07)", floor=8)

    def seed():
        from . import c07
        c07.r_seed(sh, rep)

    rep.guarded("R07-SEED", seed)
    rep.rule("R07-LEAFARGS", "pattern variables of a clause reached through several decision-tree branches are bound to their own sub-values on every path (shared with C07)", floor=1)

    def leafargs():
        from . import c07
        c07.r_leafargs(sh, rep)

    rep.guarded("R07-LEAFARGS", leafargs)
    rep.rule("R12-TAG", "every site that builds, rebuilds or decodes a constructor uses the index derived from @tag (shared with C12)", floor=4)

    def tag():
        from . import c12
        c12.r_tag(sh, rep)

    rep.guarded("R12-TAG", tag)
    rep.rule("R09-CACHE", "a module constant is compiled once and found again under its own (module, name) key only (shared with C09)", floor=4)

    def cache():
        from . import c09
        c09.r_cache(ctx.flow, sh, rep)

    rep.guarded("R09-CACHE", cache)
    rep.rule("R01-HELDTYPES", "AirTree::mut_held_types exposes every type a node carries (monomorphisation rewrites exactly what this function hands out)", floor=20)

    def heldtypes():
        TREE = "crates/aiken-lang/src/gen_uplc/tree.rs"
        fj = sh.file(TREE)
        en = find_enum(fj, "AirTree")
        f = find_method(fj, "AirTree", "mut_held_types")
        traversal_check(rep, "R01-HELDTYPES", sh, TREE, "AirTree::mut_held_types", f, en, ["Type"])

    rep.guarded("R01-HELDTYPES", heldtypes)
    rep.rule("R02-SATURATED", "optimiser rewrites keyed on argument position test that the builtin is saturated (shared with C02)", floor=2)

    def saturated():
        from . import c02
        c02.r_saturated(sh, rep)

    rep.guarded("R02-SATURATED", saturated)
    rep.rule("R01-HOISTNAME", "the UPLC variable a module-level function or constant is hoisted under is an injective function of (module, name): module and name are joined by something neither can contain", floor=5)
    rep.guarded("R01-HOISTNAME", lambda: r_hoistname(sh, rep))
    rep.rule("R01-TYPEKEY", "decoder-cache keys (push_type_identity) start with a tag that is unique per type constructor", floor=4)
    rep.guarded("R01-TYPEKEY", lambda: r_typekey(sh, rep))


def binop_match(sh):
    fj = sh.file(G)
    f = find_method(fj, "CodeGenerator", "gen_uplc")
    m = next(matches_in(f["body"], lambda e: e["k"] == "Path" and e["p"] == "ir"))
    arm = [a for v, a, alt in arm_table(m) if v == "BinOp"]
    if not arm:
        raise AnchorMissing("Air::BinOp arm of gen_uplc")
    arm = arm[0]
    om = [mm for mm in matches_in(arm["body"]) if mm["e"]["k"] == "Path" and mm["e"]["p"] == "op"]
    if not om:
        raise AnchorMissing("match op in Air::BinOp arm")
    return f, arm, om[0]


def r_ops(sh, rep, tab):
    f, arm, om = binop_match(sh)
    rep.touched(G, "CodeGenerator::gen_uplc / Air::BinOp")
    helpers = builder_helpers(sh)
    rows = {}
    for v, a, alt in arm_table(om):
        if v is None:
            rep.bad("R01-OPS", "catch-all", sh.loc(G, a), "the operator table has a catch-all arm")
        else:
            rows[v] = a
    for op, (bi, order, ev) in OPS.items():
        if op not in rows:
            rep.bad("R01-OPS", op + "#no-arm", sh.loc(G, om), "no lowering arm for BinOp::%s" % op)
            continue
        a = rows[op]
        where = sh.loc(G, a)
        root, ms = chain_of(a["body"])
        if ev == "lazy-right":
            # left.delayed_if_then_else(x, y)
            ok = root["k"] == "Path" and root["p"] == "left" and len(ms) == 1 and ms[0][0] == "delayed_if_then_else" and len(ms[0][1]) == 2
            if ok:
                x, y = [sh.nsrc(G, e) for e in ms[0][1]]
                want = ("right", "Term::bool(false)") if op == "And" else ("Term::bool(true)", "right")
                ok = (x, y) == want
                got = "left ? %s : %s" % (x, y)
            else:
                got = sh.nsrc(G, a["body"])[:80]
            strict = any(m_ == "if_then_else" for m_, _ in ms)
            tab[op] = {"lazy": ok and not strict, "builtin": "IfThenElse", "got": got}
            rep.check(ok, "R01-OPS", op, where, "BinOp::%s is lowered as `%s`; short-circuit semantics require `left.delayed_if_then_else(%s)`%s" % (op, got, "right, false" if op == "And" else "true, right", " (strict if_then_else evaluates both operands)" if strict else ""), sample={"op": op, "lowering": got})
            continue
        b = None
        if root["k"] == "Call" and call_name(root) == "Term::Builtin":
            b = last(root["args"][0]["p"])
        elif root["k"] == "Call" and call_name(root) and call_name(root).startswith("Term::") and last(call_name(root)) in helpers:
            b = helpers[last(call_name(root))]
        applies = [sh.nsrc(G, args[0]) for m_, args in ms if m_ == "apply"]
        od = {("left", "right"): "LR", ("right", "left"): "RL"}.get(tuple(applies), "?" + ",".join(applies))
        tab[op] = {"lazy": False, "builtin": b, "order": od}
        problems = []
        if b != bi:
            problems.append("uses builtin %s, the specification requires %s" % (b, bi))
        if od != order:
            problems.append("applies operands as %s, the specification requires %s" % (od, order))
        if [m_ for m_, _ in ms if m_ != "apply"]:
            problems.append("unexpected wrappers %s" % [m_ for m_, _ in ms if m_ != "apply"])
        rep.check(not problems, "R01-OPS", op, where, "BinOp::%s: %s" % (op, "; ".join(problems)), sample={"op": op, "builtin": b, "order": od})
    # the SubInt -> AddInt rewrite: right constant negated, operands exchanged
    s = sh.nsrc(G, arm["body"])
    if "try_negate()" in s:
        rep.check("right=left;left=minus_right;op=BinOp::AddInt;" in s and "matches!(op,BinOp::SubInt)" in s, "R01-OPS", "SubInt#negate-rewrite", sh.loc(G, arm), "`a - c` may only be rewritten to `(-c) + a`")


def r_lazy(sh, rep, tab):
    fj = sh.file(AST)
    f = find_method(fj, "BinOp", "is_symmetric")
    rep.touched(AST, "BinOp::is_symmetric")
    m = next(matches_in(f["body"]))
    sym = {}
    for v, a, alt in arm_table(m):
        if v is None:
            rep.bad("R01-LAZY", "is_symmetric#catch-all", sh.loc(AST, a), "is_symmetric has a catch-all arm")
            continue
        sym[v] = a["body"]["k"] == "Lit" and a["body"]["v"] is True
    # the swap is guarded by is_symmetric() in the BinOp arm
    _, arm, _ = binop_match(sh)
    s = sh.nsrc(G, arm["body"])
    rep.check("ifop.is_symmetric(){std::mem::swap(&mutleft,&mutright);" in s, "R01-LAZY", "swap-guard", sh.loc(G, arm), "operands may be swapped only under op.is_symmetric()")
    for op, yes in sorted(sym.items()):
        where = sh.loc(AST, f)
        if not yes:
            rep.ok("R01-LAZY", op, where, why="not swappable", nontrivial=False)
            continue
        row = tab.get(op)
        if op in ("Eq", "NotEq"):
            # equality builtins are commutative; Bool equality mentions `right` on every branch (strict)
            _, arm, om = binop_match(sh)
            eqarm = [a for v, a, alt in arm_table(om) if v in ("Eq", "NotEq")]
            bs = {last(call_name(c)) for a in eqarm for c in calls_in(a["body"]) if call_name(c) and call_name(c).startswith("Term::equals")}
            helpers = builder_helpers(sh)
            noncomm = sorted(b for b in bs if helpers.get(b) not in COMMUTATIVE)
            rep.check(not noncomm, "R01-LAZY", op, where, "equality lowers to non-commutative builtin helper(s) %s" % noncomm, sample={"op": op, "builtins": sorted(helpers.get(b, b) for b in bs)})
            continue
        if row is None:
            rep.bad("R01-LAZY", op + "#unknown-lowering", where, "BinOp::%s is declared symmetric but its lowering was not recognised" % op)
        elif row["lazy"]:
            rep.bad("R01-LAZY", op + "#lazy-but-symmetric", where, "BinOp::%s is lowered lazily (`%s`: the right operand is evaluated only on one branch) yet is_symmetric() allows the code generator to swap its operands: `f() %s K` with f() aborting and K constant no longer aborts" % (op, row.get("got"), "&&" if op == "And" else "||"), sample={"op": op, "lowering": row.get("got")})
        elif row["builtin"] not in COMMUTATIVE:
            rep.bad("R01-LAZY", op + "#not-commutative", where, "BinOp::%s may be swapped but lowers to %s, which is not commutative" % (op, row["builtin"]))
        else:
            rep.ok("R01-LAZY", op, where, sample={"op": op, "builtin": row["builtin"]})


def r_kinds(sh, rep):
    fj = sh.file(TE)
    f = find_method(fj, "ExprTyper", "infer_binop")
    rep.touched(TE, "ExprTyper::infer_binop")
    m = next(matches_in(f["body"]))
    for v, a, alt in arm_table(m):
        if v in KINDS:
            b = a["body"]
            got = None
            if b["k"] == "Tuple" and b["es"]:
                got = {"Type::bool()": "bool", "Type::int()": "int"}.get(sh.nsrc(TE, b["es"][0]))
            rep.check(got == KINDS[v], "R01-KINDS", v, sh.loc(TE, a), "the checker types the operands of %s as %s; the generated builtin consumes %s" % (v, got, KINDS[v]), sample={"op": v, "operand": got})
    seen = {v for v, a, alt in arm_table(m)}
    for v in KINDS:
        if v not in seen:
            rep.bad("R01-KINDS", v + "#no-arm", sh.loc(TE, f), "no typing arm for %s" % v)


def r_air(sh, rep):
    air = find_enum(sh.file(AIR), "Air")
    f = find_method(sh.file(G), "CodeGenerator", "gen_uplc")
    m = next(matches_in(f["body"], lambda e: e["k"] == "Path" and e["p"] == "ir"))
    heads = {v for v, a, alt in arm_table(m)}
    rep.check(None not in heads, "R01-AIR", "no-catch-all", sh.loc(G, f), "gen_uplc has a catch-all arm over Air: an instruction would be compiled as another one or dropped")
    for v in air["variants"]:
        rep.check(v["name"] in heads, "R01-AIR", v["name"], sh.loc(G, f), "Air::%s has no explicit arm in gen_uplc" % v["name"], nontrivial=False)


# ---------------------------------------------------------------------------------------------------------
# R01-TYPEKEY: the key under which synthesised decoders are cached is injective over type constructors
# ---------------------------------------------------------------------------------------------------------
def r_typekey(sh, rep):
    """`expect` decoders for a type are generated once and cached in code_gen_functions under a name built by
    push_type_identity. Two type constructors that push the same tag share a cache entry: whichever decoder is generated
    first is reused for the other (a Pair decoded as a 2-tuple uses unListData on a map). Each constructor arm must start
    its key with its own literal tag, or delegate."""
    f = find_fn(sh.file(G), "push_type_identity")
    rep.touched(G, "push_type_identity")
    ten = find_enum(sh.file("crates/aiken-lang/src/tipo.rs"), "Type")
    variants = [v["name"] for v in ten["variants"]]
    m = find_enum_match(f, "Type", set(variants))
    if m is None:
        raise AnchorMissing("match over Type in push_type_identity")
    tags = {}
    for v, arm, alt in arm_table(m):
        if v is None:
            rep.bad("R01-TYPEKEY", "push_type_identity#catch-all", sh.loc(G, arm), "catch-all arm: some type constructor gets no tag of its own")
            continue
        pushes = [c for c in calls_in(arm["body"], closures=False) if c["k"] == "MethodCall" and c["m"] == "push_str" and c["args"] and c["args"][0]["k"] == "Lit"]
        if pushes:
            tags[v] = pushes[0]["args"][0]["v"]
        else:
            rec = any(c["k"] == "Call" and call_name(c) == "push_type_identity" for c in calls_in(arm["body"]))
            rep.check(rec, "R01-TYPEKEY", "push_type_identity#%s#delegates" % v, sh.loc(G, arm), "the %s arm neither pushes a tag nor delegates to the linked type" % v, nontrivial=False)
    for v in variants:
        if v in tags:
            clash = sorted(w for w in tags if w != v and tags[w] == tags[v])
            rep.check(not clash, "R01-TYPEKEY", "push_type_identity#%s#tag-unique" % v, sh.loc(G, f), "Type::%s and Type::%s both start their decoder-cache key with \"%s\": a program that casts Data to both reuses one synthesised decoder for the other type and aborts on valid input (or accepts a wrong shape)" % (v, "/".join(clash), tags[v]), sample={"tag": tags[v]})


# ---------------------------------------------------------------------------------------------------------
# R01-STATIC: recursion lowering — which parameters may be bound once outside the recursion
# ---------------------------------------------------------------------------------------------------------
GBUILD = "crates/aiken-lang/src/gen_uplc/builder.rs"


def r_static(sh, rep):
    """modify_self_calls drops a `static` parameter from every self-call and binds it once above the recursion. That is the
    source semantics only if each self-call passes, at that parameter's position, the parameter itself. The test lives in
    identify_recursive_static_params: it walks (parameter, argument) pairs *by position* (zip of the parameter list with the
    call's arguments) and keeps the parameter only when the argument is a variable whose name equals that parameter. A test
    against the whole parameter list (any parameter's name) keeps `gcd(b, a % b)`'s first parameter static."""
    fj = sh.file(GBUILD)
    f = find_fn(fj, "identify_recursive_static_params")
    rep.touched(GBUILD, "identify_recursive_static_params")
    params = [i["pat"].get("name") for i in f["sig"]["inputs"] if isinstance(i.get("pat"), dict)]
    loops = []
    for n in walk(f["body"]):
        if n["k"] == "For" and n["pat"]["k"] in ("PTuple", "Tuple") and len(n["pat"]["elems"]) == 2 and all(e["k"] == "Ident" for e in n["pat"]["elems"]):
            src = sh.nsrc(GBUILD, n["e"])
            if ".zip(" in src and any(re.search(r"\b%s\b" % re.escape(p), src) for p in params if p):
                loops.append(n)
    rep.check(len(loops) == 1, "R01-STATIC", "identify#positional-pairing", sh.loc(GBUILD, loops[0]) if loops else sh.loc(GBUILD, f), "identify_recursive_static_params must pair each parameter with the argument at the same position (one `for (param, arg) in params.iter().zip(args)` loop; found %d)" % len(loops), sample={"loops": len(loops)})
    if len(loops) != 1:
        return
    lp = loops[0]
    pv, av = [e["name"] for e in lp["pat"]["elems"]]
    body = sh.nsrc(GBUILD, lp["body"])
    # names bound by a pattern on AirTree::Var { name, .. } inside the loop
    bound = set()
    for n in walk(lp["body"]):
        if n.get("k") == "PStruct" and last(n.get("p", "")) == "Var":
            for fp in n.get("fields", []):
                nm = fp.get("name") or ""
                if nm == "name":
                    sub = fp.get("pat") or {}
                    bound.add(sub.get("name") or "name")
    bound = bound or {"name"}
    def strip(e):
        while isinstance(e, dict) and e.get("k") in ("Unary", "Ref", "Reference", "Paren"):
            e = e.get("e")
        return e

    same = False
    for n in walk(lp["body"]):
        if n.get("k") == "Binary" and n.get("op") in ("==", "!="):
            l, r = strip(n["l"]), strip(n["r"])
            if isinstance(l, dict) and isinstance(r, dict) and l.get("k") == "Path" and r.get("k") == "Path":
                if (l["p"] in bound and r["p"] == pv) or (r["p"] in bound and l["p"] == pv):
                    same = True
    rep.check(same, "R01-STATIC", "identify#argument-is-that-very-parameter", sh.loc(GBUILD, lp), "inside the positional loop the argument variable's name must be compared with the loop's own parameter `%s` (==/!=); no such comparison found: a parameter stays `static` although a self-call passes another parameter in its place, and the hoisted binding keeps the initial value for the whole recursion" % pv, sample={"param_binding": pv, "var_name_bindings": sorted(bound)})


# ---------------------------------------------------------------------------------------------------------
# R01-LISTTRIM: which trailing discards list_access_to_uplc may cut off
# ---------------------------------------------------------------------------------------------------------
def r_listtrim(sh, rep):
    """`expect [a, _, _, ..] = xs` must abort on a list shorter than three: under an expect every named *or discarded*
    element is an obligation on the length, only the open tail itself binds nothing. list_access_to_uplc trims trailing
    items of the (reversed) name list with skip_while over with_position(): the tail sits at Position::First / Only, the
    elements before it at Middle / Last. The arm(s) covering Middle or Last may drop a discard only when no expect is in
    force (ExpectLevel::None); only the First / Only arm may also use `tail_present`."""
    fj = sh.file(GBUILD)
    f = find_fn(fj, "list_access_to_uplc")
    rep.touched(GBUILD, "list_access_to_uplc")
    sk = [n for n in walk(f["body"]) if n.get("k") == "MethodCall" and n["m"] == "skip_while" and n["args"] and n["args"][0].get("k") == "Closure"]
    if len(sk) != 1:
        raise AnchorMissing("one skip_while(closure) in list_access_to_uplc (found %d)" % len(sk))
    rev = any(x.get("k") == "MethodCall" and x["m"] == "rev" for x in walk(sk[0]["recv"])) and any(x.get("k") == "MethodCall" and x["m"] == "with_position" for x in walk(sk[0]["recv"]))
    rep.check(rev, "R01-LISTTRIM", "trim#reversed-with-position", sh.loc(GBUILD, sk[0]), "the trimming walks the names reversed with positions (tail first); the arm table below is read under that assumption")
    ms = list(matches_in(sk[0]["args"][0]["body"]))
    if not ms:
        raise AnchorMissing("match over Position in the skip_while closure of list_access_to_uplc")
    bad = []
    seen = set()
    for arm in ms[0]["arms"]:
        vs = {last(pat_head(a) or "_") for a in pat_alts(arm["pat"])}
        seen |= vs
        src = sh.nsrc(GBUILD, arm["body"]) + (sh.nsrc(GBUILD, arm["guard"]) if arm.get("guard") else "")
        if vs & {"Middle", "Last", "_"} and "tail_present" in src:
            bad.append(sorted(vs))
    rep.check(not bad and {"First", "Only"} <= seen | ({"First", "Only"} if "_" in seen else set()), "R01-LISTTRIM", "trim#only-the-tail-position-drops-on-tail_present", sh.loc(GBUILD, ms[0]), "the arm covering %s lets `tail_present` drop a discard that is not the tail itself: `expect [a, _, _, ..] = xs` then accepts lists that are too short" % bad, sample={"arms": len(ms[0]["arms"])})


# ---------------------------------------------------------------------------------------------------------
# R01-HOISTNAME: flattening (module, name) into one identifier
# ---------------------------------------------------------------------------------------------------------
IDENT_CHARS = re.compile(r"^[a-z0-9_]*$")


def r_hoistname(sh, rep):
    """Every top-level function / constant is bound once, in front of the program, under a UPLC variable whose text is
    built from its module and its name; uses refer to it by rebuilding that text. Module names and function names may
    both contain `_`, so `{module}_{name}` (or no separator at all) maps foo.bar_baz and foo_bar.baz to the same text:
    the inner binder shadows the outer one and both call sites run the same function. Rule: wherever a `format!` joins a
    module component and a name component, the literal text between them contains a character that can occur in neither."""
    n = 0
    for rel in ("crates/aiken-lang/src/gen_uplc.rs", GBUILD):
        for q, f in all_fns(sh.file(rel)):
            if "body" not in f:
                continue
            for m in walk(f["body"]):
                if m.get("k") != "Macro" or m.get("path") != "format" or not m.get("args"):
                    continue
                a0 = m["args"][0]
                if a0.get("k") != "Lit" or a0.get("lk") != "str":
                    continue
                tmpl = a0["v"]
                holes = re.findall(r"\{([^}]*)\}", tmpl)
                rest = [sh.nsrc(rel, x) for x in m["args"][1:]]
                names = [h if h else (rest.pop(0) if rest else "?") for h in holes]
                mod = [i for i, x in enumerate(names) if "module" in x]
                nam = [i for i, x in enumerate(names) if re.search(r"(func(tion)?_)?name$", x) and "module" not in x]
                if not mod or not nam or mod[0] > nam[0]:
                    continue
                parts = re.split(r"\{[^}]*\}", tmpl)
                sep = parts[mod[0] + 1] if mod[0] + 1 < len(parts) else ""
                n += 1
                rep.check(not IDENT_CHARS.match(sep), "R01-HOISTNAME", "%s#format(%s)" % (q.split("::")[-1], tmpl), sh.loc(rel, m), "%s flattens (module, name) into `%s`, separated by `%s`: modules `foo` / `foo_bar` with functions `bar_baz` / `baz` get the same UPLC variable, the inner definition shadows the outer one and one function's code runs at both call sites" % (q, tmpl, sep), sample={"template": tmpl})
    if n < 5:
        rep.bad("R01-HOISTNAME", "flattening-sites", "crates/aiken-lang/src/gen_uplc.rs", "only %d module/name flattening sites found, 7 confirmed by hand (anchor)" % n)
