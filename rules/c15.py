"""C15 — UPLC text round-trips.

Decided statically (necessary clauses): the printer's tables and the parser's
tables are mutual inverses row by row — builtin names, type names, constant
keywords and literal syntax, term keywords, Data constructors, escape forms —
and grammar actions are fallible rather than panicking.
Not decided: layout, big-integer text, hex of arbitrary length (values).
"""
import re
from .lib import *

NEEDS_FLOW = True

EXPLANATION = (
    "Family S (sibling tables): every row of the printer's tables (Display for DefaultFunction, Term/Constant/Type::to_doc, "
    "to_doc_list, to_doc_list_plutus_data, the escaping function) is compared with the corresponding row of the parser's tables "
    "(FromStr for DefaultFunction, peg grammar rules term/constant_*/typed_constant/type_info/data/character), read from the "
    "syntax tree of the current working tree. A row that prints text the grammar has no production for, or that two variants share, "
    "is a violation naming the variant. Decides table agreement only; not layout or numeric text."
)
LEVEL_NOTE = "assumes syn parses the files as rustc does; grammar literals are read from the peg::parser! token tree; values (integers, hex payloads) are not decided"

B = "crates/uplc/src/builtins.rs"
P = "crates/uplc/src/pretty.rs"
G = "crates/uplc/src/parser.rs"
A = "crates/uplc/src/ast.rs"


def str_lits(node):
    out = []
    for n in walk(node):
        if n["k"] == "Lit" and n["lk"] == "str":
            out.append(n["v"])
    return out


def toks(strs):
    """split printed/grammar literals into bracket and word tokens"""
    out = []
    for s in strs:
        out += re.findall(r"[()\[\]]|[A-Za-z_0-9#]+|0x|,|\"", s)
    return out


def run(ctx, rep):
    sh = ctx.shape
    rep.rule("R15-BUILTIN", "Display and FromStr for DefaultFunction are mutual inverses over all variants", floor=91)
    rep.rule("R15-TYPE", "Type::to_doc keyword = grammar type_info keyword, injective, every type has a production", floor=11)
    rep.rule("R15-CONST", "constant keyword / literal syntax printed = grammar constant_* / typed_constant; no printer arm panics", floor=11)
    rep.rule("R15-TERM", "term keywords and brackets printed by Term::to_doc = grammar rule term", floor=10)
    rep.rule("R15-DATA", "Data constructor keywords printed = grammar rule data", floor=5)
    rep.rule("R15-ESC", "escape forms the printer can emit are accepted by grammar rule character, on the same unit (byte vs char); a char is narrowed to u8 only under a guard that implies is_ascii()", floor=5)
    rep.rule("R15-TOTAL", "grammar actions contain no unwrap/expect/panic: fallible steps use the {? } form", floor=20)

    rep.guarded("R15-BUILTIN", lambda: r_builtin(sh, rep))
    gram = None
    try:
        gram = peg_grammar(sh.file(G), "uplc")
        rep.touched(G)
    except AnchorMissing as e:
        rep.anchor_missing("R15-TYPE", e)
        return
    rep.guarded("R15-TYPE", lambda: r_type(sh, rep, gram))
    rep.guarded("R15-CONST", lambda: r_const(sh, rep, gram))
    rep.guarded("R15-TERM", lambda: r_term(sh, rep, gram))
    rep.guarded("R15-DATA", lambda: r_data(sh, rep, gram))
    rep.guarded("R15-ESC", lambda: r_esc(sh, rep, gram))
    rep.guarded("R15-ESC", lambda: r_esc_cast(sh, rep))
    rep.rule("R15-SEP", "separators between printed items are text or white space also in flat layout (never line_/softline_/nil alone)", floor=6)
    rep.guarded("R15-SEP", lambda: r_sep(sh, rep))
    rep.guarded("R15-TOTAL", lambda: r_action_arith(sh, rep, gram))
    rep.rule("R15-WS", "every closing bracket of the grammar is preceded by optional white space, matching the printer's soft line breaks", floor=20)
    rep.guarded("R15-WS", lambda: r_ws(sh, rep, gram))
    rep.rule("R15-TAGSITE", "Data constructor indices are printed through convert_tag_to_constr: no private copy of the tag ranges outside the functions R04-TAGS evaluates", floor=3)
    from . import c04
    rep.guarded("R15-TAGSITE", lambda: c04.r_tagsites(sh, rep, "R15-TAGSITE"))
    rep.rule("R15-BIGINTSITE", "printer and parser convert Data big integers only through from/to_pallas_bigint (shared with C04)", floor=2)
    rep.guarded("R15-BIGINTSITE", lambda: c04.r_bigintsites(sh, rep, "R15-BIGINTSITE"))
    if gram:
        rep.rule("R15-READERS", "the grammar reads a Data constructor index with a rule wide enough for what the printer writes (u64), and a name's unique always comes from the interner", floor=2)
        rep.guarded("R15-READERS", lambda: r_readers(sh, rep, gram))
    rep.rule("R15-BIGREPR", "the parser's `I <n>` and the printer convert Data big integers with mutually inverse big-integer arithmetic (shared with C04)", floor=5)
    rep.guarded("R15-BIGREPR", lambda: c04.r_bigrepr(ctx.flow, rep, "R15-BIGREPR"))
    rep.guarded("R15-TOTAL", lambda: r_total(sh, rep, gram))


def builtin_tables(sh):
    fj = sh.file(B)
    enum = find_enum(fj, "DefaultFunction")
    variants = [v["name"] for v in enum["variants"]]
    disp = find_method(fj, "DefaultFunction", "fmt", trait="Display")
    m = next(matches_in(disp["body"]))
    display = {}
    for v, arm, alt in arm_table(m):
        lits = str_lits(arm["body"])
        display.setdefault(v, []).append((lits[0] if lits else None, arm))
    fs = find_method(fj, "DefaultFunction", "from_str", trait="FromStr")
    m2 = next(matches_in(fs["body"]))
    fromstr = {}
    for arm in m2["arms"]:
        for alt in pat_alts(arm["pat"]):
            if alt["k"] == "PLit":
                ps = [last(p) for p in paths_in(arm["body"]) if last(p) in variants]
                fromstr.setdefault(alt["e"]["v"], []).append((ps[0] if ps else None, arm))
    return variants, display, fromstr


def r_builtin(sh, rep):
    variants, display, fromstr = builtin_tables(sh)
    rep.touched(B, "impl Display for DefaultFunction::fmt")
    rep.touched(B, "impl FromStr for DefaultFunction::from_str")
    printed = {}
    for v in variants:
        rows = display.get(v)
        if not rows:
            rep.bad("R15-BUILTIN", v + "#no-display-arm", B, "builtin %s has no Display arm (catch-all or missing): its printed name is not decided" % v)
            continue
        name, arm = rows[0]
        where = sh.loc(B, arm)
        back = fromstr.get(name)
        if name in printed:
            rep.bad("R15-BUILTIN", v + "#shares-name", where, "prints %r, which %s also prints: the parser cannot tell them apart" % (name, printed[name]))
            continue
        printed[name] = v
        if not back:
            rep.bad("R15-BUILTIN", v + "#display-not-parsed", where, "Display prints %r but FromStr has no arm for that text: printed programs using this builtin do not parse back" % name, sample={"variant": v, "display": name, "from_str": None})
        elif back[0][0] != v:
            rep.bad("R15-BUILTIN", v + "#parses-to-other", where, "Display prints %r which FromStr reads as %s" % (name, back[0][0]))
        else:
            rep.ok("R15-BUILTIN", v, where, sample={"variant": v, "display": name, "from_str": back[0][0]})
    # reverse direction: every FromStr text maps to a variant whose Display text parses back to the same variant
    for text, rows in sorted(fromstr.items()):
        v = rows[0][0]
        if len(rows) > 1:
            rep.bad("R15-BUILTIN", "fromstr:%s#duplicate" % text, sh.loc(B, rows[1][1]), "text %r has two FromStr arms" % text)
        if v not in variants:
            rep.bad("R15-BUILTIN", "fromstr:%s#unknown-variant" % text, sh.loc(B, rows[0][1]), "FromStr arm does not produce a DefaultFunction variant")


def first_kw(lits):
    for s in lits:
        t = s.strip().lstrip("(").strip()
        if t and t not in (")",):
            return t
    return None


def r_type(sh, rep, gram):
    fa = sh.file(A)
    variants = [v["name"] for v in find_enum(fa, "Type")["variants"]]
    todoc = find_method(sh.file(P), "Type", "to_doc")
    rep.touched(P, "Type::to_doc")
    m = next(matches_in(todoc["body"]))
    printed = {}
    for v, arm, alt in arm_table(m):
        printed[v] = (first_kw(str_lits(arm["body"])), arm)
    if "type_info" not in gram:
        raise AnchorMissing("grammar rule type_info")
    gkw = {}
    for alt in gram["type_info"].alts:
        ids = alt.action_idents()
        for i, x in enumerate(ids):
            if x == "Type" and i + 1 < len(ids) and ids[i + 1] in variants:
                gkw.setdefault(ids[i + 1], []).append((first_kw(alt.lits), alt))
                break
    seen = {}
    for v in variants:
        if v not in printed:
            rep.bad("R15-TYPE", v + "#no-printer-arm", P, "type %s has no to_doc arm" % v)
            continue
        kw, arm = printed[v]
        where = sh.loc(P, arm)
        if kw in seen:
            rep.bad("R15-TYPE", v + "#shares-keyword", where, "type %s prints keyword %r, the same as %s: a printed constant of this type parses back as the other type (or not at all)" % (v, kw, seen[kw]), sample={"type": v, "printed": kw, "clashes_with": seen[kw]})
            continue
        seen[kw] = v
        g = gkw.get(v)
        if not g:
            rep.bad("R15-TYPE", v + "#no-grammar-production", where, "type %s prints %r but grammar rule type_info has no production yielding Type::%s" % (v, kw, v), sample={"type": v, "printed": kw, "grammar": None})
        elif g[0][0] != kw:
            rep.bad("R15-TYPE", v + "#keyword-mismatch", where, "type %s prints %r but the grammar expects %r" % (v, kw, g[0][0]))
        else:
            rep.ok("R15-TYPE", v, where, sample={"type": v, "printed": kw, "grammar": g[0][0]})
    # Display for Type is used in diagnostics only; drift is informational
    try:
        disp = find_method(fa, "Type", "fmt", trait="Display")
        md = next(matches_in(disp["body"]))
        for v, arm, alt in arm_table(md):
            kw = first_kw(str_lits(arm["body"]))
            kw = kw.split(" ")[0] if kw else kw
            if v in printed and printed[v][0] != kw:
                rep.info("Display for Type::%s says %r, to_doc says %r (Display is diagnostics-only; not a violation)" % (v, kw, printed[v][0]))
    except (AnchorMissing, StopIteration):
        pass


def closure_lits(gram, alt, stop=("typed_constant", "data", "term", "type_info", "ident", "_")):
    lits = list(alt.lits)
    seen = set()
    work = list(alt.calls)
    while work:
        c = work.pop()
        if c in seen or c in stop or c not in gram:
            continue
        seen.add(c)
        for a in gram[c].alts:
            lits += a.lits
            work += a.calls
    return lits


def r_const(sh, rep, gram):
    fa = sh.file(A)
    variants = [v["name"] for v in find_enum(fa, "Constant")["variants"]]
    fp = sh.file(P)
    todoc = find_method(fp, "Constant", "to_doc")
    todl = find_method(fp, "Constant", "to_doc_list")
    rep.touched(P, "Constant::to_doc")
    rep.touched(P, "Constant::to_doc_list")
    # grammar: constant -> constant_* rules, keyed by the Constant variant their action builds
    if "constant" not in gram or "typed_constant" not in gram:
        raise AnchorMissing("grammar rule constant / typed_constant")
    g_top = {}
    for c in gram["constant"].alts[0].calls:
        if c not in gram or not c.startswith("constant_"):
            continue
        for alt in gram[c].alts:
            ids = alt.action_idents()
            for i, x in enumerate(ids):
                if x == "Constant" and i + 1 < len(ids) and ids[i + 1] in variants:
                    g_top[ids[i + 1]] = (c, alt)
                    break
    g_typed = {}
    for alt in gram["typed_constant"].alts:
        ids = alt.action_idents()
        for i, x in enumerate(ids):
            if x == "Constant" and i + 1 < len(ids) and ids[i + 1] in variants:
                g_typed[ids[i + 1]] = alt
                break
    for fn, tab, gtab, label in ((todoc, "to_doc", g_top, "constant"), (todl, "to_doc_list", g_typed, "typed_constant")):
        m = next(matches_in(fn["body"]))
        rows = {v: arm for v, arm, alt in arm_table(m)}
        for v in variants:
            key = "%s#%s" % (v, tab)
            if v not in rows:
                rep.bad("R15-CONST", key + "#no-arm", P, "Constant::%s has no explicit arm in %s" % (v, tab))
                continue
            arm = rows[v]
            where = sh.loc(P, arm)
            panics = [n for n in walk(arm["body"]) if n["k"] == "Macro" and n["path"] in ("panic", "todo", "unimplemented", "unreachable")]
            if panics:
                rep.bad("R15-CONST", key + "#printer-panics", where, "printing a Constant::%s panics (%s!): the printer is partial on this constant kind" % (v, panics[0]["path"]), sample={"variant": v, "fn": tab})
                continue
            plits = [s for s in str_lits(arm["body"])]
            g = gtab.get(v)
            if g is None:
                rep.bad("R15-CONST", key + "#no-grammar-production", where, "Constant::%s is printed by %s but grammar rule %s has no alternative building it" % (v, tab, label))
                continue
            alt = g[1] if isinstance(g, tuple) else g
            glits = closure_lits(gram, alt)
            if tab == "to_doc":
                pk = first_kw(plits)
                gk = first_kw(alt.lits)
                if pk != gk:
                    rep.bad("R15-CONST", key + "#keyword-mismatch", where, "prints keyword %r, grammar rule %s expects %r" % (pk, g[0], gk))
                    continue
            # literal syntax: every punctuation/keyword token printed must be a token of the grammar path
            pt = [t for t in toks(plits)]
            gt = set(toks(glits)) | {","}
            if tab == "to_doc":
                # type arguments of list/pair are printed by Type::to_doc (R15-TYPE)
                pass
            missing = [t for t in pt if t not in gt]
            if missing:
                rep.bad("R15-CONST", key + "#literal-syntax", where, "prints token(s) %r that the grammar path for this constant kind never matches (grammar tokens: %s)" % (missing, sorted(gt)))
            else:
                rep.ok("R15-CONST", key, where, sample={"variant": v, "printed_tokens": pt, "grammar_tokens": sorted(gt)})


def r_term(sh, rep, gram):
    fa = sh.file(A)
    variants = [v["name"] for v in find_enum(fa, "Term")["variants"]]
    fp = sh.file(P)
    todoc = find_method(fp, "Term", "to_doc")
    rep.touched(P, "Term::to_doc")
    m = next(matches_in(todoc["body"]))
    rows = {v: arm for v, arm, alt in arm_table(m)}
    if "term" not in gram:
        raise AnchorMissing("grammar rule term")
    g = {}
    for c in gram["term"].alts:
        for call in c.calls:
            if call not in gram:
                continue
            for alt in gram[call].alts:
                ids = alt.action_idents()
                for i, x in enumerate(ids):
                    if x == "Term" and i + 1 < len(ids) and ids[i + 1] in variants:
                        g.setdefault(ids[i + 1], (call, alt))
    for v in variants:
        if v not in rows:
            rep.bad("R15-TERM", v + "#no-printer-arm", P, "Term::%s has no explicit to_doc arm" % v)
            continue
        arm = rows[v]
        where = sh.loc(P, arm)
        pt = [t for t in toks(str_lits(arm["body"])) if t not in ('"',)]
        if v not in g:
            rep.bad("R15-TERM", v + "#no-grammar-production", where, "Term::%s is printed but no grammar rule builds it" % v)
            continue
        gt = toks(g[v][1].lits)
        if v == "Var":
            rep.ok("R15-TERM", v, where, nontrivial=False)
            continue
        if pt != gt:
            rep.bad("R15-TERM", v + "#keyword-mismatch", where, "prints tokens %r, grammar rule %s matches %r" % (pt, g[v][0], gt))
        else:
            rep.ok("R15-TERM", v, where, sample={"variant": v, "printed": pt, "grammar": gt})


DATA_BUILDERS = {  # PlutusData variant -> constructor idents the grammar action may use (spec: uplc::ast::Data helpers)
    "Constr": {"constr"},
    "Map": {"Map", "map"},
    "BigInt": {"BigInt", "integer"},
    "BoundedBytes": {"BoundedBytes", "bytestring"},
    "Array": {"list", "Array"},
}


def r_data(sh, rep, gram):
    fp = sh.file(P)
    f = find_method(fp, "Constant", "to_doc_list_plutus_data")
    rep.touched(P, "Constant::to_doc_list_plutus_data")
    m = next(matches_in(f["body"]))
    if "data" not in gram:
        raise AnchorMissing("grammar rule data")
    for v, arm, alt in arm_table(m):
        where = sh.loc(P, arm)
        if v not in DATA_BUILDERS:
            rep.bad("R15-DATA", str(v) + "#unknown-variant", where, "PlutusData variant not in the spec table")
            continue
        kw = first_kw(str_lits(arm["body"]))
        found = None
        for ga in gram["data"].alts:
            ids = set(ga.action_idents())
            if ids & DATA_BUILDERS[v] and (v != "Array" or "list" in ids or "Array" in ids):
                # the first alternative whose action builds this variant
                if v == "Map" and "Map" not in ids:
                    continue
                found = ga
                break
        if not found:
            rep.bad("R15-DATA", v + "#no-grammar-production", where, "no alternative of grammar rule data builds PlutusData::%s" % v)
        elif first_kw(found.lits) != kw:
            rep.bad("R15-DATA", v + "#keyword-mismatch", where, "prints %r, grammar expects %r" % (kw, first_kw(found.lits)))
        else:
            pt = toks(str_lits(arm["body"]))
            gt = set(toks(closure_lits(gram, found, stop=("data", "_")))) | {","}
            missing = [t for t in pt if t not in gt]
            if missing:
                rep.bad("R15-DATA", v + "#literal-syntax", where, "prints %r which the grammar path never matches" % missing)
            else:
                rep.ok("R15-DATA", v, where, sample={"variant": v, "printed": pt})


# spec table: escape forms each std escaping function can emit (Rust std documentation)
ESCAPERS = {
    "escape_default@u8": {"forms": ["\\t", "\\r", "\\n", "\\'", '\\"', "\\\\", "\\x"]},
    "escape_default@char": {"forms": ["\\t", "\\r", "\\n", "\\'", '\\"', "\\\\", "\\u"]},
    "escape_debug@char": {"forms": ["\\t", "\\r", "\\n", "\\'", '\\"', "\\\\", "\\u", "\\0"]},
    "escape_unicode@char": {"forms": ["\\u"]},
}


def escaping_site(sh, fp, arm_body, depth=0):
    """(node containing the escaping expression, escaper call) — in the arm itself or in a helper of pretty.rs it calls"""
    for c in calls_in(arm_body):
        nm = call_name(c)
        if nm and "escape" in last(nm) and last(nm) in ("escape_default", "escape_debug", "escape_unicode"):
            return arm_body, c
    if depth < 2:
        for c in calls_in(arm_body):
            nm = call_name(c)
            if c["k"] == "Call" and nm and "::" not in nm:
                try:
                    h = find_fn(fp, nm)
                except AnchorMissing:
                    continue
                r = escaping_site(sh, fp, h["body"], depth + 1)
                if r:
                    return r
    return None


def r_esc(sh, rep, gram):
    fp = sh.file(P)
    if "character" not in gram or "string" not in gram:
        raise AnchorMissing("grammar rule character / string")
    accepted = set()
    hex_unit = None
    raw_any = False
    for alt in gram["character"].alts:
        for l in alt.lits:
            accepted.add(l)
        if "\\x" in alt.lits:
            flat = alt.action_flat()
            # the action may delegate to a private function of parser.rs: read that function too
            pj = sh.file(G)
            for ident in list(flat):
                try:
                    hf = find_fn(pj, ident)
                except AnchorMissing:
                    continue
                flat = flat + re.findall(r"[A-Za-z_][A-Za-z0-9_]*", sh.src(G, hf["body"]))
            # \xHH on the parser side: one decoded byte turned into one char (Latin-1 code point)
            hex_unit = "char" if ("into" in flat or "char" in flat) else "byte"
        if not alt.lits and not alt.actions and any(t["t"] == "g" and t["d"] == "[" for t in alt.toks):
            raw_any = True  # [^ '"'] : any other character is taken verbatim
    for name in ("to_doc", "to_doc_list"):
        f = find_method(fp, "Constant", name)
        m = next(matches_in(f["body"]))
        rows = {v: arm for v, arm, alt in arm_table(m)}
        arm = rows.get("String")
        if arm is None:
            rep.bad("R15-ESC", "%s#String#no-arm" % name, P, "no String arm")
            continue
        where = sh.loc(P, arm)
        site = escaping_site(sh, fp, arm["body"])
        if not site:
            rep.bad("R15-ESC", "%s#String#no-escaping" % name, where, "string content is printed without a recognised escaping function: quotes/backslashes inside strings would not parse back")
            continue
        body, esc = site
        calls = [call_name(c) for c in calls_in(body)]
        src = sh.nsrc(P, body)
        over_bytes = "as_bytes" in calls or "bytes" in calls
        arg_is_u8 = over_bytes or bool(re.search(r"escape_default\((\*?\w+asu8|\*\w+)\)", src))
        key = "%s@%s" % (last(call_name(esc)), "u8" if arg_is_u8 else "char")
        if key not in ESCAPERS:
            rep.bad("R15-ESC", "%s#String#unrecognised-escaper" % name, where, "escaping function %s is not in the spec table of escapers; cannot decide which forms it emits" % key)
            continue
        spec = ESCAPERS[key]
        missing = [f_ for f_ in spec["forms"] if f_ not in accepted]
        if missing:
            rep.bad("R15-ESC", "%s#String#forms-not-accepted" % name, where, "printer can emit escape form(s) %r that grammar rule character has no alternative for" % missing)
        else:
            rep.ok("R15-ESC", "%s#String#forms" % name, where, sample={"escaper": key, "forms": spec["forms"], "accepted": sorted(accepted)})
        # unit agreement: what does one \\xHH stand for on each side?
        if over_bytes:
            punit = "byte of the UTF-8 encoding (every byte >= 0x80 becomes its own \\xHH)"
            okunit = hex_unit == "byte"
        else:
            ascii_only = "is_ascii()" in src
            punit = "ASCII character only (non-ASCII printed verbatim)" if ascii_only else "character truncated to u8"
            okunit = ascii_only and raw_any and hex_unit == "char"
        if okunit:
            rep.ok("R15-ESC", "%s#String#unit" % name, where, sample={"printer_unit": punit, "parser_unit": hex_unit})
        else:
            rep.bad(
                "R15-ESC",
                "%s#String#unit-mismatch" % name,
                where,
                "printer escapes per %s while grammar rule character reads each \\xHH as one %s: non-ASCII text does not round-trip" % (punit, hex_unit),
                sample={"printer_unit": punit, "parser_unit": hex_unit},
            )


# review table: action sites that index/unwrap but are dominated by a check. key -> reason
TOTAL_REVIEW = {
    "big_number#index": "n.as_bytes()[1..] is taken only under n.starts_with('-'): the text has at least that one byte",
    "character#index": "res[0] after hex::decode of a two-character string returned Ok: the decoded vector has exactly one byte",
}


def r_total(sh, rep, gram):
    for name, rule in sorted(gram.items()):
        for ai, alt in enumerate(rule.alts):
            if not alt.actions:
                continue
            flat = alt.action_flat()
            bad = []
            for i, t in enumerate(flat):
                if t in ("unwrap", "expect", "unwrap_unchecked") and i > 0 and flat[i - 1] == ".":
                    bad.append(t)
                if t in ("panic", "unreachable", "todo", "unimplemented") and i + 1 < len(flat) and flat[i + 1] == "!":
                    bad.append(t + "!")
                if t == "[" and i > 0 and re.match(r"^[A-Za-z_][A-Za-z0-9_]*$|^\)$|^\]$", str(flat[i - 1])) and flat[i - 1] not in ("vec", "matches"):
                    # indexing expression (ident[...]) as opposed to an array literal
                    if not (i > 1 and flat[i - 2] in ("&", "=", "(", ",", "let")) or flat[i - 1] not in ("&",):
                        bad.append("index")
            where = "%s:%d" % (G, alt.line)
            if not bad:
                rep.ok("R15-TOTAL", "%s#alt%d" % (name, ai), where, nontrivial=True)
                continue
            for b in sorted(set(bad)):
                k = "%s#%s" % (name, b)
                if k in TOTAL_REVIEW:
                    rep.ok("R15-TOTAL", k, where, why="reviewed: " + TOTAL_REVIEW[k])
                else:
                    rep.bad("R15-TOTAL", k, where, "action of grammar rule %s contains %s: malformed input reaches a panic instead of a parse error (use the fallible {? } form)" % (name, b))


# ---------------------------------------------------------------------------------------------------------
# R15-ESC (cast guard): a char is narrowed to u8 for escaping only when the guard implies it is ASCII
# ---------------------------------------------------------------------------------------------------------
def _implies_ascii(cond, var):
    k = cond["k"]
    if k == "MethodCall" and cond["m"] == "is_ascii" and cond["recv"]["k"] == "Path" and cond["recv"]["p"] == var:
        return True
    if k == "Binary" and cond["op"] == "&&":
        return _implies_ascii(cond["l"], var) or _implies_ascii(cond["r"], var)
    if k == "Binary" and cond["op"] == "||":
        return _implies_ascii(cond["l"], var) and _implies_ascii(cond["r"], var)
    if k == "Binary" and cond["op"] in ("<", "<=") and cond["l"]["k"] == "Path" and cond["l"]["p"] == var:
        return True  # explicit code-point bound
    return False


def r_esc_cast(sh, rep):
    fp = sh.file(P)
    n_casts = 0
    for q, f in all_fns(fp):
        if "escape" not in q.split("::")[-1]:
            continue
        rep.touched(P, q)

        def rec(node, guards):
            nonlocal n_casts
            if isinstance(node, list):
                for x in node:
                    rec(x, guards)
                return
            if not isinstance(node, dict):
                return
            if node.get("k") == "If":
                rec(node["cond"], guards)
                rec(node["then"], guards + [node["cond"]])
                if "else" in node:
                    rec(node["else"], guards)
                return
            if node.get("k") == "Cast" and node["ty"].replace(" ", "") == "u8" and node["e"]["k"] == "Path":
                var = node["e"]["p"]
                n_casts += 1
                ok = any(_implies_ascii(g, var) for g in guards)
                rep.check(ok, "R15-ESC", "%s#cast-%s-as-u8#guard" % (q, var), sh.loc(P, node), "`%s as u8` truncates every character above U+00FF; it is reached under %s, which does not imply `%s.is_ascii()`: such characters are printed as the escape of a different byte and parse back as another string" % (var, [sh.nsrc(P, g)[:60] for g in guards] or "no guard", var), sample={"guards": [sh.nsrc(P, g)[:60] for g in guards]})
            for v in node.values():
                if isinstance(v, (dict, list)):
                    rec(v, guards)

        rec(f["body"], [])
    return n_casts


# ---------------------------------------------------------------------------------------------------------
# R15-WS: wherever the printer may break a line, the grammar tolerates white space
# ---------------------------------------------------------------------------------------------------------
def r_ws(sh, rep, gram):
    """The printer separates tokens with `line()` / `line_()` / `softline` that become newlines once a group exceeds the page
    width, in particular right before closing brackets and right after opening ones. The grammar side of that contract:
    every closing bracket literal is preceded by optional white space `_*` (or by a repetition whose body ends in `_*`).
    Today all 20 sites comply; a site that does not rejects the printer's own output only for wide terms."""

    def flat(toks):
        for t in toks:
            if t["t"] == "g" and t["d"] == "(":
                yield {"t": "open"}
                yield from flat(t["c"])
                yield {"t": "close"}
            elif t["t"] == "g":
                yield {"t": "grp", "d": t["d"]}
            else:
                yield t

    n = 0
    for name, r in sorted(gram.items()):
        for alt in r.alts:
            ts = list(flat(alt.toks))
            for i, t in enumerate(ts):
                if t["t"] == "l" and t.get("v") in ('")"', '"]"'):
                    j = i - 1
                    # skip repetition marks, group ends and action blocks to reach the last matched element
                    while j >= 0 and (ts[j]["t"] in ("close", "grp") or (ts[j]["t"] == "p" and ts[j].get("v") in ("+", "*", "?") and j > 0 and ts[j - 1]["t"] in ("close",))):
                        j -= 1
                    ok = j >= 1 and ts[j]["t"] == "p" and ts[j].get("v") in ("*", "+") and ts[j - 1].get("v") == "_"
                    n += 1
                    rep.check(ok, "R15-WS", "%s#%d#before%s" % (name, sum(1 for x in ts[:i] if x["t"] == "l" and x.get("v") == t["v"]), t["v"].strip('"')), "%s:%d" % (G, alt.line), "grammar rule %s does not allow white space before %s: the printer puts a soft line break there, so output wider than the page is rejected by the parser" % (name, t["v"]), sample={"rule": name})
    return n


# ---------------------------------------------------------------------------------------------------------
# R15-SEP: adjacent printed items are separated by something that is white space (or text) also in flat layout
# ---------------------------------------------------------------------------------------------------------
EMPTY_WHEN_FLAT = {"line_", "softline_", "nil"}


def r_sep(sh, rep):
    """`RcDoc::line_()` / `softline_()` print *nothing* when the group fits on one line. As a separator between two printed
    items (constr fields, case branches, list elements without a comma) they glue adjacent tokens together: `(constr 0 x y)`
    becomes `(constr 0 xy)`, another program. A separator must contain text (`,`) or be line()/space()/hardline()."""
    fp = sh.file(P)
    n = 0
    for q, f in all_fns(fp):
        if "body" not in f:
            continue
        for c in walk(f["body"]):
            if c["k"] == "Call" and (call_name(c) or "").endswith("intersperse") and len(c["args"]) == 2:
                n += 1
                sep = c["args"][1]
                names = [last(call_name(x) or "") for x in walk(sep) if x["k"] == "Call"]
                has_text = any(x["k"] == "Lit" and x.get("lk") == "str" and x["v"].strip() for x in walk(sep)) or any(nm in ("text", "as_string") for nm in names)
                ws = [nm for nm in names if nm in ("line", "space", "hardline", "softline")]
                empty = [nm for nm in names if nm in EMPTY_WHEN_FLAT]
                ok = has_text or (bool(ws) and not (empty and not ws))
                if not has_text and empty and not ws:
                    ok = False
                rep.check(ok, "R15-SEP", "%s#intersperse#%d" % (q, n), sh.loc(P, c), "%s separates printed items with `%s`, which is empty when the group fits on one line: two adjacent items are then printed without anything between them and parse back as one token (or another term)" % (q, sh.nsrc(P, sep)[:40]), sample={"separator": sh.nsrc(P, sep)[:40]})
    return n


# ---------------------------------------------------------------------------------------------------------
# R15-ACTIONS (arithmetic): grammar actions do not mix shift and additive operators without parentheses
# ---------------------------------------------------------------------------------------------------------
def r_action_arith(sh, rep, gram):
    """`hi << 4 + lo` is `hi << (4 + lo)` in Rust. Inside grammar actions (token trees — no expression tree to consult) a shift
    followed, in the same parenthesis level, by `+`/`-` (or preceded by one) is reported."""
    n = 0
    for name, r in sorted(gram.items()):
        for alt in r.alts:
            for act in alt.actions:

                def scan(ts):
                    nonlocal n
                    ops = []
                    i = 0
                    while i < len(ts):
                        t = ts[i]
                        if t["t"] == "g":
                            scan(t["c"])
                        elif t["t"] == "p":
                            v = t["v"]
                            nxt = ts[i + 1] if i + 1 < len(ts) else None
                            if v in ("<", ">") and t.get("j") and nxt is not None and nxt["t"] == "p" and nxt["v"] == v:
                                ops.append("shift")
                                i += 1
                            elif v in ("+", "-") and not (nxt is not None and nxt["t"] == "p" and nxt["v"] == "=" and t.get("j")):
                                # binary only: previous token is an identifier, literal or closing group
                                prev = ts[i - 1] if i > 0 else None
                                if prev is not None and prev["t"] in ("i", "l", "g"):
                                    ops.append("add")
                            elif v in (",", ";", "=") or (v == "=" and nxt is not None and nxt["v"] == ">"):
                                if "shift" in ops and "add" in ops:
                                    pass
                                ops = ops if v not in (",", ";") else _flush(ops)
                        i += 1
                    _flush(ops)

                def _flush(ops):
                    nonlocal n
                    if "shift" in ops and "add" in ops:
                        n += 1
                        rep.bad("R15-TOTAL", "%s#shift-and-additive-without-parentheses" % name, "%s:%d" % (G, alt.line), "the action of grammar rule %s mixes `<<`/`>>` with `+`/`-` at one parenthesis level: `a << b + c` shifts by `b + c`; a hex escape decoded this way yields another character" % name)
                    return []

                scan(act["c"])
    rep.ok("R15-TOTAL", "actions#shift-additive-precedence", G, why="no grammar action mixes shift and additive operators at one level", nontrivial=False) if n == 0 else None


# ---------------------------------------------------------------------------------------------------------
# R15-READERS: two reader clauses of the grammar
# ---------------------------------------------------------------------------------------------------------
WIDE_UNSIGNED = ("usize", "u64", "u128", "BigInt", "num_bigint::BigInt")


def r_readers(sh, rep, gram):
    """(a) The printer writes a constructor index as the u64 it is; the `data` production must read it with a rule whose
    result type holds every u64 (this crate is 64-bit only: usize) — a signed machine integer rejects 2^63..2^64-1.
    (b) Names are identified by text: the printer writes the text only, so the unique a parsed name gets must be the
    interner's (same text -> same unique, different text -> different unique); any other source of uniques shares the
    number space with the interner and makes two binders collide."""
    d = gram.get("data")
    if d is None:
        raise AnchorMissing("grammar rule data")
    alts = [a for a in d.alts if any(t["t"] == "l" and t.get("v") == '"Constr"' for t in a.toks)]
    if not alts:
        raise AnchorMissing("the Constr alternative of grammar rule data")
    flat = alts[0].action_flat() if alts[0].actions else []
    src = None
    for i, t in enumerate(flat):
        if t == "try_from" and i + 2 < len(flat):
            src = flat[i + 2]
    reader = None
    toks = alts[0].toks
    for i, t in enumerate(toks):
        if t["t"] == "i" and t.get("v") == src and i + 2 < len(toks) and toks[i + 1].get("v") == ":":
            reader = toks[i + 2].get("v")
    ret = (gram[reader].header.split("->")[-1] if reader in gram else "?")
    rep.check(ret in WIDE_UNSIGNED, "R15-READERS", "data#Constr#index-rule-holds-u64", "%s:%s" % (G, d.line), "the Constr index is read by rule `%s` returning `%s`: the printer writes the index as a u64, so indices from 2^63 on are printed and then rejected" % (reader, ret), sample={"rule": reader, "type": ret})
    n = gram.get("name")
    if n is None:
        raise AnchorMissing("grammar rule name")
    fl = n.alts[0].action_flat() if n.alts and n.alts[0].actions else []
    other = [t for t in fl if t in ("match", "if", "Unique", "parse", "rsplit_once", "split", "strip_suffix", "rsplit")]
    rep.check("intern" in fl and not other, "R15-READERS", "name#unique-from-interner-only", "%s:%s" % (G, n.line), "rule `name` derives a name's unique from something else than interner.intern(text) (%s): uniques taken from the text share the number space with interned ones, two different binders can end up with the same unique and a variable resolves to the wrong lambda after print -> parse" % other, sample={"action": fl[:20]})
