"""Aiken source embedded in the compiler (`aiken_fn!(.., r#" .. "#)` in aiken-lang/src/builtins.rs): the prelude functions the
type checker inserts into user programs (`diagnostic`, `from_int`, `encode_base16`, `enumerate`, ..). They are part of every
traced build, so their totality is a clause of C14 — and they are invisible to every Rust-level rule. This module tokenises
them (comments and literals removed) and gives the rules a call graph, the keywords used and the builtins applied."""
import re
from .lib import *

AB = "crates/aiken-lang/src/builtins.rs"
UB = "crates/uplc/src/builtins.rs"

_TOK = re.compile(r'''
    (?P<comment>//[^\n]*)
  | (?P<str>@"(?:[^"\\]|\\.)*")
  | (?P<bytes>\#"[0-9a-fA-F]*"|\#\[[^\]]*\]|"(?:[^"\\]|\\.)*")
  | (?P<num>\d[\d_]*)
  | (?P<id>[A-Za-z_][A-Za-z0-9_]*)
  | (?P<op>\|>|->|<-|==|!=|<=|>=|&&|\|\||\.\.|[(){}\[\],.:;<>+\-*/%=|!?@])
  | (?P<ws>\s+)
''', re.X)


def tokenize(src):
    out = []
    pos = 0
    while pos < len(src):
        m = _TOK.match(src, pos)
        if not m:
            raise AnchorMissing("embedded Aiken source: cannot tokenise at %r" % src[pos:pos + 20])
        pos = m.end()
        k = m.lastgroup
        if k in ("comment", "ws"):
            continue
        out.append((k, m.group(0)))
    return out


class AikenFn:
    def __init__(self, name, src, line):
        self.name, self.src, self.line = name, src, line
        self.toks = tokenize(src)

    def idents(self):
        return [v for k, v in self.toks if k == "id"]

    def builtin_calls(self):
        """[(name, token index of the name)] for every `builtin.<name>`"""
        out = []
        t = self.toks
        for i in range(len(t) - 2):
            if t[i] == ("id", "builtin") and t[i + 1] == ("op", ".") and t[i + 2][0] == "id":
                out.append((t[i + 2][1], i + 2))
        return out

    def call_args(self, i):
        """token slices of the arguments of the call whose callee name is token i (`name ( a , b )`); None if not a call"""
        t = self.toks
        if i + 1 >= len(t) or t[i + 1] != ("op", "("):
            return None
        depth, args, cur = 0, [], []
        for j in range(i + 1, len(t)):
            k, v = t[j]
            if v in ("(", "{", "["):
                depth += 1
                if depth == 1:
                    continue
            elif v in (")", "}", "]"):
                depth -= 1
                if depth == 0:
                    if cur:
                        args.append(cur)
                    return args
            if depth == 1 and v == ",":
                args.append(cur)
                cur = []
            else:
                cur.append((k, v))
        return None


def embedded_functions(sh):
    """name -> AikenFn for every aiken_fn!(.., r#"..fn name(.."#) in builtins.rs (Rust `//` lines skipped)"""
    text = "\n".join(sh.text(AB))
    out = {}
    for m in re.finditer(r'aiken_fn!\s*\(', text):
        # the macro call must not sit on a commented-out Rust line
        ls = text.rfind("\n", 0, m.start()) + 1
        if text[ls:m.start()].lstrip().startswith("//"):
            continue
        r = re.compile(r'r#"(.*?)"#', re.S).search(text, m.end())
        if not r:
            continue
        src = r.group(1)
        fm = re.search(r'\bfn\s+([a-z_][a-z0-9_]*)\s*\(', src)
        if not fm:
            continue
        out[fm.group(1)] = AikenFn(fm.group(1), src, text.count("\n", 0, r.start()) + 1)
    return out


def aiken_builtin_names(sh):
    """aiken spelling -> DefaultFunction variant, read from DefaultFunction::aiken_name"""
    f = find_method(sh.file(UB), "DefaultFunction", "aiken_name")
    if not f:
        raise AnchorMissing("DefaultFunction::aiken_name")
    m = next(matches_in(f["body"]))
    out = {}
    for v, arm, alt in arm_table(m):
        b = arm["body"]
        if v and b["k"] == "Lit":
            out[b["v"]] = v
    if len(out) < 80:
        raise AnchorMissing("DefaultFunction::aiken_name rows (%d)" % len(out))
    return out
