"""Per-builtin tables read from four independent places:
  runtime.rs   arity / force_count / arg_is_unit / call arms (unwrappers per argument)
  cost_model.rs  to_ex_budget arms (cost field, size arguments)
  aiken-lang builtins.rs  from_default_function (Aiken signature, arity literal)
"""
import re
from .lib import *

RT = "crates/uplc/src/machine/runtime.rs"
CM = "crates/uplc/src/machine/cost_model.rs"
BI = "crates/uplc/src/builtins.rs"
AB = "crates/aiken-lang/src/builtins.rs"


def _lit_table(fn):
    m = next(matches_in(fn["body"]))
    out = {}
    for v, arm, alt in arm_table(m):
        b = arm["body"]
        val = None
        if b["k"] == "Lit":
            val = b["v"] if b["lk"] == "bool" else int(b["v"]) if b["lk"] == "int" else b["v"]
        out[v] = (val, arm)
    return out


def arg_uses(node):
    """[(index, method-or-None, node)] for every args[i] / args[i].m() occurrence, in source order"""
    out = []
    seen_index_nodes = set()
    for n in walk(node):
        if n["k"] == "MethodCall" and n["recv"]["k"] == "Index":
            ix = n["recv"]
            if ix["e"]["k"] == "Path" and ix["e"]["p"] == "args" and ix["i"]["k"] == "Lit":
                out.append((int(ix["i"]["v"]), n["m"], n))
                seen_index_nodes.add(id(ix))
        elif n["k"] == "Index" and id(n) not in seen_index_nodes:
            if n["e"]["k"] == "Path" and n["e"]["p"] == "args" and n["i"]["k"] == "Lit":
                out.append((int(n["i"]["v"]), None, n))
    return out


class BuiltinTables:
    def __init__(self, sh):
        self.sh = sh
        fb = sh.file(BI)
        self.variants = [v["name"] for v in find_enum(fb, "DefaultFunction")["variants"]]
        rt = sh.file(RT)
        self.arity = _lit_table(find_method(rt, "DefaultFunction", "arity"))
        self.force = _lit_table(find_method(rt, "DefaultFunction", "force_count"))
        self.unit = _lit_table(find_method(rt, "DefaultFunction", "arg_is_unit"))
        call = find_method(rt, "DefaultFunction", "call")
        self.call_fn = call
        cm = next(matches_in(call["body"], lambda e: e["k"] == "Path" and e["p"] == "self"))
        self.call_match = cm
        self.call = {}
        self.call_catch_all = None
        for v, arm, alt in arm_table(cm):
            if v is None:
                self.call_catch_all = arm
            else:
                self.call[v] = arm
        cmj = sh.file(CM)
        teb = find_method(cmj, "BuiltinCosts", "to_ex_budget")
        self.cost_fn = teb
        tm = next(matches_in(teb["body"], lambda e: e["k"] == "Path" and e["p"] == "fun"))
        self.cost_match = tm
        self.cost = {}
        self.cost_catch_all = None
        for v, arm, alt in arm_table(tm):
            if v is None:
                self.cost_catch_all = arm
            else:
                self.cost[v] = arm
        self.cost_fields = [f["name"] for f in find_struct(cmj, "BuiltinCosts")["fields"]]
        ab = sh.file(AB)
        fdf = find_fn(ab, "from_default_function")
        am = next(matches_in(fdf["body"], lambda e: e["k"] == "Path" and e["p"] == "builtin"))
        self.aiken_match = am
        self.aiken = {}
        for v, arm, alt in arm_table(am):
            if v is not None:
                self.aiken[v] = arm

    # --- call arm
    def call_args(self, v):
        """{index: [methods]} for the call arm"""
        out = {}
        for i, m, n in arg_uses(self.call[v]["body"]):
            out.setdefault(i, []).append(m)
        return out

    def cost_info(self, v):
        """field names read from self, and the (mem args, cpu args) source of the cost calls"""
        arm = self.cost[v]
        sh = self.sh
        fields = []
        for n in walk(arm["body"]):
            if n["k"] == "Field" and n["e"]["k"] == "Path" and n["e"]["p"] == "self":
                fields.append(n["f"])
        mem = cpu = None
        nargs = None
        for n in walk(arm["body"]):
            if n["k"] == "Struct" and last(n["p"]) == "ExBudget":
                for f in n["fields"]:
                    e = f["e"]
                    if e["k"] == "MethodCall" and e["m"] == "cost":
                        srcs = [sh.nsrc(CM, a) for a in e["args"]]
                        # which dimension of the costing function is consulted
                        dim = e["recv"]["f"] if e["recv"]["k"] == "Field" else None
                        base = e["recv"]["e"]["f"] if e["recv"]["k"] == "Field" and e["recv"]["e"]["k"] == "Field" else None
                        if f["name"] == "mem":
                            mem = (srcs, dim, base)
                        elif f["name"] == "cpu":
                            cpu = (srcs, dim, base)
        idx = sorted({i for i, m, n in arg_uses(arm["body"])})
        return {"fields": fields, "mem": mem, "cpu": cpu, "arg_indices": idx}

    def aiken_sig(self, v):
        """(param type sources, return type source, arity literal, #generic vars)"""
        arm = self.aiken[v]
        sh = self.sh
        params = ret = None
        for n in walk(arm["body"]):
            if n["k"] == "Call" and call_name(n) == "Type::function" and len(n["args"]) == 2:
                a0 = n["args"][0]
                if a0["k"] == "Macro" and a0["path"] == "vec":
                    params = [sh.nsrc(AB, x) for x in a0.get("args", [])]
                    ret = sh.nsrc(AB, n["args"][1])
                    break
        ar = None
        body = arm["body"]
        tail = None
        if body["k"] == "Block" and body["stmts"]:
            lastst = body["stmts"][-1]
            if lastst["k"] == "ExprStmt" and lastst["e"]["k"] == "Tuple":
                tail = lastst["e"]
        elif body["k"] == "Tuple":
            tail = body
        if tail is not None and len(tail["es"]) == 2 and tail["es"][1]["k"] == "Lit":
            ar = int(tail["es"][1]["v"])
        # local bindings (let a = Type::generic_var(..); let ret = Type::list(Type::generic_var(..)))
        binds = {}
        for n in walk(arm["body"]):
            if n["k"] == "Local" and n["pat"]["k"] == "Ident" and "init" in n:
                binds[n["pat"]["name"]] = sh.nsrc(AB, n["init"])
        ngen = len([1 for n in walk(arm["body"]) if n["k"] == "Call" and call_name(n) == "Type::generic_var"])
        return {"params": params, "ret": ret, "arity": ar, "generics": ngen, "binds": binds}


def rule_one_arm(t, rep, rid):
    """the three per-builtin tables are read as variant -> arm maps: no builtin may have a second (guarded) arm"""
    one_arm_per_variant(rep, rid, "DefaultFunction::call", t.sh, RT, t.call_match)
    one_arm_per_variant(rep, rid, "BuiltinCosts::to_ex_budget", t.sh, CM, t.cost_match)
    one_arm_per_variant(rep, rid, "from_default_function", t.sh, AB, t.aiken_match)
