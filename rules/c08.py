"""C08 — script bytes, hashes and addresses survive every tool round trip.

Decided statically: the flat encoder's and decoder's tag tables are bijective
and agree (Term x3, Constant/Type x6, DefaultFunction, binders), field order
of encode = decode, tag widths, decode payload types = enum payload types,
Plutus version markers are consistent arm by arm, the hash is derived from the
code at serialisation time and never stored.
Not decided: canonicality of foreign CBOR, chunking inside pallas_codec::flat.
"""
import re
from .lib import *

EXPLANATION = (
    "Family S over the flat codec: Encode for Term / Decode for Term / Term::decode_debug (10 constructors -> tags), "
    "Encode for Constant / encode_type / Decode for Constant / decode_type / decode_constant_value / From<&Constant> for Type "
    "(11 kinds), DefaultFunction discriminants vs TryFrom<u8> (91 rows), 4 binder codecs; plus per-arm Plutus-version consistency in "
    "SerializableProgram / Program::address and the derived-hash rule for the blueprint. Every row is read from the current tree; a "
    "row whose tag, field order, payload type or version disagrees with its sibling is a violation naming the row."
)
LEVEL_NOTE = "table agreement only; byte-level behaviour of pallas_codec::flat and minicbor is trusted"

F = "crates/uplc/src/flat.rs"
A = "crates/uplc/src/ast.rs"
B = "crates/uplc/src/builtins.rs"


def int_lit(n):
    if n and n["k"] == "Lit" and n["lk"] == "int":
        return int(n["v"])
    return None


def int_list(n):
    """array/vec!/&[..] of int literals"""
    if n is None:
        return None
    if n["k"] == "Ref":
        return int_list(n["e"])
    if n["k"] == "Array":
        vs = [int_lit(x) for x in n["es"]]
        return vs if all(v is not None for v in vs) else None
    if n["k"] == "Macro" and n["path"] == "vec" and "args" in n:
        vs = [int_lit(x) for x in n["args"]]
        return vs if all(v is not None for v in vs) else None
    return None


def const_val(fj, name):
    for _, it in items(fj):
        if it["k"] == "Const" and it["name"] == name:
            return int_lit(it["e"])
    raise AnchorMissing("const %s" % name)


def pat_bindings(p, prefix=""):
    """binding name -> field id (named field or positional index)"""
    out = {}
    k = p["k"]
    if k == "PStruct":
        for f in p["fields"]:
            sub = f["pat"]
            if sub["k"] == "Ident":
                out[sub["name"]] = f["name"]
    elif k == "PTupleStruct":
        for i, e in enumerate(p["elems"]):
            if e["k"] == "Ident":
                out[e["name"]] = str(i)
    elif k == "PRef":
        return pat_bindings(p["pat"])
    return out


def first_ident(n):
    """the root identifier of a receiver / argument expression"""
    while True:
        k = n["k"]
        if k == "Path":
            return n["p"] if "::" not in n["p"] else None
        if k in ("MethodCall",):
            n = n["recv"]
        elif k in ("Field", "Try", "Unary", "Ref", "Cast", "Index"):
            n = n["e"]
        else:
            return None


def is_decode_call(n):
    nm = call_name(n)
    if not nm:
        return False
    l = last(nm)
    return n["k"] in ("Call", "MethodCall") and (l in ("decode", "binder_decode", "decode_debug", "decode_list_with", "decode_list_with_debug", "decode_fragment", "bits8") or l.startswith("decode_"))


def encode_order(arm, binds, enc_names=("encode", "binder_encode", "encode_list_with", "encode_constant_value")):
    """ordered field ids written by an encode arm"""
    order = []
    for n in walk(arm["body"]):
        if n["k"] == "MethodCall" and n["m"] in ("encode", "binder_encode"):
            r = first_ident(n["recv"])
            if r in binds:
                order.append(binds[r])
        elif n["k"] == "MethodCall" and n["m"] == "encode_list_with" and n["args"]:
            r = first_ident(n["args"][0])
            if r in binds:
                order.append(binds[r])
        elif n["k"] == "Call" and call_name(n) and last(call_name(n)) in ("encode_constant_value",) and n["args"]:
            r = first_ident(n["args"][0])
            if r in binds:
                order.append(binds[r])
    return order


def decode_order(body):
    """ordered field ids read by a decode arm: the struct field / tuple position / local that each decode call initialises"""
    order = []
    locals_ = {}  # local name -> index in order (to be renamed when it flows into a field)

    def has_decode(e):
        return any(is_decode_call(x) for x in walk(e))

    def rec(n):
        k = n.get("k")
        if k == "Local":
            if "init" in n and has_decode(n["init"]) and n["pat"]["k"] == "Ident":
                # nested closures decode elements, count once
                order.append(("local", n["pat"]["name"]))
                return
        if k == "Struct":
            for f in n["fields"]:
                if has_decode(f["e"]):
                    order.append(("field", f["name"]))
                else:
                    # shorthand / moved local: rename
                    for i, (kind, nm) in enumerate(order):
                        if kind == "local" and any(x["k"] == "Path" and x["p"] == nm for x in walk(f["e"])):
                            order[i] = ("field", f["name"])
            return
        if k == "Call" and n["f"]["k"] == "Path" and re.search(r"(^|::)[A-Z]\w*$", n["f"]["p"]) and last(n["f"]["p"]) not in ("Ok", "Err", "Some"):
            # tuple-variant constructor
            for i, a in enumerate(n["args"]):
                if has_decode(a):
                    order.append(("field", str(i)))
                else:
                    for j, (kind, nm) in enumerate(order):
                        if kind == "local" and any(x["k"] == "Path" and x["p"] == nm for x in walk(a)):
                            order[j] = ("field", str(i))
            return
        for v in n.values():
            if isinstance(v, dict):
                rec(v)
            elif isinstance(v, list):
                for x in v:
                    if isinstance(x, dict):
                        rec(x)

    rec(body)
    return [nm for kind, nm in order]


def constructed(body, enum):
    """variants of `enum` constructed in a body (paths Enum::Variant with a capitalised last segment)"""
    out = []
    for n in walk(body):
        p = None
        if n["k"] in ("Path", "Struct"):
            p = n["p"]
        if p and "::" in p and p.split("::")[-2] == enum and last(p)[:1].isupper():
            out.append(last(p))
    return out


def run(ctx, rep):
    sh = ctx.shape
    rep.rule("R08-TERM", "term tag tables of Encode / Decode / decode_debug are total, injective, agree; field order enc = dec; tags fit TERM_TAG_WIDTH", floor=30)
    rep.rule("R08-CONST", "constant/type tag tables (6 functions) agree; constant tag = tag of its type; payload type decoded = payload type declared; tags fit CONST_TAG_WIDTH", floor=55)
    rep.rule("R08-BUILTIN", "DefaultFunction discriminants unique and < 2^BUILTIN_TAG_WIDTH; TryFrom<u8> has one arm per variant returning the variant it tests; enc/dec use the same width", floor=91)
    rep.rule("R08-BINDER", "binder encode/decode pairs touch the same fields in the same order", floor=8)
    rep.rule("R08-VERSION", "every arm/branch mentioning Plutus version n uses version n throughout", floor=9)
    rep.rule("R08-PAYLOAD", "per constant kind both encoders and both decoders delegate the payload to the same library codec (pallas Flat impl of the payload type; Data via its CBOR fragment); local wrappers are expanded", floor=25)
    rep.rule("R08-LOADHASH", "Deserialize for SerializableProgram accepts an entry on the hash of the decoded program's own re-encoding (to_cbor), for each Plutus version", floor=3)
    rep.rule("R08-CTORSITE", "a SerializableProgram version variant is chosen only from a version in hand: in a match arm on that very version (PlutusVersion / Language / the same variant), or under the comparison of the stored hash with the hash for that version", floor=9)
    rep.guarded("R08-CTORSITE", lambda: r_ctorsite(sh, rep))
    rep.rule("R08-ADDR", "Project::address and Project::policy hash a loaded validator under its own Plutus version (compiled_code_and_hash of the variant, never `.inner()` plus a version from elsewhere); the delegation part keeps the kind of the stake credential (key -> Key, script -> Script)", floor=4)
    rep.guarded("R08-ADDR", lambda: r_addr(sh, rep))
    rep.guarded("R08-PAYLOAD", lambda: r_payload(sh, rep))
    rep.guarded("R08-LOADHASH", lambda: r_loadhash(sh, rep))
    # load -> apply -> save must leave bystander validators byte-identical: the write-back selects by key equality (rule owned by C18)
    from . import c18
    rep.rule("R18-OVERWRITE", "Blueprint::apply_parameter overwrites exactly the validators whose key equals the applied one's (shared with C18)", floor=3)
    rep.guarded("R18-OVERWRITE", lambda: c18.r_overwrite(sh, rep))
    rep.rule("R08-DERIVED", "the published hash is computed from the code in the same call; no stored hash; to_hex/to_cbor/flat chain mirrored by from_*", floor=6)
    rep.guarded("R08-TERM", lambda: r_term(sh, rep))
    rep.guarded("R08-CONST", lambda: r_const(sh, rep))
    rep.guarded("R08-BUILTIN", lambda: r_builtin(sh, rep))
    rep.guarded("R08-BINDER", lambda: r_binder(sh, rep))
    rep.guarded("R08-VERSION", lambda: r_version(sh, rep))
    rep.guarded("R08-DERIVED", lambda: r_derived(sh, rep))


def term_variants(sh):
    return [v["name"] for v in find_enum(sh.file(A), "Term")["variants"]]


def r_term(sh, rep):
    fj = sh.file(F)
    variants = term_variants(sh)
    width = const_val(fj, "TERM_TAG_WIDTH")
    enc = find_method(fj, "Term", "encode", trait="Encode")
    dec = find_method(fj, "Term", "decode", trait="Decode")
    dbg = find_method(fj, "Term", "decode_debug")
    rep.touched(F, "Encode for Term::encode")
    rep.touched(F, "Decode for Term::decode")
    rep.touched(F, "Term::decode_debug")
    em = next(matches_in(enc["body"]))
    etab, eorder = {}, {}
    for v, arm, alt in arm_table(em):
        if v is None:
            rep.bad("R08-TERM", "encode#catch-all", sh.loc(F, arm), "Encode for Term has a catch-all arm: some constructor is encoded without its own tag")
            continue
        tags = [int_lit(c["args"][0]) for c in calls_in(arm["body"]) if call_name(c) == "encode_term_tag"]
        if len(tags) != 1 or tags[0] is None:
            rep.bad("R08-TERM", "encode#%s#tag" % v, sh.loc(F, arm), "expected exactly one encode_term_tag(<literal>) in the arm, found %r" % tags)
            continue
        etab[v] = (tags[0], arm)
        eorder[v] = encode_order(arm, pat_bindings(alt))
    # injective + total + width
    seen = {}
    for v in variants:
        if v not in etab:
            rep.bad("R08-TERM", "encode#%s#missing" % v, F, "Term::%s has no encode arm" % v)
            continue
        t, arm = etab[v]
        ok = True
        if t in seen:
            rep.bad("R08-TERM", "encode#%s#tag-clash" % v, sh.loc(F, arm), "tag %d is also used by %s" % (t, seen[t]))
            ok = False
        seen.setdefault(t, v)
        if not (0 <= t < 2 ** width):
            rep.bad("R08-TERM", "encode#%s#tag-width" % v, sh.loc(F, arm), "tag %d does not fit TERM_TAG_WIDTH=%d bits" % (t, width))
            ok = False
        if ok:
            rep.ok("R08-TERM", "encode#%s" % v, sh.loc(F, arm), sample={"variant": v, "tag": t, "field_order": eorder[v]})
    for name, fn in (("decode", dec), ("decode_debug", dbg)):
        m = next(matches_in(fn["body"]))
        dtab = {}
        for arm in m["arms"]:
            for alt in pat_alts(arm["pat"]):
                if alt["k"] == "PLit":
                    t = int(alt["e"]["v"])
                    cs = [c for c in constructed(arm["body"], "Term")]
                    dtab[t] = (sorted(set(cs)), arm)
        for v in variants:
            if v not in etab:
                continue
            t = etab[v][0]
            key = "%s#%s" % (name, v)
            if t not in dtab:
                rep.bad("R08-TERM", key + "#no-decode-arm", F, "encoder writes tag %d for Term::%s but %s has no arm for it" % (t, v, name))
                continue
            cs, arm = dtab[t]
            where = sh.loc(F, arm)
            if cs != [v]:
                rep.bad("R08-TERM", key + "#decodes-to-other", where, "tag %d is written for Term::%s but %s builds %s from it" % (t, v, name, cs or "nothing"))
                continue
            if name == "decode":
                do = decode_order(arm["body"])
                if do != eorder[v]:
                    rep.bad("R08-TERM", key + "#field-order", where, "encoder writes fields %r, decoder reads %r" % (eorder[v], do))
                    continue
                rep.ok("R08-TERM", key, where, sample={"variant": v, "tag": t, "enc_order": eorder[v], "dec_order": do})
            else:
                # decode_debug: same sequence of sub-decoder kinds as decode
                kinds_dbg = [last(call_name(c)).replace("_debug", "") for c in calls_in(arm["body"], closures=False) if is_decode_call(c)]
                kinds_dec = [last(call_name(c)) for c in calls_in(dtab_ref[t][1]["body"], closures=False) if is_decode_call(c)] if t in dtab_ref else None
                if kinds_dec is not None and kinds_dbg != kinds_dec:
                    rep.bad("R08-TERM", key + "#sub-decoders", where, "decode reads %r, decode_debug reads %r" % (kinds_dec, kinds_dbg))
                else:
                    rep.ok("R08-TERM", key, where, sample={"variant": v, "tag": t, "sub_decoders": kinds_dbg})
        for t, (cs, arm) in sorted(dtab.items()):
            if t not in seen:
                rep.bad("R08-TERM", "%s#tag%d#not-encoded" % (name, t), sh.loc(F, arm), "%s accepts tag %d which no constructor encodes to" % (name, t))
        if name == "decode":
            dtab_ref = dtab
    # the two width helpers use the same constant
    for a, b, const in (("encode_term_tag", "decode_term_tag", "TERM_TAG_WIDTH"),):
        fa, fb = find_fn(fj, a), find_fn(fj, b)
        ca = const in set(paths_in(fa["body"]))
        cb = const in set(paths_in(fb["body"]))
        rep.check(ca and cb, "R08-TERM", "width#%s" % const, sh.loc(F, fa), "%s and %s must both use %s" % (a, b, const))


dtab_ref = {}


def r_const(sh, rep):
    fj = sh.file(F)
    fa = sh.file(A)
    cen = find_enum(fa, "Constant")
    ten = find_enum(fa, "Type")
    cvars = [v["name"] for v in cen["variants"]]
    tvars = [v["name"] for v in ten["variants"]]
    width = const_val(fj, "CONST_TAG_WIDTH")
    rep.touched(F, "Encode for Constant::encode")
    # bridge Constant -> Type
    bridge = {}
    cands = []
    for rel in sh.files():
        if rel.startswith("crates/uplc/src/"):
            for im in find_impls(sh.file(rel), "Type", any_trait=True):
                cands.append((rel, im))
    for rel, im in cands:
        if im["trait"] and im["trait"].startswith("From<&Constant>"):
            f = [x for x in im["items"] if x["k"] == "Fn" and x["name"] == "from"][0]
            m = next(matches_in(f["body"]))
            for v, arm, alt in arm_table(m):
                ts = constructed(arm["body"], "Type")
                bridge[v] = ts[0] if ts else None
            rep.touched(rel, "From<&Constant> for Type::from")
    if not bridge:
        raise AnchorMissing("impl From<&Constant> for Type")
    # 1. Encode for Constant
    enc = find_method(fj, "Constant", "encode", trait="Encode")
    em = next(matches_in(enc["body"]))
    ctag, unsupported = {}, set()
    for v, arm, alt in arm_table(em):
        tag = None
        for c in calls_in(arm["body"]):
            if call_name(c) == "encode_constant":
                tag = int_list(c["args"][0])
        if tag is None:
            for n in walk(arm["body"]):
                if n["k"] == "Local" and "init" in n:
                    il = int_list(n["init"])
                    if il:
                        tag = il
                        break
        ctag[v] = (tag, arm)
        if any(n["k"] == "Return" and n["e"] and n["e"]["k"] == "Call" and call_name(n["e"]) == "Err" for n in walk(arm["body"])):
            unsupported.add(v)
    # 2. encode_type
    et = find_fn(fj, "encode_type")
    rep.touched(F, "encode_type")
    ttag = {}
    for v, arm, alt in arm_table(next(matches_in(et["body"]))):
        tag = None
        for c in calls_in(arm["body"]):
            if c["k"] == "MethodCall" and c["m"] == "push":
                tag = [int_lit(c["args"][0])]
                break
            if c["k"] == "MethodCall" and c["m"] == "extend":
                tag = int_list(c["args"][0])
                break
        ttag[v] = (tag, arm)
    # 3. decode_type: nested Some(N) patterns
    dt = find_fn(fj, "decode_type")
    rep.touched(F, "decode_type")
    dtype = {}

    def walk_dt(m, prefix):
        for arm in m["arms"]:
            p = arm["pat"]
            if p["k"] == "PTupleStruct" and last(p["p"]) == "Some" and p["elems"][0]["k"] == "PLit":
                n = int(p["elems"][0]["e"]["v"])
                if arm["body"]["k"] == "Match":
                    walk_dt(arm["body"], prefix + [n])
                else:
                    ts = constructed(arm["body"], "Type")
                    if ts:
                        dtype[ts[0]] = (prefix + [n], arm)

    walk_dt(next(matches_in(dt["body"])), [])
    # 4. Decode for Constant: slice patterns
    dc = find_method(fj, "Constant", "decode", trait="Decode")
    rep.touched(F, "Decode for Constant::decode")
    dcon = {}
    dcon_err = {}
    for arm in next(matches_in(dc["body"]))["arms"]:
        p = arm["pat"]
        if p["k"] == "PSlice":
            tag = []
            for e in p["elems"]:
                if e["k"] == "PLit":
                    tag.append(int(e["e"]["v"]))
            cs = constructed(arm["body"], "Constant")
            if cs:
                dcon[cs[0]] = (tag, arm)
            else:
                dcon_err[tuple(tag)] = arm
    # 5. decode_constant_value
    dv = find_fn(fj, "decode_constant_value")
    rep.touched(F, "decode_constant_value")
    dval = {}
    for v, arm, alt in arm_table(next(matches_in(dv["body"]))):
        cs = constructed(arm["body"], "Constant")
        dval[v] = (cs[0] if cs else None, arm)
    ev = find_fn(fj, "encode_constant_value")
    rep.touched(F, "encode_constant_value")
    evt = {v: arm for v, arm, alt in arm_table(next(matches_in(ev["body"])))}

    # ---- judgements
    seen = {}
    for t in tvars:
        key = "type#" + t
        if t not in ttag or ttag[t][0] is None:
            rep.bad("R08-CONST", key + "#no-encode_type-arm", F, "Type::%s has no tag in encode_type" % t)
            continue
        tag, arm = ttag[t]
        where = sh.loc(F, arm)
        tk = tuple(tag)
        if tk in seen:
            rep.bad("R08-CONST", key + "#tag-clash", where, "type tag %r is also used by %s" % (tag, seen[tk]))
            continue
        seen[tk] = t
        if any(not (0 <= x < 2 ** width) for x in tag):
            rep.bad("R08-CONST", key + "#tag-width", where, "tag %r does not fit CONST_TAG_WIDTH=%d" % (tag, width))
            continue
        if t not in dtype:
            rep.bad("R08-CONST", key + "#no-decode_type-arm", where, "encode_type writes %r for Type::%s but decode_type never builds that type" % (tag, t))
        elif dtype[t][0] != tag:
            rep.bad("R08-CONST", key + "#decode_type-mismatch", sh.loc(F, dtype[t][1]), "encode_type writes %r for Type::%s, decode_type reads it from %r" % (tag, t, dtype[t][0]))
        else:
            rep.ok("R08-CONST", key, where, sample={"type": t, "encode_type": tag, "decode_type": dtype[t][0]})
    for c in cvars:
        key = "const#" + c
        if c not in ctag or ctag[c][0] is None:
            rep.bad("R08-CONST", key + "#no-encode-arm", F, "Constant::%s has no recognisable tag in Encode for Constant" % c)
            continue
        tag, arm = ctag[c]
        where = sh.loc(F, arm)
        bt = bridge.get(c)
        if bt is None or bt not in ttag:
            rep.bad("R08-CONST", key + "#no-bridge", where, "From<&Constant> for Type has no arm for %s" % c)
            continue
        # a constant's tag is the tag of its type
        if ttag[bt][0] != tag:
            rep.bad("R08-CONST", key + "#tag-differs-from-type", where, "Constant::%s is tagged %r but its type %s is tagged %r" % (c, tag, bt, ttag[bt][0]))
        else:
            rep.ok("R08-CONST", key + "#tag=type-tag", where, sample={"constant": c, "tag": tag, "type": bt})
        # decode side
        if c in unsupported:
            tk = tuple(tag)
            if c in dcon:
                rep.bad("R08-CONST", key + "#decode-accepts-unsupported", sh.loc(F, dcon[c][1]), "the encoder refuses Constant::%s but the decoder builds it" % c)
            else:
                rep.ok("R08-CONST", key + "#unsupported-both-sides", where, why="encoder returns Err, decoder returns Err", nontrivial=True)
        else:
            if c not in dcon:
                rep.bad("R08-CONST", key + "#no-decode-arm", where, "Constant::%s is encoded with tag %r but Decode for Constant never builds it" % (c, tag))
            elif dcon[c][0] != tag:
                rep.bad("R08-CONST", key + "#decode-tag-mismatch", sh.loc(F, dcon[c][1]), "encoded with %r, decoded from %r" % (tag, dcon[c][0]))
            else:
                rep.ok("R08-CONST", key + "#decode", sh.loc(F, dcon[c][1]), sample={"constant": c, "enc": tag, "dec": dcon[c][0]})
        # value decoder builds the constant kind whose type it was asked for
        if bt in dval:
            built, darm = dval[bt]
            if c in unsupported:
                rep.check(built is None, "R08-CONST", key + "#value-unsupported", sh.loc(F, darm), "decode_constant_value builds a %s although the encoder refuses it" % c)
            else:
                rep.check(built == c, "R08-CONST", key + "#value-kind", sh.loc(F, darm), "decode_constant_value(Type::%s) builds Constant::%s, expected %s" % (bt, built, c))
        else:
            rep.bad("R08-CONST", key + "#value-no-arm", F, "decode_constant_value has no arm for Type::%s" % bt)
        # payload type decoded = payload type declared in the enum
        decl = [v for v in cen["variants"] if v["name"] == c][0]
        if c not in unsupported and len(decl["fields"]) == 1 and c in dcon:
            ty = decl["fields"][0]["ty"]
            want = re.sub(r"[<>:\s]", "", ty)
            for nm, arm2 in (("Decode for Constant", dcon[c][1]), ("decode_constant_value", dval.get(bt, (None, None))[1])):
                if arm2 is None:
                    continue
                tys = []
                for cc in calls_in(arm2["body"]):
                    if cc["k"] == "Call" and cc["f"]["k"] == "Path" and last(cc["f"]["p"]) == "decode":
                        full = cc["f"].get("full", cc["f"]["p"])
                        tys.append(re.sub(r"[<>:\s]", "", full.rsplit("::", 1)[0]))
                if c == "Data":
                    okp = "Vecu8" in tys and any(last(call_name(x) or "") == "decode_fragment" for x in calls_in(arm2["body"]))
                    rep.check(okp, "R08-CONST", key + "#payload#" + nm, sh.loc(F, arm2), "Data payload must be read as bytes then decode_fragment (mirror of encode_fragment + bytes)")
                else:
                    if not tys:
                        rep.info("%s: %s arm for %s has no direct <T>::decode call (helper?) — payload type not decided" % (sh.loc(F, arm2), nm, c))
                        continue
                    rep.check(want in tys, "R08-CONST", key + "#payload#" + nm, sh.loc(F, arm2), "Constant::%s carries a %s but %s reads %r" % (c, ty, nm, tys), sample={"declared": ty, "decoded_as": tys})
        # encode_constant_value has an explicit arm
        rep.check(c in evt, "R08-CONST", key + "#encode_value-arm", F, "encode_constant_value has no explicit arm for %s" % c, nontrivial=False)
    for a, b, const in (("encode_constant_tag", "decode_constant_tag", "CONST_TAG_WIDTH"),):
        f1, f2 = find_fn(fj, a), find_fn(fj, b)
        rep.check(const in set(paths_in(f1["body"])) and const in set(paths_in(f2["body"])), "R08-CONST", "width#" + const, sh.loc(F, f1), "%s and %s must both use %s" % (a, b, const))


def r_builtin(sh, rep):
    fb = sh.file(B)
    fj = sh.file(F)
    enum = find_enum(fb, "DefaultFunction")
    width = const_val(fj, "BUILTIN_TAG_WIDTH")
    rep.touched(B, "TryFrom<u8> for DefaultFunction::try_from")
    tf = find_method(fb, "DefaultFunction", "try_from", trait="TryFrom<u8>")
    m = next(matches_in(tf["body"]))
    rows = {}
    for arm in m["arms"]:
        g = arm.get("guard")
        if not g:
            continue
        tested = [last(p) for p in paths_in(g) if "::" in p]
        built = constructed(arm["body"], "DefaultFunction")
        if tested:
            rows.setdefault(tested[0], []).append((built[0] if built else None, arm))
    discs = {}
    for v in enum["variants"]:
        d = int_lit(v["disc"])
        name = v["name"]
        where = "%s:%d" % (B, v["l"])
        if d is None:
            rep.bad("R08-BUILTIN", name + "#no-discriminant", where, "variant has no explicit integer discriminant: its flat tag would silently shift when variants are reordered")
            continue
        if d in discs:
            rep.bad("R08-BUILTIN", name + "#discriminant-clash", where, "discriminant %d also used by %s" % (d, discs[d]))
            continue
        discs[d] = name
        if not d < 2 ** width:
            rep.bad("R08-BUILTIN", name + "#tag-width", where, "discriminant %d does not fit BUILTIN_TAG_WIDTH=%d" % (d, width))
            continue
        r = rows.get(name)
        if not r:
            rep.bad("R08-BUILTIN", name + "#no-tryfrom-arm", where, "TryFrom<u8> has no arm testing DefaultFunction::%s: a program using it cannot be decoded" % name)
        elif len(r) > 1:
            rep.bad("R08-BUILTIN", name + "#duplicate-tryfrom-arm", sh.loc(B, r[1][1]), "two arms test %s" % name)
        elif r[0][0] != name:
            rep.bad("R08-BUILTIN", name + "#tryfrom-returns-other", sh.loc(B, r[0][1]), "the arm testing tag of %s returns %s" % (name, r[0][0]))
        else:
            rep.ok("R08-BUILTIN", name, sh.loc(B, r[0][1]), sample={"variant": name, "tag": d})
    e = find_method(fj, "DefaultFunction", "encode", trait="Encode")
    d = find_method(fj, "DefaultFunction", "decode", trait="Decode")
    rep.check("BUILTIN_TAG_WIDTH" in set(paths_in(e["body"])) and "BUILTIN_TAG_WIDTH" in set(paths_in(d["body"])), "R08-BUILTIN", "width#BUILTIN_TAG_WIDTH", sh.loc(F, e), "Encode and Decode for DefaultFunction must both use BUILTIN_TAG_WIDTH")
    # the encoder writes the discriminant itself (`*self as u8`)
    rep.check(any(n["k"] == "Cast" and n["ty"] == "u8" for n in walk(e["body"])), "R08-BUILTIN", "encode#discriminant", sh.loc(F, e), "Encode for DefaultFunction no longer writes `*self as u8`")


def r_binder(sh, rep):
    fj = sh.file(F)
    fa = sh.file(A)
    for ty in ("Name", "NamedDeBruijn", "DeBruijn", "FakeNamedDeBruijn"):
        for en, de, tr_e, tr_d in (("encode", "decode", "Encode", "Decode"), ("binder_encode", "binder_decode", "Binder", "Binder")):
            fe = find_method(fj, ty, en, trait=tr_e)
            fd = find_method(fj, ty, de, trait=tr_d)
            rep.touched(F, "%s::%s" % (ty, en))
            key = "%s#%s/%s" % (ty, en, de)
            eo = []
            for n in walk(fe["body"]):
                if n["k"] == "MethodCall" and n["m"] == "encode":
                    r = n["recv"]
                    if r["k"] == "Field":
                        eo.append(r["f"])
                    elif r["k"] == "Path":
                        eo.append("<" + r["p"] + ">")
                    else:
                        eo.append("<expr>")
            do_named = decode_order(fd["body"])
            ndec = len([c for c in calls_in(fd["body"]) if is_decode_call(c)])
            where = sh.loc(F, fe)
            if len(eo) != ndec:
                rep.bad("R08-BINDER", key + "#count", where, "%s writes %d item(s) but %s reads %d" % (en, len(eo), de, ndec))
                continue
            named_e = [x for x in eo if not x.startswith("<")]
            if named_e and do_named and named_e != do_named:
                rep.bad("R08-BINDER", key + "#field-order", where, "encoder writes fields %r, decoder reads %r" % (named_e, do_named))
                continue
            rep.ok("R08-BINDER", key, where, sample={"type": ty, "writes": eo, "reads": do_named or ndec})


VER_SEG = re.compile(r"^(PlutusV|TxInfoV|V|plutus_v|PlutusScriptV)([123])(Program)?$")
DIAG_CALLS = {"ok_or", "ok_or_else", "Err", "map_err", "expect", "format", "panic"}


def version_markers(node, skip_diag=True):
    """(digit, text, node, diagnostic?) for each Plutus-version marker under node"""
    out = []

    def rec(n, diag):
        if isinstance(n, list):
            for x in n:
                rec(x, diag)
            return
        if not isinstance(n, dict):
            return
        k = n.get("k")
        d2 = diag
        if k in ("Call", "MethodCall", "Macro"):
            nm = call_name(n)
            if nm and last(nm).rstrip("!") in DIAG_CALLS:
                d2 = True
        if k in ("Path", "Struct", "PPath", "PTupleStruct", "PStruct"):
            p = n["p"]
            for seg in p.split("::"):
                mm = VER_SEG.match(seg)
                if mm:
                    out.append((mm.group(2), p, n, diag))
            full = n.get("full")
            if full:
                mm = re.search(r"PlutusScript::<([123])>", full)
                if mm:
                    out.append((mm.group(1), full, n, diag))
        if k == "Field":
            mm = VER_SEG.match(n["f"])
            if mm:
                out.append((mm.group(2), "." + n["f"], n, diag))
        if k == "Ident" and VER_SEG.match(n.get("name", "")):
            out.append((VER_SEG.match(n["name"]).group(2), n["name"], n, diag))
        for kk, v in n.items():
            if isinstance(v, (dict, list)):
                rec(v, d2)

    rec(node, False)
    return out


def version_units(fn_body):
    """(head-version, unit-node, body-node) for arms whose pattern names a version and ifs whose condition does"""
    for n in walk(fn_body):
        if n["k"] == "Arm":
            hv = {d for d, _, _, _ in version_markers(n["pat"])}
            if len(hv) == 1:
                yield hv.pop(), n, n["body"]
        elif n["k"] == "If":
            hv = {d for d, _, _, _ in version_markers(n["cond"])}
            if len(hv) == 1:
                yield hv.pop(), n, n["then"]


def check_versions(sh, rep, rule, rel, qual, fn):
    cnt = 0
    for hv, unit, body in version_units(fn["body"]):
        # markers in nested units with their own head are judged there
        nested = set()
        for hv2, u2, b2 in version_units(body):
            for _, _, mn, _ in version_markers(u2):
                nested.add(id(mn))
        ms = [(d, t, mn, diag) for d, t, mn, diag in version_markers(body) if id(mn) not in nested]
        if not ms:
            continue
        cnt += 1
        key = "%s#V%s#%s" % (qual, hv, unit["k"].lower())
        wrong = [(d, t, mn) for d, t, mn, diag in ms if d != hv and not diag]
        diag_wrong = [(d, t, mn) for d, t, mn, diag in ms if d != hv and diag]
        for d, t, mn in diag_wrong:
            rep.info("%s: arm for Plutus V%s names V%s inside a diagnostic value (%s) — outside the property's statement" % (sh.loc(rel, mn), hv, d, t))
        if wrong:
            d, t, mn = wrong[0]
            rep.bad(rule, key + "#mixes-versions", sh.loc(rel, mn), "the branch for Plutus V%s uses %s (V%s): code, hash, cost model or context of one version would be paired with another" % (hv, t, d))
        else:
            rep.ok(rule, key, sh.loc(rel, unit), sample={"version": hv, "markers": sorted({t for _, t, _, _ in ms})})
    # an arm (or condition) shared by several versions cannot name any one version in its body: whatever it names is wrong
    # for the other head version(s)
    for n in walk(fn["body"]):
        if n["k"] not in ("Arm", "If"):
            continue
        hv = sorted({d for d, _, _, _ in version_markers(n["pat"] if n["k"] == "Arm" else n["cond"])})
        if len(hv) < 2:
            continue
        body = n["body"] if n["k"] == "Arm" else n["then"]
        nested = set()
        for hv2, u2, b2 in version_units(body):
            for _, _, mn, _ in version_markers(u2):
                nested.add(id(mn))
        ms = [(d, t, mn) for d, t, mn, diag in version_markers(body) if id(mn) not in nested and not diag]
        if ms:
            cnt += 1
            d, t, mn = ms[0]
            rep.bad(rule, "%s#V%s#shared-%s#names-one-version" % (qual, "+V".join(hv), n["k"].lower()), sh.loc(rel, mn), "a branch taken for Plutus V%s builds %s (V%s): for the other version(s) of the branch the code is re-labelled — its hash prefix, address and cost model change with it" % (" and V".join(hv), t, d))
    return cnt


def r_version(sh, rep):
    fa = sh.file(A)
    n = 0
    for q, f in all_fns(fa):
        if any(True for _ in version_units(f["body"])) if "body" in f else False:
            rep.touched(A, q)
            n += check_versions(sh, rep, "R08-VERSION", A, q, f)
    # other files of the workspace that pair version markers on the blueprint / address path
    for rel in ("crates/aiken-project/src/blueprint/validator.rs", "crates/aiken-project/src/blueprint/mod.rs", "crates/aiken-project/src/lib.rs", "crates/aiken-project/src/export.rs", "crates/aiken/src/cmd/blueprint/convert.rs"):
        try:
            fj = sh.file(rel)
        except AnchorMissing:
            continue
        for q, f in all_fns(fj):
            if "body" in f:
                c = check_versions(sh, rep, "R08-VERSION", rel, q, f)
                if c:
                    rep.touched(rel, q)


def r_derived(sh, rep):
    fa = sh.file(A)
    ff = sh.file(F)
    ser = find_method(fa, "SerializableProgram", "serialize", trait="Serialize")
    rep.touched(A, "Serialize for SerializableProgram::serialize")
    # hash and code both come from one compiled_code_and_hash call
    calls = [c for c in calls_in(ser["body"]) if call_name(c) == "compiled_code_and_hash"]
    fields = [c["args"][0]["v"] for c in calls_in(ser["body"]) if c["k"] == "MethodCall" and c["m"] == "serialize_field" and c["args"] and c["args"][0]["k"] == "Lit"]
    rep.check(len(calls) == 1 and set(fields) == {"compiledCode", "hash"}, "R08-DERIVED", "serialize#single-source", sh.loc(A, ser), "hash and compiledCode must be produced by one compiled_code_and_hash() call (found %d call(s), fields %r)" % (len(calls), fields), sample={"fields": fields})
    cch = find_method(fa, "SerializableProgram", "compiled_code_and_hash")
    m = next(matches_in(cch["body"]))
    for v, arm, alt in arm_table(m):
        # hash = script.compute_hash() where script wraps this arm's cbor
        names = {}
        okflow = False
        for st in walk(arm["body"]):
            if st["k"] == "Local" and st["pat"]["k"] == "Ident" and "init" in st:
                names[st["pat"]["name"]] = st["init"]
        h = names.get("hash")
        if h is not None and h["k"] == "MethodCall" and h["m"] == "compute_hash":
            src = first_ident(h["recv"])
            s_init = names.get(src)
            if s_init is not None and any(x["k"] == "Path" and x["p"] == "cbor" for x in walk(s_init)):
                c_init = names.get("cbor")
                if c_init is not None and any(x["k"] == "MethodCall" and x["m"] == "to_cbor" for x in walk(c_init)):
                    okflow = True
        rep.check(okflow, "R08-DERIVED", "compiled_code_and_hash#%s" % v, sh.loc(A, arm), "hash must be compute_hash() of the script built from this program's own to_cbor()")
    # no struct on the blueprint path stores a hash next to code
    for rel in ("crates/aiken-project/src/blueprint/validator.rs", "crates/aiken-project/src/blueprint/mod.rs"):
        fj = sh.file(rel)
        for _, it in items(fj):
            if it["k"] == "StructDef" and it["name"] in ("Validator", "Blueprint"):
                bad = [f["name"] for f in it["fields"] if re.search(r"hash|address", f["name"], re.I)]
                rep.check(not bad, "R08-DERIVED", "%s#no-stored-hash" % it["name"], sh.loc(rel, it), "struct %s stores %r next to the program: a stored hash can go stale" % (it["name"], bad), sample={"fields": [f["name"] for f in it["fields"]]})
    # to_hex = hex(to_cbor), to_cbor = cbor(flat); from_hex -> from_cbor -> unflat
    chain = {"to_hex": "to_cbor", "to_cbor": "flat", "from_hex": "from_cbor", "from_cbor": "unflat", "to_flat": "flat", "from_flat": "unflat"}
    for fn, callee in chain.items():
        f = find_method(ff, "Program", fn)
        names = [last(call_name(c) or "") for c in calls_in(f["body"])]
        rep.check(callee in names, "R08-DERIVED", "chain#%s->%s" % (fn, callee), sh.loc(F, f), "%s no longer goes through %s" % (fn, callee))


# ---------------------------------------------------------------------------------------------------------
# R08-PAYLOAD: payload codecs — both encoders (and both decoders) of a constant kind delegate to the same library codec
# ---------------------------------------------------------------------------------------------------------
# spec table: the codec operations a payload of kind K goes through, besides `encode` / `decode` of its Rust type
# (pallas_codec's Flat implementation, the only place that knows the bit layout of integers, byte strings and text)
PAYLOAD_EXTRA_ENC = {"Data": {"encode_fragment"}}
PAYLOAD_EXTRA_DEC = {"Data": {"decode_fragment"}}
TAG_HELPERS = {"encode_constant", "encode_type", "decode_constant", "decode_type"}
PLUMBING = {"map_err", "to_string", "Message", "Ok", "Err", "format!", "clone", "into", "as_ref", "deref"}
PAYLOAD_KINDS = ["Integer", "ByteString", "String", "Bool", "Data"]
DEC_TAG_OF = {"Integer": 0, "ByteString": 1, "String": 2, "Bool": 4, "Data": 8}


def _ops(sh, fj, node, depth=0):
    """names of everything called in `node`; calls to free functions of flat.rs are expanded once (a wrapper is fine,
    what counts is which codec operations end up being used)"""
    out = set()
    for c in calls_in(node):
        nm = call_name(c)
        if not nm:
            continue
        l = last(nm)
        if c["k"] == "Call" and "::" not in nm and l not in TAG_HELPERS and depth < 2:
            try:
                h = find_fn(fj, nm)
            except AnchorMissing:
                h = None
            if h is not None and l not in ("encode_constant_value", "decode_constant_value"):
                out |= _ops(sh, fj, h["body"], depth + 1)
                continue
        if l[:1].isupper():
            continue  # enum-variant / tuple-struct constructor, not an operation
        out.add(l)
    return out - TAG_HELPERS - PLUMBING


def r_payload(sh, rep):
    fj = sh.file(F)
    enc = find_method(fj, "Constant", "encode", trait="Encode")
    ecv = find_fn(fj, "encode_constant_value")
    dec = find_method(fj, "Constant", "decode", trait="Decode")
    dcv = find_fn(fj, "decode_constant_value")
    rep.touched(F, "encode_constant_value")
    rep.touched(F, "decode_constant_value")

    def arms_by_variant(fn, enum):
        m = find_enum_match(fn, enum, set(PAYLOAD_KINDS) | {"Unit", "ProtoList", "ProtoPair", "List", "Pair"})
        if m is None:
            raise AnchorMissing("match over %s in %s" % (enum, fn["name"]))
        return {v: arm for v, arm, alt in arm_table(m) if v}

    e1 = arms_by_variant(enc, "Constant")
    e2 = arms_by_variant(ecv, "Constant")
    d2 = arms_by_variant(dcv, "Type")
    # Decode for Constant matches on tag slices
    dm = next(matches_in(dec["body"]))
    d1 = {}
    for a in dm["arms"]:
        p = a["pat"]
        if p["k"] == "PSlice" and len(p["elems"]) == 1 and p["elems"][0]["k"] == "PLit":
            d1[int(p["elems"][0]["e"]["v"])] = a
    for k in PAYLOAD_KINDS:
        allowed_e = {"encode"} | PAYLOAD_EXTRA_ENC.get(k, set())
        allowed_d = {"decode"} | PAYLOAD_EXTRA_DEC.get(k, set())
        rows = [("Encode for Constant", e1.get(k), allowed_e), ("encode_constant_value", e2.get(k), allowed_e), ("Decode for Constant", d1.get(DEC_TAG_OF[k]), allowed_d), ("decode_constant_value", d2.get(k), allowed_d)]
        opsets = []
        for who, arm, allowed in rows:
            key = "%s#%s" % (who, k)
            if arm is None:
                rep.bad("R08-PAYLOAD", key + "#no-arm", sh.loc(F, enc), "%s has no arm for %s" % (who, k))
                opsets.append(None)
                continue
            ops = _ops(sh, fj, arm["body"])
            opsets.append(ops)
            extra = sorted(ops - allowed)
            missing = sorted(allowed - ops)
            rep.check(not extra and not missing, "R08-PAYLOAD", key, sh.loc(F, arm), "%s handles a %s payload through %s; the codec of this kind is %s (pallas_codec's Flat implementation of the payload type%s) — %s%s: encoder and decoder no longer share one definition of the bit layout" % (who, k, sorted(ops), sorted(allowed), " via the CBOR fragment" if k == "Data" else "", ("unexpected operation(s) %s" % extra) if extra else "", (" missing %s" % missing) if missing else ""), sample={"ops": sorted(ops)})
        if opsets[0] is not None and opsets[1] is not None:
            rep.check(opsets[0] == opsets[1], "R08-PAYLOAD", "siblings#enc#%s" % k, sh.loc(F, e2[k]), "a %s constant is encoded through %s at top level but through %s inside a list/pair: the same value gets two byte forms" % (k, sorted(opsets[0]), sorted(opsets[1])))
        if opsets[2] is not None and opsets[3] is not None:
            rep.check(opsets[2] == opsets[3], "R08-PAYLOAD", "siblings#dec#%s" % k, sh.loc(F, d2[k]), "a %s constant is decoded through %s at top level but through %s inside a list/pair" % (k, sorted(opsets[2]), sorted(opsets[3])))


# ---------------------------------------------------------------------------------------------------------
# R08-LOADHASH: a blueprint entry is accepted on the hash of the program's own re-encoding
# ---------------------------------------------------------------------------------------------------------
def r_loadhash(sh, rep):
    fa = sh.file(A)
    de = find_method(fa, "SerializableProgram", "deserialize", trait="Deserialize")
    rep.touched(A, "Deserialize for SerializableProgram")
    # nested visitor impl: look at every PlutusScript::<n>(arg) call inside the deserialize item
    closures = {}
    for n in walk(de["body"]):
        if n["k"] == "Local" and n["pat"]["k"] == "Ident" and n.get("init") is not None and n["init"]["k"] == "Closure":
            closures[n["pat"]["name"]] = n["init"]
    sites = [c for c in calls_in(de["body"]) if c["k"] == "Call" and c["f"]["k"] == "Path" and last(c["f"]["p"]) == "PlutusScript" and c["args"]]
    if len(sites) < 3:
        raise AnchorMissing("three PlutusScript::<n>(..) hash comparisons in Deserialize for SerializableProgram")
    for c in sites:
        arg = c["args"][0]
        src_nodes = [arg]
        for x in walk(arg):
            if x["k"] == "Call" and x["f"]["k"] == "Path" and x["f"]["p"] in closures:
                src_nodes.append(closures[x["f"]["p"]]["body"])
            if x["k"] == "Path" and x["p"] in closures:
                src_nodes.append(closures[x["p"]]["body"])
        from_program = any(y["k"] == "MethodCall" and y["m"] == "to_cbor" for s_ in src_nodes for y in walk(s_))
        ver = re.search(r"<\s*(\d)\s*>", c["f"].get("full", "") or "")
        rep.check(from_program, "R08-LOADHASH", "deserialize#PlutusV%s#hash-of-reencoding" % (ver.group(1) if ver else "?"), sh.loc(A, c), "the version check hashes bytes that do not come from the decoded program's own to_cbor(): an entry whose bytes differ from our encoder's form is accepted on the hash of its raw bytes, and the next save publishes different code and a different hash", sample={"arg": sh.nsrc(A, arg)[:60]})


# ---------------------------------------------------------------------------------------------------------
# R08-CTORSITE: who may pick the Plutus version of a serialised program
# ---------------------------------------------------------------------------------------------------------
def r_ctorsite(sh, rep):
    """The variant of SerializableProgram *is* the script's Plutus version: it selects the hash prefix and the blueprint
    preamble. A variant written down without a version in hand (a default when the hash is absent, a re-wrap after a
    transformation) silently changes the published hash of every script of another version."""
    n = 0
    for rel in sh.files():
        if not rel.startswith("crates/") or "/tests/" in rel or rel.endswith("/tests.rs"):
            continue
        fj = sh.file(rel)
        for q, f in all_fns(fj):
            if "body" not in f:
                continue
            for node, anc in walk_parents(f["body"]):
                if node.get("k") != "Path":
                    continue
                m = re.search(r"(?:^|::)PlutusV([123])Program$", node.get("p") or "")
                if not m:
                    continue
                k = m.group(1)
                n += 1
                ok, via = False, ""
                for a in reversed(anc):
                    if a.get("k") == "Arm":
                        heads = [pat_head(x) or "" for x in pat_alts(a["pat"])]
                        if heads and all(re.search(r"(PlutusVersion::V%s|PlutusV%s|PlutusV%sProgram)$" % (k, k, k), h) for h in heads):
                            ok, via = True, "match arm on " + heads[0]
                        break
                    if a.get("k") == "If":
                        c = sh.nsrc(rel, a["cond"])
                        if re.search(r"PlutusScript::<%s>" % k, c) and "hash" in c and "==" in c:
                            ok, via = True, "hash comparison for version " + k
                        break
                rep.check(ok, "R08-CTORSITE", "%s#PlutusV%sProgram" % (q, k), sh.loc(rel, node), "%s writes SerializableProgram::PlutusV%sProgram without a version in hand (not in a match arm on version %s, not under the comparison of the stored hash with the V%s hash): a script of another version that passes here is re-labelled, and its hash and address change" % (q, k, k, k), why_ok=via, sample={"function": q, "via": via})
    if n < 9:
        raise AnchorMissing("SerializableProgram variant constructions (found %d, 12 on the pinned tree)" % n)


# ---------------------------------------------------------------------------------------------------------
# R08-ADDR: address / policy of a validator loaded from a blueprint
# ---------------------------------------------------------------------------------------------------------
def r_addr(sh, rep):
    PL = "crates/aiken-project/src/lib.rs"
    fj = sh.file(PL)
    for name in ("address", "policy"):
        f = find_method(fj, "Project", name)
        rep.touched(PL, "Project::" + name)
        src = sh.nsrc(PL, f["body"])
        rep.check("compiled_code_and_hash(" in src, "R08-ADDR", "Project::%s#hash-under-the-validator's-own-version" % name, sh.loc(PL, f), "Project::%s must take the script hash from SerializableProgram::compiled_code_and_hash, which hashes under the version of the variant the blueprint was loaded into: a hash under any other version (the project configuration's, say) is the hash of a different script" % name)
        stripped = [c for c in walk(f["body"]) if c.get("k") == "MethodCall" and c["m"] in ("address", "compute_hash", "hash") and ".inner()" in sh.nsrc(PL, c["recv"])]
        rep.check(not stripped, "R08-ADDR", "Project::%s#version-not-discarded" % name, sh.loc(PL, stripped[0]) if stripped else sh.loc(PL, f), "Project::%s hashes `%s`: `.inner()` drops the Plutus version recovered from the blueprint, and the version supplied instead need not be the script's — a v1 / v2 blueprint gets the address of the v3 hash" % (name, sh.nsrc(PL, stripped[0])[:90] if stripped else ""))
    # stake credential kind
    f = find_method(fj, "Project", "address")
    rows = {}
    for m in matches_in(f["body"]):
        for a in m["arms"]:
            for alt in pat_alts(a["pat"]):
                inner = [last(x.get("p") or "") for x in walk(alt) if x.get("k") in ("PTupleStruct", "PPath", "PStruct") and "StakePayload::" in (x.get("p") or "")]
                built = [last(x.get("p") or "") for x in walk(a["body"]) if x.get("k") == "Path" and "ShelleyDelegationPart::" in (x.get("p") or "")]
                for i in inner:
                    rows[i] = built
    want = {"Stake": ["Key"], "Script": ["Script"]}
    for k, w in want.items():
        rep.check(rows.get(k) == w, "R08-ADDR", "Project::address#delegation#%s" % k, sh.loc(PL, f), "a stake credential of kind %s must become ShelleyDelegationPart::%s (found %s): the header nibble of the address encodes the kind, and a script credential labelled as a key is another address" % (k, w[0], rows.get(k)), sample={"rows": rows})
