"""Family H: iterations over std HashMap / HashSet (randomly seeded per instance) and the sink their order flows into.
Receiver types come from MIR (resolved, so IndexMap / BTreeMap / Vec never match); the shape of the iterator chain
comes from the syntax tree at the same file:line."""
import re
from . import lib

IT = re.compile(r"^std::collections::(hash_map::|hash_set::)?(HashMap|HashSet)::<.*>::(iter|iter_mut|keys|values|values_mut|into_keys|into_values|drain|union|intersection|difference|symmetric_difference|extract_if)$")
HASH_TY = re.compile(r"^&?(mut )?std::collections::(HashMap|HashSet)<")

# chain methods after which the order of the source no longer matters
ORDER_FREE_TERMINALS = {"any", "all", "count", "sum", "product", "min", "max", "min_by", "max_by", "min_by_key", "max_by_key", "contains", "is_empty", "len", "for_each_insert"}
SORTERS = {"sorted", "sorted_by", "sorted_by_key", "sorted_unstable", "sorted_unstable_by", "sorted_unstable_by_key", "sorted_by_cached_key"}
ORDER_FREE_COLLECT = re.compile(r"\b(HashMap|HashSet|BTreeMap|BTreeSet)\b")


def iter_kind(b):
    cal = b.get("callee") or ""
    if IT.match(cal):
        return cal.split("::")[-1]
    if b.get("decl") == "std::iter::IntoIterator::into_iter" or cal == "std::iter::IntoIterator::into_iter":
        at = (b.get("at") or [""])[0]
        if HASH_TY.match(at):
            return "into_iter"
    return None


class Chains:
    def __init__(self, shape):
        self.shape = shape
        self._parents = {}
        self._by_line = {}

    def _load(self, rel):
        if rel in self._parents:
            return
        fj = self.shape.file(rel)
        par = {}
        by_line = {}
        stack = [(fj, None)]
        while stack:
            n, p = stack.pop()
            if isinstance(n, dict):
                if "k" in n:
                    par[id(n)] = p
                    if n["k"] == "MethodCall" and n.get("ms"):
                        by_line.setdefault((n["m"], n["ms"][0]), []).append(n)
                    if n["k"] == "For":
                        by_line.setdefault(("<for>", n["e"]["s"][0]), []).append(n)
                    p2 = n
                else:
                    p2 = p
                for v in n.values():
                    if isinstance(v, (dict, list)):
                        stack.append((v, p2))
            elif isinstance(n, list):
                for v in n:
                    stack.append((v, p))
        self._parents[rel] = par
        self._by_line[rel] = by_line

    def chain(self, rel, line, meth):
        """-> (names of the methods chained after the iteration call, node the whole chain sits in, the iteration node)"""
        self._load(rel)
        par = self._parents[rel]
        cands = self._by_line[rel].get((meth, line), [])
        if not cands:
            fors = [n for (m, l), ns in self._by_line[rel].items() if m == "<for>" for n in ns if n["e"]["s"][0] <= line <= n["e"]["s"][2]]
            if fors:
                return ["<for>"], fors[0], fors[0]
            return None, None, None
        cur = cands[0]
        it = cur
        ch = []
        while True:
            p = par.get(id(cur))
            if p is not None and p["k"] == "MethodCall" and p["recv"] is cur:
                ch.append(p["m"] + ("::<%s>" % p["turbofish"] if p.get("turbofish") else ""))
                cur = p
            elif p is not None and p["k"] in ("Ref", "Try", "Unary"):
                cur = p
            else:
                break
        ctx = par.get(id(cur))
        if ctx is not None and ctx["k"] == "For" and ctx["e"] is cur:
            ch.append("<for>")
        return ch, ctx, it


def classify(sh, rel, chain, ctx):
    """-> (verdict, reason): verdict 'free' when the iteration order provably cannot reach an ordered result"""
    if chain is None:
        return "unknown", "no iterator chain found at the call site"
    names = [c.split("::")[0] for c in chain]
    for n in names:
        if n in SORTERS:
            return "sorted", "chain sorts (%s) before anything ordered is built" % n
    if names and names[-1] in ORDER_FREE_TERMINALS:
        return "free", "order-insensitive terminal `%s`" % names[-1]
    for c in chain:
        if c.startswith("collect") and ORDER_FREE_COLLECT.search(c):
            return "free", "collected into an unordered / self-ordering container (%s)" % c
    if names and names[-1] in ("collect", "cloned", "copied") and ctx is not None and ctx["k"] == "Local" and ctx["pat"]["k"] == "PType" and ORDER_FREE_COLLECT.search(str(ctx["pat"].get("ty") or "")):
        return "free", "collected into %s" % ctx["pat"].get("ty")
    if ctx is not None and ctx["k"] == "Call" and ctx["f"]["k"] == "Path" and ORDER_FREE_COLLECT.search(ctx["f"]["p"]) and lib.last(ctx["f"]["p"]) in ("from_iter", "from"):
        return "free", "passed to %s" % ctx["f"]["p"]
    if names and names[-1] in ("find", "find_map", "position", "next", "last", "nth", "fold", "reduce", "collect", "collect_vec", "join", "for_each", "<for>", "extend", "map", "filter", "filter_map", "cloned", "copied", "flat_map", "chain", "try_for_each", "unzip", "take", "skip", "rev", "enumerate", "zip", "peekable", "partition", "try_fold") or not names:
        return "ordered", "order reaches `%s`" % (names[-1] if names else "the iterator value itself")
    return "ordered", "unrecognised chain end `%s`" % names[-1]


def sites(fl, krates=("uplc", "aiken_lang", "aiken_project")):
    out = []
    for f in fl.fns.values():
        if f["krate"] not in krates:
            continue
        for i, b in fl.calls(f):
            if b["c"]:
                continue
            k = iter_kind(b)
            if k:
                out.append((f, b, k))
    return out
