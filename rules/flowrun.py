"""Runs engine-flow over /repo's current working tree (cargo +nightly check with the MIR driver as
RUSTC_WORKSPACE_WRAPPER) and loads the facts. Facts are keyed by a content hash of the sources so that a
second check on the same tree re-uses them; any edit to a source file gives a new key and a fresh extraction.
Cargo's freshness cache is defeated by deleting the members' fingerprints before every extraction, and the
run fails closed if a member's fact file was not (re)written."""
import fcntl, glob, json, os, shutil, subprocess, sys, time
from . import lib

DRV = os.path.join(lib.VERIF, "engine-flow", "target", "release", "engine-flow")
MEMBERS = ["uplc", "aiken_lang", "aiken_project", "aiken"]
FINGERPRINT_GLOBS = ["uplc-*", "aiken-*", "aiken_lang-*", "aiken-lang-*", "aiken_project-*", "aiken-project-*", "aiken-lsp-*", "aiken_lsp-*"]


def sysroot():
    return subprocess.run(["rustc", "+nightly", "--print", "sysroot"], capture_output=True, text=True, check=True).stdout.strip()


def build_driver():
    src = os.path.join(lib.VERIF, "engine-flow", "src", "main.rs")
    if os.path.exists(DRV) and os.path.getmtime(DRV) >= os.path.getmtime(src):
        return
    r = subprocess.run(["cargo", "+nightly", "build", "--release", "--offline"], cwd=os.path.join(lib.VERIF, "engine-flow"), capture_output=True, text=True)
    if r.returncode != 0:
        raise lib.AnchorMissing("engine-flow does not build: " + r.stderr[-600:])


def extract(root, out, target):
    # one extraction per target directory at a time: runs with different fact caches (scratch copies of the tree) may share
    # one warm target directory, and the fingerprint reset below must not hit a cargo that is still running there
    os.makedirs(os.path.dirname(os.path.abspath(target)) or "/", exist_ok=True)
    with open(os.path.abspath(target).rstrip("/") + ".lock", "w") as tl:
        fcntl.flock(tl, fcntl.LOCK_EX)
        _extract_locked(root, out, target)


def _extract_locked(root, out, target):
    build_driver()
    tmp = out + ".tmp%d" % os.getpid()
    shutil.rmtree(tmp, ignore_errors=True)
    os.makedirs(tmp)
    os.makedirs(target, exist_ok=True)
    for g in FINGERPRINT_GLOBS:
        for p in glob.glob(os.path.join(target, "debug", ".fingerprint", g)):
            shutil.rmtree(p, ignore_errors=True)
    env = dict(os.environ)
    env.update(
        {
            "LD_LIBRARY_PATH": os.path.join(sysroot(), "lib") + (":" + env["LD_LIBRARY_PATH"] if env.get("LD_LIBRARY_PATH") else ""),
            "RUSTFLAGS": "-Zmir-opt-level=0 -Awarnings",
            "RUSTC_WORKSPACE_WRAPPER": DRV,
            "CARGO_TARGET_DIR": target,
            "CARGO_NET_OFFLINE": "true",
            "VERIF_FLOW_OUT": tmp,
            "CARGO_INCREMENTAL": "0",
        }
    )
    env.pop("RUSTC_WRAPPER", None)
    t0 = time.time()
    r = subprocess.run(["cargo", "+nightly", "check", "--offline", "--workspace", "-j", "16"], cwd=root, env=env, capture_output=True, text=True)
    if r.returncode != 0:
        shutil.rmtree(tmp, ignore_errors=True)
        raise lib.AnchorMissing("cargo +nightly check failed on the current tree (the tree must compile): " + r.stderr[-1500:])
    missing = [m for m in MEMBERS if not os.path.exists(os.path.join(tmp, m + ".jsonl")) and not os.path.exists(os.path.join(tmp, m + "-bin.jsonl"))]
    if missing:
        shutil.rmtree(tmp, ignore_errors=True)
        raise lib.AnchorMissing("no fresh fact file for crate(s) %s: the driver was skipped (stale cargo cache?)" % missing)
    with open(os.path.join(tmp, "DONE"), "w") as fh:
        json.dump({"root": root, "wall_s": round(time.time() - t0, 1), "stderr_tail": r.stderr[-400:]}, fh)
    shutil.rmtree(out, ignore_errors=True)
    os.rename(tmp, out)


def facts(root, tier="quick"):
    import hashlib

    drv_src = open(os.path.join(lib.VERIF, "engine-flow", "src", "main.rs"), "rb").read()
    h = hashlib.sha256((lib.tree_hash(root) + hashlib.sha256(drv_src).hexdigest()).encode()).hexdigest()[:20]
    base = os.path.join(lib.CACHE, "flow")
    os.makedirs(base, exist_ok=True)
    out = os.path.join(base, "facts-" + h)
    # one cargo at a time (checks may run concurrently)
    with open(os.path.join(base, "lock"), "w") as lk:
        fcntl.flock(lk, fcntl.LOCK_EX)
        if not os.path.exists(os.path.join(out, "DONE")):
            # keep the cache small: drop facts of other trees
            for d in glob.glob(os.path.join(base, "facts-*")):
                if d != out:
                    shutil.rmtree(d, ignore_errors=True)
            extract(root, out, os.environ.get("VERIF_FLOW_TARGET", os.path.join(lib.CACHE, "flow-target")))
        fl = FlowFacts(out)
        fl.load()
    return fl


class FlowFacts:
    def __init__(self, dir_):
        self.dir = dir_
        self.fns = {}  # id -> fact
        self.by_path = {}  # path -> [fact]
        self.adts = {}
        self.statics = []
        self.meta = {}
        self._callers = None
        self._closures = None

    def load(self):
        for p in sorted(glob.glob(os.path.join(self.dir, "*.jsonl"))):
            name = os.path.basename(p)[: -len(".jsonl")]
            if name.endswith("-test"):
                continue
            with open(p) as fh:
                for line in fh:
                    if not line.strip():
                        continue
                    f = json.loads(line)
                    t = f.get("t")
                    if t == "fn":
                        if f["id"] in self.fns:
                            continue
                        self.fns[f["id"]] = f
                        self.by_path.setdefault(f["path"], []).append(f)
                    elif t == "adt":
                        self.adts.setdefault(f["path"], f)
                    elif t == "static":
                        self.statics.append(f)
                    elif t == "meta":
                        self.meta[name] = f
        self.done = json.load(open(os.path.join(self.dir, "DONE")))
        return self

    # -- lookups ---------------------------------------------------------
    def fn(self, path):
        fs = self.by_path.get(path)
        if not fs:
            raise lib.AnchorMissing("flow fn " + path)
        return fs[0]

    def find(self, regex):
        import re

        r = re.compile(regex)
        return [f for p, fs in self.by_path.items() if r.search(p) for f in fs]

    def calls(self, f):
        """[(block index, block)] for call terminators"""
        return [(i, b) for i, b in enumerate(f["blocks"]) if b.get("k") == "call"]

    def closures_of(self, fid):
        if self._closures is None:
            self._closures = {}
            for f in self.fns.values():
                if "closure_of" in f:
                    self._closures.setdefault(f["closure_of"], []).append(f)
        return self._closures.get(fid, [])

    def callers(self):
        if self._callers is None:
            c = {}
            for f in self.fns.values():
                for i, b in self.calls(f):
                    if b.get("cid"):
                        c.setdefault(b["cid"], []).append((f, i))
            self._callers = c
        return self._callers

    # -- graph -----------------------------------------------------------
    def trait_impls(self):
        """decl path -> [fn facts implementing it] for unresolved trait calls (over-approximation: every impl in the workspace)"""
        if not hasattr(self, "_impls"):
            import re

            m = {}
            for f in self.fns.values():
                mm = re.match(r"^(\w+)::<(.+) as (.+)>::(\w+)$", f["path"])
                if mm:
                    m.setdefault(mm.group(4), []).append(f)
            self._impls = m
        return self._impls

    def reachable(self, roots, include_unresolved=True, stop=None):
        """ids of functions reachable from roots (fn facts); closures belong to their definer"""
        seen = set()
        work = [r["id"] for r in roots]
        stop = stop or (lambda f: False)
        parent = {}
        while work:
            i = work.pop()
            if i in seen or i not in self.fns:
                continue
            seen.add(i)
            f = self.fns[i]
            if stop(f):
                continue
            for c in self.closures_of(i):
                if c["id"] not in seen:
                    parent.setdefault(c["id"], i)
                    work.append(c["id"])
            for bi, b in self.calls(f):
                cid = b.get("cid")
                if cid and cid in self.fns:
                    if cid not in seen:
                        parent.setdefault(cid, i)
                        work.append(cid)
                elif include_unresolved and b.get("how") in ("trait-unresolved", "virtual") and b.get("callee"):
                    name = b["callee"].split("::")[-1]
                    for g in self.trait_impls().get(name, []):
                        # same trait: compare the trait's last path segment
                        if g["id"] not in seen:
                            parent.setdefault(g["id"], i)
                            work.append(g["id"])
        self._last_parent = parent
        return seen

    def path_to(self, fid):
        """call chain (paths) from a root to fid according to the last reachable() run"""
        chain = []
        cur = fid
        p = getattr(self, "_last_parent", {})
        while cur is not None and len(chain) < 40:
            chain.append(self.fns[cur]["path"])
            cur = p.get(cur)
        return list(reversed(chain))


# ---- CFG helpers -----------------------------------------------------------
def dominators(f, ignore_cleanup=True):
    """immediate-dominator-free simple algorithm: dom[b] = set of blocks dominating b (normal control flow only)"""
    blocks = f["blocks"]
    n = len(blocks)
    ok = [not (ignore_cleanup and b["c"]) for b in blocks]
    preds = [[] for _ in range(n)]
    for i, b in enumerate(blocks):
        if not ok[i]:
            continue
        for s in b["s"]:
            if ok[s]:
                preds[s].append(i)
    # reachable from entry
    reach = set()
    st = [0]
    while st:
        x = st.pop()
        if x in reach:
            continue
        reach.add(x)
        for s in blocks[x]["s"]:
            if ok[s]:
                st.append(s)
    allb = set(reach)
    dom = {b: set(allb) for b in reach}
    dom[0] = {0}
    changed = True
    order = sorted(reach)
    while changed:
        changed = False
        for b in order:
            if b == 0:
                continue
            ps = [p for p in preds[b] if p in reach]
            if not ps:
                continue
            new = set.intersection(*(dom[p] for p in ps)) | {b}
            if new != dom[b]:
                dom[b] = new
                changed = True
    return dom


def normal_succ(f, i):
    """successors of block i on normal control flow (a call's unwind edge and cleanup blocks excluded)"""
    b = f["blocks"][i]
    return [s for s in b["s"] if not f["blocks"][s]["c"]]


def every_path_passes(f, start, targets, through):
    """True iff every normal-flow path from block `start` to any block in `targets` passes a block in `through`
    (start itself excluded). DFS avoiding `through`."""
    seen = set()
    st = [start]
    while st:
        x = st.pop()
        if x in seen:
            continue
        seen.add(x)
        if x in targets and x != start:
            return False
        for s in normal_succ(f, x):
            if s in through:
                continue
            st.append(s)
    return True


def return_blocks(f):
    return {i for i, b in enumerate(f["blocks"]) if b.get("k") == "return" and not b["c"]}
