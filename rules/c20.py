"""C20 — Malformed input is rejected with an error, not a crash (static necessary clauses; DESIGN §3 C20)."""
import re
from .lib import *
from . import panic_audit

NEEDS_FLOW = True
EXPLANATION = (
    "Panic-site audit (MIR, resolved call graph) from every entry point that consumes untrusted bytes or text: the flat/CBOR/hex decoders and "
    "all Decode impls, the UPLC text parser (peg-generated code included), the Aiken parser and formatter, the serde Deserialize/Visitor impls of "
    "the blueprint and of SerializableProgram, Parameter::validate / apply_parameter / lookup, the project configuration loader and the "
    "transaction decoding in tx::eval_phase_two_raw / apply_params_to_script. Every unwrap/expect, panic!-family macro, index/slice, arithmetic "
    "assert and panicking API on those paths must be in the reviewed per-function table; grammar actions must use the fallible `{? }` form."
)
LEVEL_NOTE = "loops, stack depth on deeply nested input and panics inside pallas / minicbor / serde_json / chumsky / peg runtime are not decided; recursion without a depth bound is listed, not judged"


def _roots(fl, pats, allow_empty=False):
    out = []
    for p in pats:
        fs = [f for f in fl.find(p) if "closure_of" not in f]
        if not fs and not allow_empty:
            raise AnchorMissing("entry point " + p)
        out += fs
    return out


SECTIONS = {
    "C20-uplc-decode": ([r"^uplc::flat::<impl ast::Program<T>>::(from_flat|from_cbor|from_hex|unflat)$", r"^uplc::flat::.*[dD]ecode", r"^uplc::flat::decode_\w+$"], "flat / CBOR / hex program decoders and every Decode impl"),
    "C20-uplc-parse": ([r"^uplc::parser::(program|term)$", r"^uplc::parser::uplc::"], "UPLC text parser incl. peg-generated rules"),
    "C20-blueprint": ([r"^(aiken_project::<?<?blueprint|uplc::<?<?ast::SerializableProgram).*(_serde::Deserialize|de::Visitor)", r"^aiken_project::blueprint::parameter::Parameter::validate$", r"^aiken_project::blueprint::Blueprint::(apply_parameter|lookup|with_validator)$", r"^aiken_project::blueprint::validator::Validator::<uplc::ast::SerializableProgram>::apply$", r"^aiken_project::blueprint::definitions::Definitions::<T>::(lookup|try_lookup)$"], "blueprint JSON loading, lookup, parameter validation and application"),
    "C20-aiken-parse": ([r"^aiken_lang::parser::module$", r"^aiken_lang::parser::", r"^aiken_lang::format::pretty$"], "Aiken lexer/parser (chumsky closures attributed to their definers) and formatter"),
    "C20-config": ([r"^aiken_project::config::ProjectConfig::load$", r"^aiken_project::<?<?config.*(_serde::Deserialize|de::Visitor)"], "aiken.toml loading"),
    "C20-tx": ([r"^uplc::tx::(eval_phase_two_raw|apply_params_to_script)$"], "transaction / UTxO / parameter decoding of tx simulation"),
}
# the evaluator proper is C10's audit; script-context construction is C19's
STOP = {
    "C20-tx": lambda f: f["path"].startswith("uplc::machine::") or re.match(r"^uplc::ast::Program::<ast::(NamedDeBruijn|DeBruijn)>::eval", f["path"]) is not None or "tx::to_plutus_data" in f["path"] or "tx::script_context" in f["path"] or f["path"].startswith("uplc::optimize"),
    "C20-blueprint": lambda f: f["path"].startswith("uplc::machine::") or f["path"].startswith("uplc::optimize") or f["path"].startswith("aiken_lang::gen_uplc"),
}


def panic_sections(fl):
    return {name: (_roots(fl, pats), STOP.get(name)) for name, (pats, _) in SECTIONS.items()}


def run(ctx, rep):
    fl = ctx.flow
    li = panic_audit.LineIndex(ctx.shape)
    secs = {}
    rep.rule("R20-ENTRY", "every audited entry point exists", floor=1)
    rep.guarded("R20-ENTRY", lambda: secs.update(panic_sections(fl)))
    rep.check(len(secs) == len(SECTIONS), "R20-ENTRY", "entry-points", "", "entry points missing", sample={k: len(v[0]) for k, v in secs.items()})
    for name, (pats, desc) in SECTIONS.items():
        rid = "R20-PANIC-" + name.split("-", 1)[1].upper()
        rep.rule(rid, "no unreviewed panic site reachable from: " + desc, floor=1)
        if name in secs:
            rep.guarded(rid, lambda name=name, rid=rid, desc=desc: panic_audit.audit(rep, rid, fl, secs[name][0], name, li, stop=secs[name][1], describe=desc))
    # the blueprint loader re-encodes what it has just decoded (`to_cbor().unwrap()`, reviewed as "flat-encoding a decoded
    # program cannot fail"): that reason is the encoder/decoder agreement of C08's tables, so they are part of this verdict
    from . import c08
    rep.rule("R08-CONST", "whatever constant the flat decoder builds, the encoder accepts (discharges the loader's to_cbor().unwrap(); shared with C08)", floor=55)
    rep.guarded("R08-CONST", lambda: c08.r_const(ctx.shape, rep))
    rep.rule("R08-TERM", "whatever term the flat decoder builds, the encoder accepts (shared with C08)", floor=30)
    rep.guarded("R08-TERM", lambda: c08.r_term(ctx.shape, rep))
    rep.rule("R20-NONEMPTY", "an Aiken parser action that converts a parsed sequence into a non-empty vector with `.try_into().expect(..)` is fed by a combinator that demands at least one element (discharges those reviewed expects)", floor=2)
    rep.guarded("R20-NONEMPTY", lambda: r_nonempty(ctx.shape, rep))
    rep.rule("R20-LAZYERR", "in Parameter::validate's helpers, an error value whose construction can panic (unwrap / expect inside) is built lazily — under ok_or_else / a closure — never eagerly on the success path", floor=1)
    rep.guarded("R20-LAZYERR", lambda: r_lazyerr(ctx.shape, rep))
    rep.rule("R15-TOTAL", "UPLC grammar actions contain no unwrap/expect/panic and index only under a reviewed guard (rule shared with C15)", floor=5)
    from . import c15
    rep.guarded("R15-TOTAL", lambda: c15.r_total(ctx.shape, rep, peg_grammar(ctx.shape.file(c15.G), "uplc")))


def r_nonempty(sh, rep):
    """`let = 1` must be a parse error. The chumsky actions of `let` / `expect` turn the parsed patterns into a Vec1 with
    `.try_into().expect(..)`, which is safe only because the sequence parser in front says `.at_least(1)`."""
    n = 0
    for rel in sh.files():
        if not rel.startswith("crates/aiken-lang/src/parser/") or "/tests" in rel:
            continue
        fj = sh.file(rel)
        fns = dict((q.split("::")[-1], f) for q, f in all_fns(fj) if "body" in f)

        def has_at_least(f, depth=0):
            for c in walk(f["body"]):
                if c.get("k") == "MethodCall" and c["m"] == "at_least" and c["args"] and c["args"][0].get("k") == "Lit" and str(c["args"][0].get("v")) not in ("0",):
                    return True
            if depth < 2:
                for c in calls_in(f["body"]):
                    g = fns.get(last(call_name(c) or ""))
                    if g is not None and g is not f and has_at_least(g, depth + 1):
                        return True
            return False

        for name, f in fns.items():
            sites = [c for c in walk(f["body"]) if c.get("k") == "MethodCall" and c["m"] in ("expect", "unwrap") and c["recv"].get("k") == "MethodCall" and c["recv"]["m"] == "try_into"]
            for c in sites:
                n += 1
                rep.touched(rel, name)
                rep.check(has_at_least(f), "R20-NONEMPTY", "%s#%s#fed-by-at_least" % (rel.split("/parser/")[-1], name), sh.loc(rel, c), "%s converts the parsed sequence with `.try_into().%s(..)` but no combinator in front of it (in %s or the sequence parsers it calls) demands `.at_least(1)`: an empty sequence — `let = 1`, `expect <- f(x)` — reaches the %s and panics the parser" % (name, c["m"], name, c["m"]))
    if n < 2:
        raise AnchorMissing("`.try_into().expect(..)` conversions in the Aiken parser (found %d, 2 on the pinned tree)" % n)


def r_lazyerr(sh, rep):
    PRM = "crates/aiken-project/src/blueprint/parameter.rs"
    n = 0
    for q, f in all_fns(sh.file(PRM)):
        if "body" not in f:
            continue
        for c in walk(f["body"]):
            if c.get("k") == "MethodCall" and c["m"] in ("ok_or", "ok_or_else", "unwrap_or", "unwrap_or_else", "map_err") and c["args"]:
                arg = c["args"][0]
                risky = [x for x in walk(arg) if x.get("k") == "MethodCall" and x["m"] in ("unwrap", "expect")]
                if not risky:
                    continue
                n += 1
                rep.touched(PRM, q)
                lazy = arg.get("k") == "Closure"
                rep.check(lazy, "R20-LAZYERR", "%s#%s#panicking-default-is-lazy" % (q, c["m"]), sh.loc(PRM, c), "%s builds the fallback of `.%s(..)` eagerly although it contains `.%s()`: the fallback is evaluated on the success path as well, so a blueprint for which it cannot be built (a constructor field declared inline, without $ref) panics for every argument" % (q, c["m"], risky[0]["m"]))
    if n < 1:
        raise AnchorMissing("fallbacks containing unwrap/expect in blueprint/parameter.rs")
