"""C02 — the optimiser never changes what compiler output computes.

Decided statically (necessary clauses): builtins whose arguments may be
reordered are commutative; every value-dependent failure exit of a builtin the
constant folder may evaluate at compile time is excluded by a guard of
is_error_safe (obligation table, exits extracted from the evaluator); the
folder's type tests match the builtin's argument types; Constr/Case terms are
produced only at the very end of the pipeline, after every function that
cannot handle them; the substitution / occurrence walks visit the same, complete
set of constructors.
Not decided: soundness of inlining conditions, currying, lambda splitting —
whether a rewritten term evaluates equally is a runtime statement.
"""
import re
from .lib import *
from .btab import BuiltinTables, RT, CM
from .c01 import COMMUTATIVE

EXPLANATION = (
    "R02-COMM: is_order_agnostic_builtin is a subset of the specification's commutative builtins and each member unwraps both arguments alike. "
    "R02-FOLD: for each of the 42 builtins that is_error_safe may admit, the failure exits of its DefaultFunction::call arm and of its BuiltinCosts::to_ex_budget arm "
    "(Err(Error::X) constructions, `?` on fallible helpers, narrowing unwraps, unreachable!) are extracted from the syntax tree; each must be matched by a row of the "
    "review table whose guard text is present in that builtin's is_error_safe arm; an exit without a row, or a row whose guard is gone, is a violation. The folder's "
    "constant-type tests are compared with the unwrappers of the call arm. R02-CASE: typestate of the pipeline — functions with todo!() arms for Constr/Case never run "
    "after the only producer of Constr/Case. R02-WALK: family T over the substitution and occurrence walks, plus equality of their visited-constructor sets."
)
LEVEL_NOTE = "the budget exit of a single folded builtin call under the default budget is assumed unreachable (cost is a runtime quantity)"

SH = "crates/uplc/src/optimize/shrinker.rs"
OP = "crates/uplc/src/optimize.rs"
A = "crates/uplc/src/ast.rs"
UB = "crates/uplc/src/builder.rs"

# review table: (builtin, failure exit) -> (guard that must appear in the builtin's is_error_safe arm | None, reason)
G_NONZERO = r"\*i!=0\.into\(\)"
G_BYTE = r"i>=&0\.into\(\)&&i<&256\.into\(\)"
G_INDEX = r"i>=&0\.into\(\)&&i<&bs\.len\(\)\.into\(\)"
G_U64 = r"u64::try_from\(i\)\.is_ok\(\)"
G_DST = r"dst\.len\(\)<=255"
G_SIZE0 = r"Constant::Integer\(i\)ifi==&0\.into\(\)"
G_NONNEG_INPUT = r"c3\.as_ref\(\),Constant::Integer\(i\)ifi>=&0\.into\(\)"
G_REPL_SIZE = r"i>=&0\.into\(\)&&i<=&INTEGER_TO_BYTE_STRING_MAXIMUM_OUTPUT_LENGTH\.into\(\)"
G_REPL_BYTE = r"i>=&0\.into\(\)&&i<=&255\.into\(\)"
G_I64 = r"i64::try_from\(i\)\.is_ok\(\)"
G_DATALIST = r"Constant::ProtoList\(Type::Data,_\)"
FOLD_REVIEW = {
    ("DivideInteger", "Err:DivideByZero"): (G_NONZERO, "divisor (indeed every argument) is a non-zero constant"),
    ("QuotientInteger", "Err:DivideByZero"): (G_NONZERO, "divisor is non-zero"),
    ("RemainderInteger", "Err:DivideByZero"): (G_NONZERO, "divisor is non-zero"),
    ("ModInteger", "Err:DivideByZero"): (G_NONZERO, "divisor is non-zero"),
    ("ConsByteString", "Err:ByteStringConsNotAByte"): (G_BYTE, "0 <= byte < 256"),
    ("ConsByteString", "panic:arg1.try_into().unwrap()"): (G_BYTE, "a value in [0,255] fits u8"),
    ("ConsByteString", "panic:wrap.try_into().unwrap()"): (None, "the value was reduced mod 256 on the line before: always fits u8"),
    ("IndexByteString", "Err:ByteStringOutOfBounds"): (G_INDEX, "0 <= index < length"),
    ("ConstrData", "Err:OverflowError"): (G_U64, "the tag fits u64"),
    ("ConstrData", "panic:unreachable!"): (G_DATALIST, "the list constant is a list of Data, so every item is Constant::Data"),
    ("Bls12_381_G1_HashToGroup", "Err:HashToCurveDstTooBig"): (G_DST, "domain separation tag of at most 255 bytes"),
    ("Bls12_381_G2_HashToGroup", "Err:HashToCurveDstTooBig"): (G_DST, "domain separation tag of at most 255 bytes"),
    ("IntegerToByteString", "Err:IntegerToByteStringNegativeInput"): (G_NONNEG_INPUT, "input >= 0"),
    ("IntegerToByteString", "Err:IntegerToByteStringSizeTooBig"): (r"integer_log2\(i\.clone\(\)\)<8\*INTEGER_TO_BYTE_STRING_MAXIMUM_OUTPUT_LENGTH", "with size 0 the builtin fails iff log2(input) >= 8*8192; the guard mirrors that test"),
    ("IntegerToByteString", "Err:IntegerToByteStringSizeTooSmall"): (G_SIZE0, "only raised when size != 0; the guard requires size == 0"),
    ("IntegerToByteString", "panic:size.try_into().unwrap()"): (G_SIZE0, "size == 0 fits usize"),
    ("IntegerToByteString", "?:cost_as_size"): (G_SIZE0, "cost_as_size fails only for negative sizes or sizes above 8192; the guard requires size == 0"),
    ("ReplicateByte", "Err:OutsideByteBounds"): (G_REPL_BYTE, "0 <= byte <= 255"),
    ("ReplicateByte", "panic:usize::try_from(size).unwrap()"): (G_REPL_SIZE, "0 <= size <= 8192 fits usize"),
    ("ReplicateByte", "?:cost_as_size"): (G_REPL_SIZE, "cost_as_size fails only for negative sizes or sizes above 8192"),
    ("ShiftByteString", "Err:EvaluationFailure"): (G_I64, "raised (under the V3 semantics the folder evaluates with) only when the shift does not fit an i64"),
    ("ShiftByteString", "panic:BigInt::from_usize(byte_length).unwrap()"): (None, "BigInt::from_usize is total"),
    ("ShiftByteString", "panic:usize::try_from(shift.abs()).unwrap()"): (None, "reached only after the early return for len*8 <= |shift|, so |shift| < len*8 fits usize"),
    ("RotateByteString", "Err:EvaluationFailure"): (G_I64, "raised only when the shift does not fit an i64"),
    ("RotateByteString", "panic:usize::try_from(shift).unwrap()"): (None, "shift was reduced with mod_floor(len*8) and the empty byte string returned earlier: 0 <= shift < len*8"),
}
# review table: folder type tests that deviate from the builtin's argument types without endangering compiler output
FOLD_TYPE_REVIEW = {
    "Bls12_381_G2_ScalarMul#1": "the guard tests for a G1 element where the builtin takes a G2 element: for well-typed code (all the code generator emits) the guard is simply false and nothing is folded; only hand-written ill-typed UPLC given to `aiken uplc shrink` could make the folder unwrap a type error — outside C02's quantifier (compiler output)",
}
KIND_OF_UNWRAP = {"unwrap_integer": "Integer", "unwrap_byte_string": "ByteString", "unwrap_string": "String", "unwrap_bool": "Bool", "unwrap_data": "Data", "unwrap_data_list": "ProtoList", "unwrap_list": "ProtoList", "unwrap_int_list": "ProtoList", "unwrap_bls12_381_g1_element": "Bls12_381G1Element", "unwrap_bls12_381_g2_element": "Bls12_381G2Element", "unwrap_bls12_381_ml_result": "Bls12_381MlResult", "unwrap_unit": "Unit"}


NEEDS_FLOW = True


def run(ctx, rep):
    sh = ctx.shape
    from . import indexorder
    rep.rule("R02-REMOVEORDER", "optimiser: elements are removed from a Vec at recorded positions only from the highest position down", floor=1)
    rep.guarded("R02-REMOVEORDER", lambda: indexorder.rule(sh, ctx.flow, rep, "R02-REMOVEORDER", lambda rel: rel.startswith("crates/uplc/src/optimize/"), 1))
    rep.rule("R02-COMM", "is_order_agnostic_builtin is a subset of the commutative builtins; members unwrap both arguments with the same unwrapper", floor=10)
    rep.rule("R02-FOLD", "every value-dependent failure exit of a foldable builtin is excluded by a guard of is_error_safe; type tests match the builtin's argument types", floor=60)
    rep.rule("R02-CASE", "Constr/Case are produced only by case_constr_apply_reducer, which runs after every function that cannot handle them", floor=8)
    rep.rule("R02-WALK", "substitution / occurrence walks visit every constructor with sub-terms, and visit the same set", floor=30)
    rep.rule("R02-ONLY", "aiken_optimize_and_intern ends with afterwards(); it is the optimiser entry used by the compile path", floor=2)
    t = None
    try:
        t = BuiltinTables(sh)
    except AnchorMissing as e:
        rep.anchor_missing("R02-FOLD", e)
    if t:
        rep.guarded("R02-COMM", lambda: r_comm(sh, rep, t))
        rep.guarded("R02-FOLD", lambda: r_fold(sh, rep, t))
    rep.rule("R02-VALUEFORM", "the inliner's cant_throw_condition admits only CEK value forms (Var, Constant, Delay, Lambda, Builtin)", floor=1)
    rep.rule("R02-SATURATED", "reducers that identify builtin arguments by stack position (subtract->add flip, constant folder) test arg_stack.len() == arity before rewriting", floor=2)
    rep.guarded("R02-VALUEFORM", lambda: r_valueform(sh, rep))
    rep.guarded("R02-SATURATED", lambda: r_saturated(sh, rep))
    from . import c04
    rep.rule("R02-BIGINTSITE", "no reducer decodes Data big integers by hand (shared with C04)", floor=2)
    rep.guarded("R02-BIGINTSITE", lambda: c04.r_bigintsites(sh, rep, "R02-BIGINTSITE"))
    rep.rule("R02-BLSNAMES", "bls381_compressor names G1 constants blst_p1_* and G2 constants blst_p2_* on every path", floor=2)
    rep.guarded("R02-BLSNAMES", lambda: r_blsnames(sh, rep))
    if t:
        rep.rule("R02-CANCEL", "cast_data_reducer drops a pair outer(inner(x)) only when the inner builtin cannot fail on any value and the outer one is its inverse", floor=4)
        rep.guarded("R02-CANCEL", lambda: r_cancel(sh, rep, t, "R02-CANCEL"))
    rep.rule("R02-DELAYSCAN", "occurrence analysis: the body of a delayed branch is scanned as not-delayed only where the sibling branch is `error`", floor=2)
    rep.guarded("R02-DELAYSCAN", lambda: r_delayscan(sh, rep, "R02-DELAYSCAN"))
    rep.rule("R02-CURRYDEF", "builtin currying: a curried definition that applies the curried name of its argument prefix is built only when every argument of that prefix is a constant (only those get a definition)", floor=2)
    rep.guarded("R02-CURRYDEF", lambda: r_currydef(sh, rep, "R02-CURRYDEF"))
    if t:
        rep.rule("R02-FOLDOUT", "no foldable builtin introduces a constant the flat encoder refuses (BLS group elements): folding happens after the pass that rewrites such constants", floor=20)
        rep.guarded("R02-FOLDOUT", lambda: r_foldout(sh, rep, t, "R02-FOLDOUT"))
    rep.guarded("R02-CASE", lambda: r_case(sh, rep))
    rep.guarded("R02-WALK", lambda: r_walk(sh, rep))
    rep.guarded("R02-ONLY", lambda: r_only(sh, rep))


def r_comm(sh, rep, t):
    f = find_method(sh.file(SH), "DefaultFunction", "is_order_agnostic_builtin")
    rep.touched(SH, "DefaultFunction::is_order_agnostic_builtin")
    mac = [n for n in walk(f["body"]) if n["k"] == "Macro" and n["path"] == "matches" and "pat" in n]
    if not mac:
        raise AnchorMissing("matches! in is_order_agnostic_builtin")
    members = [last(pat_head(a)) for a in pat_alts(mac[0]["pat"])]
    for b in members:
        where = sh.loc(SH, mac[0])
        if b not in COMMUTATIVE:
            rep.bad("R02-COMM", b, where, "%s is declared order-agnostic (the currying pass may reorder its arguments) but it is not commutative: f(a,b) != f(b,a) for some arguments or failures" % b)
            continue
        ca = t.call_args(b) if b in t.call else {}
        u0 = [m for m in ca.get(0, []) if m and m.startswith("unwrap")]
        u1 = [m for m in ca.get(1, []) if m and m.startswith("unwrap")]
        rep.check(t.arity[b][0] == 2 and u0[:1] == u1[:1] and u0, "R02-COMM", b, where, "%s does not unwrap both arguments alike (%s / %s): swapping them changes which argument fails first" % (b, u0, u1), sample={"builtin": b, "unwrappers": [u0[:1], u1[:1]]})


def exits_of(sh, rel, arm):
    out = []
    for n in walk(arm["body"]):
        if n["k"] == "Call" and call_name(n) == "Err":
            ps = [last(p) for p in paths_in(n) if "Error::" in p]
            out.append("Err:" + (ps[0] if ps else "?"))
        if n["k"] == "Try":
            e = n["e"]
            errs = [last(p) for p in paths_in(e) if "Error::" in p]
            if errs:
                out.append("Err:" + errs[0])
                continue
            nm = call_name(e) if e["k"] in ("Call", "MethodCall") else None
            if nm and not last(nm).startswith("unwrap_"):
                out.append("?:" + last(nm))
        if n["k"] == "MethodCall" and n["m"] in ("unwrap", "expect"):
            out.append("panic:" + sh.nsrc(rel, n)[-60:])
        if n["k"] == "Macro" and n["path"] in ("unreachable", "panic", "todo", "unimplemented"):
            out.append("panic:" + n["path"] + "!")
        if n["k"] == "Index" and not (n["e"]["k"] == "Path" and n["e"]["p"] == "args"):
            pass  # slice/index panics are audited by C10 (R10-PANIC); the folder only sees what evaluation returns
    return sorted(set(out))


def guard_kinds(sh, arm, arity):
    """constant kind the is_error_safe arm demands per argument index (None = not tested)"""
    body = arm["body"]
    kinds = {}
    src = sh.nsrc(SH, body)
    # form 1: arg_stack.iter().all(|arg| .. Constant::K ..)
    if "arg_stack.iter().all(" in src:
        ks = set()
        for n in walk(body):
            if n["k"] in ("PTupleStruct", "PPath") and "Constant::" in n["p"]:
                ks.add(last(n["p"]))
        if len(ks) == 1:
            k = ks.pop()
            return {i: k for i in range(arity)}
        return {}
    # form 2: if let (Term::Constant(a), Term::Constant(b), ..) = (&arg_stack[0], &arg_stack[1], ..)
    names = {}
    for n in walk(body):
        if n["k"] == "LetCond" and n["pat"]["k"] == "PTuple" and n["e"]["k"] == "Tuple":
            for pe, ee in zip(n["pat"]["elems"], n["e"]["es"]):
                m = re.match(r"&arg_stack\[(\d)\]", sh.nsrc(SH, ee))
                if m and pe["k"] == "PTupleStruct" and last(pe["p"]) == "Constant" and pe["elems"] and pe["elems"][0]["k"] == "Ident":
                    names[pe["elems"][0]["name"]] = int(m.group(1))
    for n in walk(body):
        # (Constant::A(..), Constant::B(..)) = (c.as_ref(), c2.as_ref())
        if n["k"] == "LetCond" and n["pat"]["k"] == "PTuple" and n["e"]["k"] == "Tuple":
            for pe, ee in zip(n["pat"]["elems"], n["e"]["es"]):
                nm = re.match(r"(\w+)\.as_ref\(\)", sh.nsrc(SH, ee))
                if nm and nm.group(1) in names and pe["k"] in ("PTupleStruct", "PPath") and "Constant::" in pe["p"]:
                    kinds[names[nm.group(1)]] = last(pe["p"])
        if n["k"] == "Macro" and n["path"] == "matches" and "pat" in n:
            e = n["e"]
            if e["k"] == "Tuple" and n["pat"]["k"] == "PTuple":
                for pe, ee in zip(n["pat"]["elems"], e["es"]):
                    nm = re.match(r"(\w+)\.as_ref\(\)", sh.nsrc(SH, ee))
                    if nm and nm.group(1) in names and pe["k"] in ("PTupleStruct", "PPath") and "Constant::" in pe["p"]:
                        kinds[names[nm.group(1)]] = last(pe["p"])
            else:
                nm = re.match(r"(\w+)\.as_ref\(\)", sh.nsrc(SH, e))
                p = n["pat"]
                if nm and nm.group(1) in names and p["k"] in ("PTupleStruct", "PPath") and "Constant::" in p["p"]:
                    kinds[names[nm.group(1)]] = last(p["p"])
    return kinds


def r_fold(sh, rep, t):
    f = find_method(sh.file(SH), "DefaultFunction", "is_error_safe")
    rep.touched(SH, "DefaultFunction::is_error_safe")
    rep.touched(SH, "Term::builtin_eval_reducer")
    m = next(matches_in(f["body"]))
    safe = {}
    default_false = False
    for v, arm, alt in arm_table(m):
        if v is None:
            default_false = arm["body"]["k"] == "Lit" and arm["body"]["v"] is False
        else:
            safe[v] = arm
    rep.check(default_false, "R02-FOLD", "default-is-false", sh.loc(SH, f), "builtins without an explicit arm must not be folded (`_ => false`)")
    # the reducer evaluates only under is_error_safe, with the arity check
    red = find_method(sh.file(SH), "Term<Name>", "builtin_eval_reducer")
    rs = sh.nsrc(SH, red["body"])
    rep.check("ifapplies.len()==func.arity()&&func.is_error_safe(&args){" in rs, "R02-FOLD", "reducer#gate", sh.loc(SH, red), "the folder must evaluate only saturated applications admitted by is_error_safe")
    rep.assume("the constant folder evaluates with Program::eval (Plutus V3, latest semantics, default budget); exhausting that budget on a single builtin call is assumed impossible")
    for v in t.variants:
        if v not in safe:
            continue
        arm = safe[v]
        where = sh.loc(SH, arm)
        gsrc = sh.nsrc(SH, arm["body"])
        if gsrc == "false":
            rep.ok("R02-FOLD", v + "#never-folded", where, why="the arm is the constant false: no obligation", nontrivial=False)
            continue
        ex = exits_of(sh, RT, t.call[v]) + exits_of(sh, CM, t.cost[v])
        if not ex:
            rep.ok("R02-FOLD", v + "#no-value-dependent-exit", where, why="neither the call arm nor the costing arm can fail on well-kinded constants", sample={"builtin": v})
        for e in ex:
            key = "%s#%s" % (v, e)
            row = FOLD_REVIEW.get((v, e))
            if row is None:
                rep.bad("R02-FOLD", key + "#unreviewed", where, "builtin %s can fail with `%s` but is_error_safe has no reviewed guard excluding it: the constant folder would unwrap that failure and crash the compiler (or fold a failing program into a succeeding one)" % (v, e), sample={"builtin": v, "exit": e, "guard_arm": gsrc[:200]})
                continue
            guard, reason = row
            if guard is None:
                rep.ok("R02-FOLD", key, where, why="reviewed: " + reason)
            elif re.search(guard, gsrc):
                rep.ok("R02-FOLD", key, where, why="excluded by guard /%s/: %s" % (guard, reason), sample={"builtin": v, "exit": e, "guard": guard})
            else:
                rep.bad("R02-FOLD", key + "#guard-missing", where, "failure exit `%s` of %s is no longer excluded: the guard /%s/ (%s) is not in the is_error_safe arm" % (e, v, guard, reason), sample={"builtin": v, "exit": e, "guard_arm": gsrc[:200]})
        # type tests
        ar = t.arity[v][0]
        gk = guard_kinds(sh, arm, ar)
        ca = t.call_args(v)
        for i in range(ar):
            um = [x for x in ca.get(i, []) if x and x.startswith("unwrap")]
            want = KIND_OF_UNWRAP.get(um[0]) if um else None
            key = "%s#type#%d" % (v, i)
            if want is None:
                continue
            got = gk.get(i)
            if got == want:
                rep.ok("R02-FOLD", key, where, sample={"builtin": v, "arg": i, "kind": got})
            elif "%s#%d" % (v, i) in FOLD_TYPE_REVIEW:
                rep.ok("R02-FOLD", key, where, why="reviewed: " + FOLD_TYPE_REVIEW["%s#%d" % (v, i)])
                rep.info("%s: %s" % (where, FOLD_TYPE_REVIEW["%s#%d" % (v, i)]))
            else:
                rep.bad("R02-FOLD", key, where, "is_error_safe demands a %s constant for argument %d of %s but the builtin unwraps a %s: a type failure would be unwrapped by the folder" % (got, i, v, want), sample={"builtin": v, "arg": i, "guard": got, "builtin_wants": want})


def intolerant_fns(sh):
    """functions of shrinker.rs with a todo!/unreachable!/panic! arm for Term::Constr or Term::Case"""
    out = {}
    for q, f in all_fns(sh.file(SH)):
        if "body" not in f:
            continue
        for m in matches_in(f["body"]):
            for v, arm, alt in arm_table(m):
                if v in ("Constr", "Case") and pat_head(alt) and pat_head(alt).startswith("Term::"):
                    b = arm["body"]
                    if b["k"] == "Macro" and b["path"] in ("todo", "unreachable", "panic", "unimplemented"):
                        out.setdefault(f["name"], []).append(v)
    return out


def constructs_constr_case(fn):
    """struct literals Term::Constr/Term::Case, or the builder helpers Term::constr(..) / .case(..)"""
    for n in walk(fn["body"]):
        if n["k"] == "Struct" and n["p"] in ("Term::Constr", "Term::Case"):
            return True
        if n["k"] == "Call" and call_name(n) in ("Term::constr", "Term::case"):
            return True
        if n["k"] == "MethodCall" and n["m"] == "case" and len(n["args"]) == 1:
            return True
    return False


def r_case(sh, rep):
    into = intolerant_fns(sh)
    rep.touched(SH, "optimizer reducers (%d with todo!() arms for Constr/Case)" % len(into))
    rep.check(len(into) >= 8, "R02-CASE", "intolerant-set", SH, "expected at least 8 functions with todo!() arms for Constr/Case, found %d" % len(into), sample={"functions": sorted(into)})
    # producers
    producers = set()
    for rel in sh.files():
        if "/tests" in rel or rel.endswith("tests.rs"):
            continue
        if not (rel.startswith("crates/uplc/src") or rel.startswith("crates/aiken-lang/src")):
            continue
        for q, f in all_fns(sh.file(rel)):
            if "body" in f and constructs_constr_case(f):
                producers.add((rel, q, f["name"]))
    # rebuilders that only copy an existing Constr/Case (walks, decoders, parser) are not producers of *new* nodes for the optimiser
    REBUILD_OK = {"crates/uplc/src/debruijn.rs", "crates/uplc/src/flat.rs", "crates/uplc/src/parser.rs", "crates/uplc/src/machine/discharge.rs", "crates/uplc/src/parser/interner.rs", "crates/uplc/src/optimize/interner.rs", "crates/uplc/src/builder.rs"}
    real = sorted((rel, q) for rel, q, n in producers if rel not in REBUILD_OK)
    lang = [p for p in real if p[0].startswith("crates/aiken-lang/")]
    rep.check(not lang, "R02-CASE", "codegen-never-builds-constr-case", "crates/aiken-lang/src", "the code generator constructs Term::Constr/Case in %s: the optimiser's reducers answer those with todo!()" % lang, sample={"producers": real})
    opt = [p for p in real if p[0] == SH]
    names = sorted({q.split("::")[-1] for _, q in opt})
    rep.check(names == ["case_constr_apply_reducer"], "R02-CASE", "single-producer", SH, "functions of the optimiser that build Constr/Case: %s (expected only case_constr_apply_reducer)" % names, sample={"producers": names})
    # case_constr_apply_reducer is called only from afterwards()
    callers = set()
    for q, f in all_fns(sh.file(SH)):
        if "body" in f and any(c["k"] == "MethodCall" and c["m"] == "case_constr_apply_reducer" for c in calls_in(f["body"])):
            callers.add(f["name"])
    rep.check(callers == {"afterwards"}, "R02-CASE", "producer-called-from", SH, "case_constr_apply_reducer is invoked from %s; it must only run in afterwards(), the last pass" % sorted(callers))
    # inside afterwards(): nothing intolerant is invoked at or after the producer's traversal
    aft = find_method(sh.file(SH), "Program<Name>", "afterwards")
    seq = [(c["m"] if c["k"] == "MethodCall" else last(call_name(c) or ""), c) for c in calls_in(aft["body"])]
    seq.sort(key=lambda x: (x[1]["s"][0], x[1]["s"][1]))
    prod_line = min((c["s"][0] for n, c in seq if n == "case_constr_apply_reducer"), default=None)
    if prod_line is None:
        raise AnchorMissing("case_constr_apply_reducer call in afterwards")
    later = sorted({n for n, c in seq if c["s"][2] >= prod_line and n in into})
    rep.check(not later, "R02-CASE", "afterwards#nothing-intolerant-after-producer", sh.loc(SH, aft), "after Constr/Case have been introduced, afterwards() still runs %s, which answers them with todo!()" % later)
    same_traversal = sorted({n for n, c in seq if c["s"][0] == prod_line and n in into})
    # the pipeline ends with afterwards()
    opt_fn = find_fn(sh.file(OP), "aiken_optimize_and_intern")
    tail = opt_fn["body"]["stmts"][-1]
    root = tail["e"] if tail["k"] == "ExprStmt" else None
    lastm = root["m"] if root is not None and root["k"] == "MethodCall" else None
    rep.check(lastm == "afterwards", "R02-CASE", "pipeline-ends-with-afterwards", sh.loc(OP, opt_fn), "aiken_optimize_and_intern must end with .afterwards() (ends with .%s): a pass scheduled after it would meet Constr/Case" % lastm)
    # functions that do run after the producer handle Constr/Case explicitly
    term = find_enum(sh.file(A), "Term")
    th = find_method(sh.file(SH), "Term<Name>", "traverse_uplc_with_helper")
    traversal_check(rep, "R02-CASE", sh, SH, "Term::traverse_uplc_with_helper", th, term, ["Term"], require_recursion={"traverse_uplc_with_helper"})


def visited_set(fn, variants):
    m = find_enum_match(fn, "Term", variants)
    return sorted({v for v, arm, alt in arm_table(m) if v})


def r_walk(sh, rep):
    term = find_enum(sh.file(A), "Term")
    vs = {v["name"] for v in term["variants"]}
    fj = sh.file(SH)
    sets = {}
    for name, rec in (("substitute_var", {"substitute_var"}), ("substitute_single_var", {"substitute_single_var"}), ("replace_identity_usage", {"replace_identity_usage"})):
        f = find_method(fj, "Term<Name>", name)
        exc = {}
        if name == "replace_identity_usage":
            exc = {"Constr": "todo!() arm — covered by the typestate rule R02-CASE (never runs after the producer)", "Case": "todo!() arm — R02-CASE"}
        try:
            traversal_check(rep, "R02-WALK", sh, SH, "Term::" + name, f, term, ["Term"], require_recursion=rec, exceptions=exc)
        except AnchorMissing as e:
            rep.anchor_missing("R02-WALK", e)
            continue
        if name != "replace_identity_usage":
            sets[name] = visited_set(f, vs)
    for name in ("new", "invalidate_term"):
        f = find_method(fj, "OccurrenceTracker", name)
        traversal_check(rep, "R02-WALK", sh, SH, "OccurrenceTracker::" + name, f, term, ["Term"], require_recursion={"push", "extend"})
        sets["OccurrenceTracker::" + name] = visited_set(f, vs)
    kids = {v for v, k in enum_children(term, ["Term"]).items() if k}
    ref = None
    for n, s in sorted(sets.items()):
        child_bearing = sorted(set(s) & kids)
        if ref is None:
            ref = (n, child_bearing)
        rep.check(child_bearing == ref[1], "R02-WALK", "same-visited-set#" + n, SH, "%s visits %s but %s visits %s: occurrences counted by one walk and substituted by the other disagree" % (n, child_bearing, ref[0], ref[1]), sample={"walk": n, "visits": child_bearing})
    rep.check(ref is not None and set(ref[1]) == kids, "R02-WALK", "visited-set-complete", SH, "the walks visit %s; constructors with sub-terms are %s" % (ref[1] if ref else None, sorted(kids)))


def r_only(sh, rep):
    # syntactic who-may-call; the flow engine resolves it in the thorough tier
    callers = set()
    for rel in sh.files():
        if "/tests" in rel or rel.endswith("tests.rs"):
            continue
        for q, f in all_fns(sh.file(rel)):
            if "body" not in f:
                continue
            for c in calls_in(f["body"]):
                nm = call_name(c)
                if nm and last(nm) == "aiken_optimize_and_intern" and c["k"] == "Call":
                    callers.add(rel + "::" + q)
    want = {"crates/aiken-lang/src/gen_uplc.rs::CodeGenerator::finalize", "crates/aiken/src/cmd/uplc/shrink.rs::exec"}
    rep.check(callers <= want and "crates/aiken-lang/src/gen_uplc.rs::CodeGenerator::finalize" in callers, "R02-ONLY", "callers", OP, "aiken_optimize_and_intern is called from %s" % sorted(callers), sample={"callers": sorted(callers)})
    fin = find_method(sh.file("crates/aiken-lang/src/gen_uplc.rs"), "CodeGenerator", "finalize")
    n = len([c for c in calls_in(fin["body"]) if call_name(c) and last(call_name(c)) == "aiken_optimize_and_intern"])
    rep.check(n == 1, "R02-ONLY", "finalize#once", "crates/aiken-lang/src/gen_uplc.rs", "finalize must run the optimiser exactly once (found %d calls)" % n)


# ---------------------------------------------------------------------------------------------------------
# R02-VALUEFORM: what the inliner treats as "cannot throw" is a set of CEK value forms
# ---------------------------------------------------------------------------------------------------------
# spec table (CEK machine): constructors whose evaluation is a single step that returns a value and cannot fail
VALUE_FORMS = {"Var", "Constant", "Delay", "Lambda", "Builtin"}
TERM_CTORS = {"Var", "Delay", "Lambda", "Apply", "Constant", "Force", "Error", "Builtin", "Constr", "Case"}


def _term_ctors_in(node):
    out = set()
    for n in walk(node):
        for key in ("p",):
            v = n.get(key)
            if isinstance(v, str) and "::" in v and v.split("::")[-2] == "Term" and v.split("::")[-1] in TERM_CTORS:
                out.add(v.split("::")[-1])
    return out


def r_valueform(sh, rep):
    f = find_method(sh.file(SH), "Term<Name>", "inline_reducer") if False else None
    fj = sh.file(SH)
    f = [fn for q, fn in all_fns(fj) if q.endswith("::inline_reducer")]
    if not f:
        raise AnchorMissing("fn inline_reducer in shrinker.rs")
    f = f[0]
    rep.touched(SH, "Term::inline_reducer")
    defs = {}
    for n in walk(f["body"]):
        if n["k"] == "Local" and n["pat"]["k"] == "Ident" and n.get("init") is not None:
            defs.setdefault(n["pat"]["name"], []).append(n)
    if "cant_throw_condition" not in defs:
        raise AnchorMissing("let cant_throw_condition in inline_reducer")
    helpers = {q.split("::")[-1]: fn for q, fn in all_fns(fj) if "body" in fn}

    def admitted(exprs):
        seen, work, ctors = set(), list(exprs), set()
        while work:
            e = work.pop()
            ctors |= _term_ctors_in(e)
            for n in walk(e):
                if n["k"] == "Path" and n["p"] in defs and n["p"] not in seen:
                    # only boolean helpers feed a condition; term bindings (arg_term) are scrutinees, not part of the set
                    for d in defs[n["p"]]:
                        if d["init"]["k"] in ("Macro", "Binary", "Unary", "MethodCall") and (d["init"]["k"] != "MethodCall" or d["init"]["m"] in ("any", "all", "is_some", "is_none", "contains") or d["init"]["m"] in helpers):
                            seen.add(n["p"])
                            work.append(d["init"])
                # predicate methods of shrinker.rs applied to the argument term: look inside
                if n["k"] == "MethodCall" and n["m"] in helpers and n["m"] not in seen and n["recv"]["k"] == "Path" and n["recv"]["p"] in ("arg_term", "arg", "argument"):
                    seen.add(n["m"])
                    work.append(helpers[n["m"]]["body"])
        return ctors

    for loc in defs["cant_throw_condition"]:
        ctors = admitted([loc["init"]])
        bad = sorted(ctors - VALUE_FORMS)
        rep.check(not bad and ctors, "R02-VALUEFORM", "inline_reducer#cant_throw_condition", sh.loc(SH, loc), "the inliner's cant_throw_condition admits Term::%s: only the value forms %s evaluate in one step without failing; an application (even of a builtin to a constant: one-argument builtins such as unIData are then saturated) can abort, and inlining it under a delay or lambda that never runs turns an aborting program into a succeeding one" % ("/".join(bad), sorted(VALUE_FORMS)), sample={"admitted": sorted(ctors)})
    # every decision of inline_reducer that involves cant_throw_condition (inline under a binder, drop when unused) may only be
    # widened by predicates over value forms
    conds = [n["cond"] for n in walk(f["body"]) if n["k"] == "If" and any(x["k"] == "Path" and x["p"] == "cant_throw_condition" for x in walk(n["cond"]))]
    conds += [d["init"] for name, ds in defs.items() for d in ds if name != "cant_throw_condition" and any(x["k"] == "Path" and x["p"] == "cant_throw_condition" for x in walk(d["init"]))]
    ctors = admitted(conds)
    bad = sorted(ctors - VALUE_FORMS)
    rep.check(not bad, "R02-VALUEFORM", "inline_reducer#decisions-over-value-forms", sh.loc(SH, conds[0]) if conds else sh.loc(SH, f), "a condition of inline_reducer that decides to inline or to drop an argument additionally admits Term::%s (through a helper predicate or a widened disjunction): an application such as `unIData x` can fail, so dropping it when unused (or moving it under a binder) turns an aborting program into a succeeding one — and only in builds where the expression has that shape (silent vs traced)" % "/".join(bad), sample={"admitted": sorted(ctors), "conditions": len(conds)})


# ---------------------------------------------------------------------------------------------------------
# R02-SATURATED: reducers that pick builtin arguments by position do so only on saturated applications
# ---------------------------------------------------------------------------------------------------------
POSITIONAL_REDUCERS = ["convert_arithmetic_ops", "builtin_eval_reducer"]


def _is_saturation_test(e):
    """<x>.len() == <y>.arity()  (either order)"""
    for n in walk(e):
        if n["k"] == "Binary" and n["op"] == "==":
            sides = [n["l"], n["r"]]
            has_len = any(x["k"] == "MethodCall" and x["m"] == "len" for x in sides)
            has_ar = any(x["k"] == "MethodCall" and x["m"] == "arity" for x in sides)
            if has_len and has_ar:
                return True
    return False


def r_saturated(sh, rep):
    fj = sh.file(SH)
    for name in POSITIONAL_REDUCERS:
        fs = [fn for q, fn in all_fns(fj) if q.endswith("::" + name)]
        if not fs:
            raise AnchorMissing("fn %s in shrinker.rs" % name)
        f = fs[0]
        rep.touched(SH, "Term::" + name)
        m = find_enum_match(f, "Term", TERM_CTORS, min_hits=1)
        if m is None:
            raise AnchorMissing("match over Term in " + name)
        n_arm = 0
        for v, arm, alt in arm_table(m):
            if v != "Builtin":
                continue
            # does the arm replace the node?
            assigns = [n for n in walk(arm["body"]) if n["k"] == "Assign" and n["l"]["k"] == "Unary" and n["l"]["op"] == "*" and n["l"]["e"]["k"] == "Path" and n["l"]["e"]["p"] == "self"]
            if not assigns:
                continue
            n_arm += 1
            ok = "guard" in arm and _is_saturation_test(arm["guard"])
            if not ok:
                # an `if` whose condition holds the test and whose then-branch contains every assignment
                for n in walk(arm["body"]):
                    if n["k"] == "If" and _is_saturation_test(n["cond"]) and all(n["then"]["s"][0] <= a["s"][0] <= n["then"]["s"][2] for a in assigns):
                        ok = True
            rep.check(ok, "R02-SATURATED", "%s#Builtin-arm#saturation-test" % name, sh.loc(SH, arm), "%s rewrites a builtin node using the arguments found on arg_stack but no longer tests that the application is saturated (`arg_stack.len() == arity`): on a partial application (which builtin_curry_reducer creates by hoisting `[(builtin f) c]`) the last argument on the stack is not the builtin's last parameter, so the rewrite changes which operand is negated / folded" % name, sample={"assignments": len(assigns)})
        if n_arm == 0:
            rep.bad("R02-SATURATED", "%s#Builtin-arm#missing" % name, sh.loc(SH, f), "no rewriting Term::Builtin arm found in %s (anchor)" % name)


# ---------------------------------------------------------------------------------------------------------
# R02-BLSNAMES: the compressor's replacement variables stay in their group's namespace
# ---------------------------------------------------------------------------------------------------------
def r_blsnames(sh, rep):
    fj = sh.file(SH)
    f = [fn for q, fn in all_fns(fj) if q.endswith("::bls381_compressor")]
    if not f:
        raise AnchorMissing("fn bls381_compressor")
    rep.touched(SH, "Term::bls381_compressor")
    n = 0
    for m in matches_in(f[0]["body"]):
        for a in m["arms"]:
            src = sh.nsrc(SH, a["pat"])
            grp = "1" if "Bls12_381G1Element" in src else "2" if "Bls12_381G2Element" in src else None
            if grp is None:
                continue
            n += 1
            names = []
            for x in walk(a["body"]):
                if x["k"] == "Macro" and last(x.get("path", "")) == "format":
                    for l in walk(x.get("args", [])):
                        if l["k"] == "Lit" and l.get("lk") == "str" and l["v"].startswith("blst_p"):
                            names.append(l["v"])
                    if "tokens" in x:
                        names += [t["v"].strip('"') for t in x["tokens"] if t["t"] == "l" and t["v"].startswith('"blst_p')]
            wrong = [nm for nm in names if not nm.startswith("blst_p%s_" % grp)]
            rep.check(bool(names) and not wrong, "R02-BLSNAMES", "bls381_compressor#G%s" % grp, sh.loc(SH, a), "the arm for G%s constants replaces a constant by a variable named %s: variables of the other group are bound to points of the other curve (or not bound at all), so the optimised program fails where the original returns a value" % (grp, wrong or "nothing"), sample={"names": names})
    if n < 2:
        rep.bad("R02-BLSNAMES", "bls381_compressor#arms", sh.loc(SH, f[0]), "expected one arm per BLS group in bls381_compressor")


# ---------------------------------------------------------------------------------------------------------
# R02-CANCEL: which builtin pairs the cast reducer may cancel
# ---------------------------------------------------------------------------------------------------------
SHR = "crates/uplc/src/optimize/shrinker.rs"


def r_cancel(sh, rep, t, rid):
    """`outer(inner(x))` may be replaced by `x` only if (a) inner is total on values of its argument type — otherwise the
    rewrite removes an abort: `iData(unIData d)` aborts when d is not an integer, and that abort is how an untraced
    `expect i: Int = d` is implemented — and (b) outer is inner's inverse. (a) is read off the evaluator: the failure exits
    of the inner builtin's call arm (same extraction as R02-FOLD); (b) from the builtin names (X / UnX)."""
    f = [fn for q, fn in all_fns(sh.file(SHR)) if q.endswith("Term::cast_data_reducer")]
    if not f:
        raise AnchorMissing("Term::cast_data_reducer")
    rep.touched(SHR, "Term::cast_data_reducer")
    pairs = []
    for m in matches_in(f[0]["body"]):
        if m["e"].get("k") != "Tuple" or len(m["e"].get("es", [])) != 2:
            continue
        for a in m["arms"]:
            alts = pat_alts(a["pat"])
            pr = []
            for alt in alts:
                if alt.get("k") in ("PTuple", "Tuple") and len(alt["elems"]) == 2:
                    hs = [pat_head(e) for e in alt["elems"]]
                    if all(h and h.startswith("DefaultFunction::") for h in hs):
                        pr.append((last(hs[0]), last(hs[1]), alt))
            if pr and any(x.get("k") == "Assign" and sh.nsrc(SHR, x["l"]) == "*self" for x in walk(a["body"])):
                pairs += pr
    if len(pairs) < 4:
        raise AnchorMissing("cancelled (outer, inner) builtin pairs in cast_data_reducer (found %d)" % len(pairs))
    for outer, inner, node in pairs:
        arm = t.call.get(inner)
        # failure exits that depend on the *value*: argument-type errors cannot occur in type-checked compiler output, and
        # the arm's internal panics are invariants discharged by C10's audit
        exits = [e for e in (exits_of(sh, RT, arm) if arm else ["?no-arm"]) if e not in ("Err:TypeMismatch", "Err:NotAConstant") and not e.startswith("panic:")]
        inverse = outer == "Un" + inner or inner == "Un" + outer
        rep.check(not exits and inverse, rid, "cast_data_reducer#%s(%s x)" % (outer, inner), sh.loc(SHR, node), "cast_data_reducer rewrites `%s(%s x)` to `x`, but %s can fail on a value of its argument type (%s)%s: the rewrite turns an aborting program into a succeeding one — e.g. an untraced `expect` followed by an upcast of the result" % (outer, inner, inner, ", ".join(exits) or "-", "" if inverse else "; and the two are not inverse"), why_ok="inner builtin has no failure exit", sample={"outer": outer, "inner": inner, "inner_exits": exits})


# ---------------------------------------------------------------------------------------------------------
# R02-DELAYSCAN: when may the inliner treat a delayed branch as "will execute"
# ---------------------------------------------------------------------------------------------------------
def r_delayscan(sh, rep, rid):
    """The inliner moves a single-use binding to its use when the use `must execute` (VarLookup.delays == 0). A use inside
    `(delay ..)` is not certain to run, so Term::var_occurrences adds a delay for it. carry_args_to_branch makes one
    exception: for `if c then (delay body) else (delay error)` the body is scanned as if not delayed — sound, because the
    other outcome aborts anyway. The exception is implemented by taking the delay apart (`let Term::Delay(x) = arg`) and
    scanning `x`. Rule: a name bound to the *inside* of a branch's delay may be handed to the scan closures only under a
    test that the sibling branch's inside is Term::Error; every other path must scan the branch arguments as they came
    (delay included). Otherwise `let n = f(d); if c { use(n) } else { True }` has `f(d)` moved into the branch and a
    program that aborts (strict let) returns True when c is false."""
    f = [fn for q, fn in all_fns(sh.file(SHR)) if q.endswith("Term::carry_args_to_branch")]
    if not f:
        raise AnchorMissing("Term::carry_args_to_branch")
    fn = f[0]
    rep.touched(SHR, "Term::carry_args_to_branch")
    params = [i["pat"].get("name") for i in fn["sig"]["inputs"] if isinstance(i.get("pat"), dict)]
    closures = {p_ for p_ in params if p_ and p_.startswith("var_occurrence")}
    scanners = set(closures)
    # local closures that forward to a scan closure (combine_capped)
    for n in walk(fn["body"]):
        if n.get("k") == "Local" and n["pat"].get("k") == "Ident" and n.get("init") is not None and n["init"].get("k") == "Closure":
            if any(c.get("k") == "Call" and call_name(c) in closures for c in walk(n["init"]["body"])):
                scanners.add(n["pat"]["name"])
    # names bound to the inside of a delay: (name, position after which the name means the inside, source param)
    insides = []
    for n in walk(fn["body"]):
        if n.get("k") == "Local" and n["pat"].get("k") == "PTupleStruct" and last(n["pat"]["p"]) == "Delay" and n.get("init") is not None:
            nm = n["pat"]["elems"][0].get("name") if n["pat"]["elems"] and n["pat"]["elems"][0].get("k") == "Ident" else None
            src = re.sub(r"\.as_ref\(\)$", "", sh.nsrc(SHR, n["init"]))
            if nm:
                insides.append((nm, (n["s"][2], n["s"][3]), src))
    if len(insides) < 2:
        raise AnchorMissing("the two `let Term::Delay(..) = <branch>` destructurings in carry_args_to_branch (found %d)" % len(insides))

    def is_inside(name, pos):
        return any(nm == name and pos > after for nm, after, _ in insides)

    def error_guards(node, acc, out):
        """collect, for every scanner call, the names tested `matches!(<name>.as_ref(), Term::Error)` on the path to it"""
        if isinstance(node, dict):
            if node.get("k") == "If":
                tested = set()
                for x in walk(node["cond"]):
                    if x.get("k") == "Macro" and x.get("path") == "matches" and x.get("e") is not None and x.get("pat") is not None and (x["pat"].get("p") or "").endswith("Term::Error"):
                        tested.add(re.sub(r"\.as_ref\(\)$", "", sh.nsrc(SHR, x["e"])))
                error_guards(node["cond"], acc, out)
                error_guards(node["then"], acc | tested, out)
                error_guards(node.get("else"), acc, out)
                return
            if node.get("k") == "Call" and call_name(node) in scanners:
                out.append((node, set(acc)))
            for v in node.values():
                error_guards(v, acc, out)
        elif isinstance(node, list):
            for v in node:
                error_guards(v, acc, out)

    calls = []
    error_guards(fn["body"], set(), calls)
    n_ok = 0
    for c, guards in calls:
        pos = (c["s"][0], c["s"][1])
        for a in c["args"]:
            if a.get("k") == "Path" and is_inside(a["p"], pos):
                others = {nm for nm, _, _ in insides if nm != a["p"]} | ({a["p"]} if len({nm for nm, _, _ in insides}) == 1 else set())
                ok = bool(guards & others)
                n_ok += 1
                rep.check(ok, rid, "carry_args_to_branch#scans-delay-inside#%s#line-offset-%d" % (a["p"], n_ok), sh.loc(SHR, c), "`%s` is the inside of a branch's delay here, and it is scanned as if it were certain to execute without a test that the sibling branch is `error` (guards on this path: %s): a single-use binding is then inlined into one branch of an if/else, and when the other branch is taken the binding's abort never happens" % (a["p"], sorted(guards) or "none"), sample={"name": a["p"], "guards": sorted(guards)})
    # the exception is sound for a selector with exactly two delayed branches (the sibling *is* the only alternative);
    # chooseData has five, so `else error` says nothing about the other three
    from .btab import BuiltinTables
    tb = BuiltinTables(sh)
    sel = set()
    for n in walk(fn["body"]):
        if n.get("k") == "Arm" and n.get("guard") is not None and "wrapped_name()" in sh.nsrc(SHR, n["guard"]):
            sel |= set(re.findall(r"DefaultFunction::(\w+)\.wrapped_name\(\)", sh.nsrc(SHR, n["guard"])))
    for v in sorted(sel):
        ar = tb.arity.get(v, (None,))[0]
        rep.check(ar == 3, rid, "carry_args_to_branch#selector#%s#two-branches" % v, sh.loc(SHR, fn), "the `other branch is error, so this one runs` shortcut is applied to %s, which takes %s arguments: with more than two branches the other alternatives may be taken and the moved binding's abort is lost" % (v, ar), sample={"selector": v, "arity": ar})
    if len(sel) < 2:
        rep.bad(rid, "carry_args_to_branch#selectors", sh.loc(SHR, fn), "could not read the selector builtins of the shortcut (found %s; anchor)" % sorted(sel))
    if n_ok < 2:
        rep.bad(rid, "carry_args_to_branch#exception-sites", sh.loc(SHR, fn), "only %d scan(s) of a delay's inside found; the `else error` / `then error` exceptions are 2 (anchor)" % n_ok)


# ---------------------------------------------------------------------------------------------------------
# R02-CURRYDEF: definitions emitted by builtin_curry_reducer are closed
# ---------------------------------------------------------------------------------------------------------
def r_currydef(sh, rep, rid):
    """builtin_curry_reducer names partial applications of a builtin by the path of their arguments and hoists those that
    occur three times. The definition for a path [a1..an] is `(<name of [a1..a(n-1)]>) an`: it *uses* the name of its
    prefix. The loop that registers definitions skips non-constant arguments, so a prefix containing a variable has no
    definition of its own; a definition built on top of it refers to a name nobody binds, and the optimiser's final
    conversion to de Bruijn indices panics with FreeUnique — a compiler crash on valid input (three calls
    `slice_bytearray(x, 2, _)`). Rule: in that loop, the statement that refers to the prefix's name is preceded by a
    test-and-skip on `every remaining prefix argument is a constant`."""
    f = [fn for q, fn in all_fns(sh.file(SHR)) if q.endswith("builtin_curry_reducer")]
    if not f:
        raise AnchorMissing("builtin_curry_reducer")
    rep.touched(SHR, "Program::builtin_curry_reducer")
    loops = [n for n in walk(f[0]["body"]) if n.get("k") in ("While", "WhileLet", "Loop") and "id_vec.pop()" in sh.nsrc(SHR, n.get("cond") or n)[:200]]
    if not loops:
        loops = [n for n in walk(f[0]["body"]) if n.get("k") == "While" and "id_vec" in sh.nsrc(SHR, n["cond"])]
    loops = [l for l in loops if any(c.get("k") == "Call" and call_name(c) == "id_vec_function_to_var" for c in walk(l["body"])) and any(c.get("k") == "MethodCall" and c["m"] == "insert" for c in walk(l["body"]))]
    if not loops:
        raise AnchorMissing("the registration loop over id_vec in builtin_curry_reducer")
    lp = loops[0]
    stmts = lp["body"].get("stmts", [])
    use_idx = None
    for i, st in enumerate(stmts):
        if any(c.get("k") == "Call" and call_name(c) == "id_vec_function_to_var" for c in walk(st)):
            use_idx = i
            break
    skip_const = skip_prefix = None
    for i, st in enumerate(stmts[: use_idx if use_idx is not None else 0]):
        e = st.get("e", st)
        if e.get("k") == "If" and any(x.get("k") in ("Continue", "Break", "Return") for x in walk(e["then"])):
            c = sh.nsrc(SHR, e["cond"])
            if "Term::Constant" in c and "id_vec" in c and re.search(r"\.(any|all)\(", c):
                skip_prefix = i
            elif "Term::Constant" in c and "id_vec" not in c:
                skip_const = i
    rep.check(use_idx is not None and skip_const is not None, rid, "builtin_curry_reducer#registers-constants-only", sh.loc(SHR, lp), "the registration loop must skip non-constant arguments before it builds a definition (anchor for the rule below)", nontrivial=False)
    rep.check(use_idx is not None and skip_prefix is not None, rid, "builtin_curry_reducer#prefix-is-defined", sh.loc(SHR, stmts[use_idx]) if use_idx is not None else sh.loc(SHR, lp), "a curried definition refers to the curried name of its argument prefix (id_vec_function_to_var over the remaining id_vec) without first skipping prefixes that contain a non-constant argument: such a prefix is never defined, the hoisted definition has a free variable and aiken_optimize_and_intern's `try_from(..).unwrap()` panics (FreeUnique)", sample={"loop_statements": len(stmts)})


# ---------------------------------------------------------------------------------------------------------
# R02-FOLDOUT: what the constant folder may leave behind
# ---------------------------------------------------------------------------------------------------------
UNENCODABLE = ("Bls12_381G1Element", "Bls12_381G2Element", "Bls12_381MlResult")


def r_foldout(sh, rep, t, rid):
    """The folder replaces a saturated builtin call by its result constant. BLS group elements have no flat encoding;
    source-level element constants are rewritten into `uncompress(<bytes>)` bindings by bls381_compressor, which runs once
    *before* any folding. A foldable builtin that turns encodable arguments into an element therefore leaves a constant the
    serialiser refuses: `aiken build` panics on `hash_to_group(#"..", #"..")`. (Builtins that need an element argument
    cannot start this: after the compressor there is no element constant to feed them.)"""
    f = find_method(sh.file(SH), "DefaultFunction", "is_error_safe")
    m = next(matches_in(f["body"]))
    enc = sh.nsrc("crates/uplc/src/flat.rs", find_impls(sh.file("crates/uplc/src/flat.rs"), "Constant", trait="Encode")[0]) if find_impls(sh.file("crates/uplc/src/flat.rs"), "Constant", trait="Encode") else ""
    rep.check(all(("Constant::" + k) in enc for k in UNENCODABLE) and "notsupported" in enc.replace(" ", "").lower().replace("arenot", "not"), rid, "flat#encoder-refuses-bls-constants", "crates/uplc/src/flat.rs", "the premise of this rule — the flat encoder refuses BLS constants — could not be confirmed (anchor)", nontrivial=False)
    n = 0
    for v, arm, alt in arm_table(m):
        if v is None or v not in t.call:
            continue
        if sh.nsrc(SH, arm["body"]) == "false":
            continue
        n += 1
        body = sh.nsrc(RT, t.call[v]["body"])
        produces = [k for k in UNENCODABLE if ("Constant::%s(" % k) in body]
        consumes = [u for u in (x["m"] for x in walk(t.call[v]["body"]) if x.get("k") == "MethodCall" and x["m"].startswith("unwrap_bls")) ]
        rep.check(not produces or bool(consumes), rid, "%s#does-not-introduce-unencodable-constant" % v, sh.loc(SH, arm), "%s is foldable and builds a %s from arguments that are all encodable: the folded program carries a constant the flat encoder refuses and the compiler panics when it writes the script" % (v, "/".join(produces)), sample={"builtin": v, "produces": produces, "consumes": consumes})
    if n < 20:
        rep.bad(rid, "foldable-arms", sh.loc(SH, f), "only %d foldable arms read from is_error_safe (anchor)" % n)
