"""Shared machinery for the static rules.

Facts come from two dumb extractors:
  * engine-shape  (syn)        -> .cache/shape/<rel>.json   syntax trees
  * engine-flow   (rustc MIR)  -> .cache/flow/<crate>.jsonl resolved facts
Every judgement is made here, in Python, next to its frozen table.
"""
import json, os, re, subprocess, sys, time

VERIF = os.path.dirname(os.path.dirname(os.path.abspath(__file__)))
REPO = os.environ.get("VERIF_REPO", "/repo")
CACHE = os.environ.get("VERIF_CACHE", os.path.join(VERIF, ".cache"))
SHAPE_BIN = os.path.join(VERIF, "engine-shape", "target", "release", "engine-shape")


class AnchorMissing(Exception):
    pass


# --------------------------------------------------------------------------
# shape facts
# --------------------------------------------------------------------------
class Shape:
    def __init__(self, root=REPO, out=None):
        self.root = root
        self.out = out or os.path.join(CACHE, "shape" if root == REPO else "shape-" + re.sub(r"\W", "_", root))
        self._files = {}
        self._text = {}
        self.index = None

    def extract(self):
        if not os.path.exists(SHAPE_BIN):
            subprocess.run(
                ["cargo", "build", "--release", "--offline"],
                cwd=os.path.join(VERIF, "engine-shape"),
                check=True,
                stdout=subprocess.DEVNULL,
                stderr=subprocess.DEVNULL,
            )
        subprocess.run(["rm", "-rf", self.out])
        r = subprocess.run([SHAPE_BIN, "--root", self.root, "--out", self.out], capture_output=True, text=True)
        if r.returncode != 0:
            raise AnchorMissing("engine-shape failed: " + r.stderr.strip()[:400])
        self.index = json.load(open(os.path.join(self.out, "INDEX.json")))
        return self

    def files(self):
        return [f["file"] for f in self.index["files"] if "error" not in f]

    def file(self, rel):
        if rel not in self._files:
            p = os.path.join(self.out, rel + ".json")
            if not os.path.exists(p):
                raise AnchorMissing("file " + rel)
            self._files[rel] = json.load(open(p))
        return self._files[rel]

    def text(self, rel):
        if rel not in self._text:
            self._text[rel] = open(os.path.join(self.root, rel), encoding="utf-8").read().split("\n")
        return self._text[rel]

    def src(self, rel, node):
        """source text of a node (by span)."""
        l1, c1, l2, c2 = node["s"]
        lines = self.text(rel)
        if l1 == l2:
            return _bycol(lines[l1 - 1], c1, c2)
        out = [_bycol(lines[l1 - 1], c1, None)]
        out += lines[l1 : l2 - 1]
        out.append(_bycol(lines[l2 - 1], 0, c2))
        return "\n".join(out)

    def nsrc(self, rel, node):
        """whitespace-normalised source of a node"""
        return re.sub(r"\s+", "", self.src(rel, node))

    def loc(self, rel, node):
        return "%s:%d" % (rel, node["s"][0])


def _bycol(line, c1, c2):
    # proc-macro2 columns are in chars
    return line[c1:c2] if c2 is not None else line[c1:]


def walk(node):
    """pre-order over all dict nodes"""
    stack = [node]
    while stack:
        n = stack.pop()
        if isinstance(n, dict):
            if "k" in n:
                yield n
            for v in reversed(list(n.values())):
                if isinstance(v, (dict, list)):
                    stack.append(v)
        elif isinstance(n, list):
            for v in reversed(n):
                if isinstance(v, (dict, list)):
                    stack.append(v)


def walk_parents(node):
    """pre-order over all dict nodes, yielding (node, [ancestors, outermost first])"""
    stack = [(node, [])]
    while stack:
        n, anc = stack.pop()
        if isinstance(n, dict):
            a2 = anc
            if "k" in n:
                yield n, anc
                a2 = anc + [n]
            for v in reversed(list(n.values())):
                if isinstance(v, (dict, list)):
                    stack.append((v, a2))
        elif isinstance(n, list):
            for v in reversed(n):
                if isinstance(v, (dict, list)):
                    stack.append((v, anc))


def walk_no_closure(node):
    stack = [node]
    first = True
    while stack:
        n = stack.pop()
        if isinstance(n, dict):
            if "k" in n:
                if n["k"] == "Closure" and not first:
                    continue
                yield n
            first = False
            for v in reversed(list(n.values())):
                if isinstance(v, (dict, list)):
                    stack.append(v)
        elif isinstance(n, list):
            for v in reversed(n):
                if isinstance(v, (dict, list)):
                    stack.append(v)


def is_test_item(it):
    for a in it.get("attrs", []) or []:
        if a.startswith("cfg(test)") or a == "test" or a.startswith("cfg(all(test") or a.startswith("cfg(any(test"):
            return True
    return False


def items(filejson, include_tests=False):
    """all items, descending into inline modules; yields (modpath, item)"""

    def rec(its, mp):
        for it in its or []:
            if not include_tests and is_test_item(it):
                continue
            yield mp, it
            if it["k"] == "Mod" and it.get("items"):
                yield from rec(it["items"], mp + [it["name"]])

    yield from rec(filejson["items"], [])


def find_enum(fj, name):
    for _, it in items(fj):
        if it["k"] == "Enum" and it["name"] == name:
            return it
    raise AnchorMissing("enum %s in %s" % (name, fj["file"]))


def find_struct(fj, name):
    for _, it in items(fj):
        if it["k"] == "StructDef" and it["name"] == name:
            return it
    raise AnchorMissing("struct %s in %s" % (name, fj["file"]))


def _ty_match(ty, want):
    """self type match ignoring generics: 'Machine', 'Term<T>' vs want 'Term'; exact if want has '<'"""
    if "<" in want:
        return ty == want
    return re.sub(r"<.*$", "", ty).split("::")[-1] == want and not ty.startswith("&")


def find_impls(fj, self_ty, trait=None, any_trait=False):
    out = []
    for _, it in items(fj):
        if it["k"] != "Impl":
            continue
        if not _ty_match(it["self_ty"], self_ty):
            continue
        t = it["trait"]
        if any_trait:
            out.append(it)
        elif trait is None:
            if t is None:
                out.append(it)
        else:
            if t is not None and (t == trait or re.sub(r"<.*$", "", t).split("::")[-1] == trait if "<" not in trait else t == trait):
                out.append(it)
    return out


def find_method(fj, self_ty, name, trait=None, all_=False):
    res = []
    for im in find_impls(fj, self_ty, trait):
        for f in im["items"]:
            if f["k"] == "Fn" and f["name"] == name:
                res.append(f)
    if not res:
        raise AnchorMissing("fn %s::%s%s in %s" % (self_ty, name, " (impl %s)" % trait if trait else "", fj["file"]))
    if all_:
        return res
    if len(res) > 1:
        raise AnchorMissing("fn %s::%s ambiguous (%d) in %s" % (self_ty, name, len(res), fj["file"]))
    return res[0]


def find_fn(fj, name, all_=False):
    res = [it for _, it in items(fj) if it["k"] == "Fn" and it["name"] == name]
    if not res:
        raise AnchorMissing("fn %s in %s" % (name, fj["file"]))
    if all_:
        return res
    if len(res) > 1:
        raise AnchorMissing("fn %s ambiguous in %s" % (name, fj["file"]))
    return res[0]


def all_fns(fj, include_tests=False):
    """yields (qualname, fn) for free fns and methods"""
    for mp, it in items(fj, include_tests):
        if it["k"] == "Fn":
            yield "::".join(mp + [it["name"]]), it
        elif it["k"] == "Impl":
            if not include_tests and is_test_item(it):
                continue
            st = re.sub(r"<.*$", "", it["self_ty"])
            for f in it["items"]:
                if f["k"] == "Fn":
                    q = "::".join(mp + [st, f["name"]])
                    if it["trait"]:
                        q = "::".join(mp + ["<%s as %s>" % (st, re.sub(r"<.*$", "", it["trait"])), f["name"]])
                    yield q, f
        elif it["k"] == "Trait":
            for f in it["items"]:
                if f["k"] == "Fn" and "body" in f:
                    yield "::".join(mp + [it["name"], f["name"]]), f


def matches_in(node, scrut_pred=None):
    for n in walk(node):
        if n["k"] == "Match" and (scrut_pred is None or scrut_pred(n["e"])):
            yield n


def pat_alts(p):
    """flatten top-level or-patterns"""
    if p["k"] == "POr":
        out = []
        for c in p["cases"]:
            out += pat_alts(c)
        return out
    return [p]


def pat_head(p):
    """constructor path a pattern tests at top level, or None for wildcard/binding"""
    k = p["k"]
    if k in ("PPath", "PTupleStruct", "PStruct"):
        return p["p"]
    if k == "Ident":
        if "sub" in p:
            return pat_head(p["sub"])
        # an uppercase identifier pattern is a unit variant / const in practice
        if p["name"][:1].isupper():
            return p["name"]
        return None
    if k == "PRef":
        return pat_head(p["pat"])
    if k in ("Wild", "Rest"):
        return None
    if k == "PLit":
        return "lit:" + str(p["e"].get("v"))
    if k == "PTuple":
        return "tuple"
    if k == "PType":
        return pat_head(p["pat"])
    return "?" + k


def is_catch_all(p):
    return all(pat_head(a) is None for a in pat_alts(p)) if p["k"] == "POr" else pat_head(p) is None


def last(path):
    return path.split("::")[-1] if path else path


def arm_table(m, strip=None):
    """match -> list of (variant-last-segment or None, arm) rows, one per alternative"""
    rows = []
    for a in m["arms"]:
        for alt in pat_alts(a["pat"]):
            h = pat_head(alt)
            rows.append((last(h) if h else None, a, alt))
    return rows


def duplicate_arms(m):
    """[(variant, [arms])] for every variant that more than one arm of the match names. A match read as a table (variant ->
    row) has one row per variant; a second arm — typically a guarded one in front — is a hidden row that last-wins readers
    never see."""
    seen = {}
    for v, arm, alt in arm_table(m):
        if v is None:
            continue
        seen.setdefault(v, [])
        if not any(a is arm for a in seen[v]):
            seen[v].append(arm)
    return [(v, arms) for v, arms in seen.items() if len(arms) > 1]


def one_arm_per_variant(rep, rule, table, sh, rel, m, allow=()):
    dups = [(v, arms) for v, arms in duplicate_arms(m) if v not in allow]
    for v, arms in dups:
        rep.bad(rule, "%s#%s#second-arm" % (table, v), sh.loc(rel, arms[0]), "%s has %d arms for %s (lines %s): the rules read this match as a table with one row per variant; an extra — guarded — arm handles some values of the variant by other code than the row that was checked" % (table, len(arms), v, ", ".join(str(a["s"][0]) for a in arms)))
    rep.check(not dups, rule, "%s#one-arm-per-variant" % table, rel, "see the #second-arm reports", nontrivial=False)
    return dups


def calls_in(node, closures=True):
    it = walk(node) if closures else walk_no_closure(node)
    for n in it:
        if n["k"] in ("Call", "MethodCall", "Macro"):
            yield n


def call_name(n):
    if n["k"] == "MethodCall":
        return n["m"]
    if n["k"] == "Call":
        f = n["f"]
        if f["k"] == "Path":
            return f["p"]
        return None
    if n["k"] == "Macro":
        return n["path"] + "!"
    return None


def mentions(node, pred):
    for n in walk(node):
        if pred(n):
            return True
    return False


def paths_in(node):
    for n in walk(node):
        if n["k"] == "Path":
            yield n["p"]
        elif n["k"] == "Struct":
            yield n["p"]


def snake(name):
    s = re.sub(r"(?<=[a-z0-9])(?=[A-Z])", "_", name)
    s = re.sub(r"(?<=[A-Z])(?=[A-Z][a-z])", "_", s)
    return s.lower()


# --------------------------------------------------------------------------
# flow facts
# --------------------------------------------------------------------------
class Flow:
    """facts dumped by engine-flow; loaded lazily per crate"""

    CRATES = ["uplc", "aiken_lang", "aiken_project", "aiken"]

    def __init__(self, dir_=None):
        self.dir = dir_ or os.path.join(CACHE, "flow-facts")
        self.fns = {}  # path -> fact
        self.loaded = False

    def load(self):
        if self.loaded:
            return self
        for c in self.CRATES:
            p = os.path.join(self.dir, c + ".jsonl")
            if not os.path.exists(p):
                raise AnchorMissing("flow facts for crate %s (%s)" % (c, p))
            with open(p) as fh:
                for line in fh:
                    line = line.strip()
                    if not line:
                        continue
                    f = json.loads(line)
                    if f.get("t") == "fn":
                        # lib and bin of the same package may define the same path: keep first
                        self.fns.setdefault(f["path"], f)
                    elif f.get("t") == "meta":
                        pass
        self.loaded = True
        return self

    def fn(self, path):
        self.load()
        if path not in self.fns:
            raise AnchorMissing("flow fn " + path)
        return self.fns[path]

    def find(self, regex):
        self.load()
        r = re.compile(regex)
        return [f for p, f in self.fns.items() if r.search(p)]


# --------------------------------------------------------------------------
# reporting
# --------------------------------------------------------------------------
class Report:
    def __init__(self, prop, tier="quick"):
        self.prop = prop
        self.tier = tier
        self.t0 = time.time()
        self.instances = []  # dict(rule,key,ok,where,why,nontrivial)
        self.violations = []
        self.known_printed = []
        self.infos = []
        self.rules = {}
        self.analysed = {"files": set(), "functions": set()}
        self.assumptions = []
        self.samples = []
        self.extra = {}
        kf = json.load(open(os.path.join(VERIF, "known_findings.json")))
        self.known = {(f["property"], f["key"]): f for f in kf.get("findings", [])}
        self.used_known = set()

    # -- recording -----------------------------------------------------
    def rule(self, rid, text, floor=None):
        self.rules[rid] = {"text": text, "floor": floor, "count": 0, "violations": 0}

    def touched(self, rel=None, fn=None):
        if rel:
            self.analysed["files"].add(rel)
        if fn:
            self.analysed["functions"].add(fn)

    def ok(self, rule, key, where="", why="", nontrivial=True, sample=None):
        self._inst(rule, key, True, where, why, nontrivial, sample)

    def bad(self, rule, key, where, why, sample=None):
        self._inst(rule, key, False, where, why, True, sample)

    def check(self, cond, rule, key, where="", why_bad="", why_ok="", sample=None, nontrivial=True):
        if cond:
            self.ok(rule, key, where, why_ok, nontrivial, sample)
        else:
            self.bad(rule, key, where, why_bad, sample)
        return cond

    def _inst(self, rule, key, ok, where, why, nontrivial, sample):
        if rule not in self.rules:
            self.rules[rule] = {"text": "", "floor": None, "count": 0, "violations": 0}
        self.rules[rule]["count"] += 1
        inst = {"rule": rule, "key": key, "ok": ok, "where": where, "why": why, "nontrivial": nontrivial}
        if sample is not None:
            inst["sample"] = sample
        self.instances.append(inst)
        if not ok:
            k = (self.prop, "%s %s" % (rule, key))
            if k in self.known:
                self.used_known.add(k)
                self.known_printed.append(self.known[k])
                inst["known"] = True
            else:
                self.rules[rule]["violations"] += 1
                self.violations.append(inst)

    def anchor_missing(self, rule, what):
        self.bad(rule, "ANCHOR-MISSING " + str(what), "", "anchor not found: %s — the rule cannot run; failing closed" % what)

    def info(self, text):
        self.infos.append(text)

    def assume(self, text):
        if text not in self.assumptions:
            self.assumptions.append(text)

    def guarded(self, rule, fn):
        """run a rule body; a missing anchor fails closed"""
        try:
            fn()
        except AnchorMissing as e:
            self.anchor_missing(rule, e)
        except (KeyError, IndexError, TypeError, AttributeError, StopIteration) as e:
            import traceback

            tb = traceback.extract_tb(sys.exc_info()[2])[-1]
            self.bad(rule, "RULE-ERROR", "%s:%d" % (os.path.basename(tb.filename), tb.lineno), "rule crashed on an unexpected shape (%s: %s); failing closed" % (type(e).__name__, e))

    # -- finish ----------------------------------------------------------
    def finish(self, explanation, level_note=""):
        # floors
        for rid, r in sorted(self.rules.items()):
            if r["floor"] is not None and r["count"] < r["floor"]:
                self.bad(rid, "BELOW-FLOOR", "", "rule matched %d instances, floor is %d: a rule that matches nothing passes vacuously" % (r["count"], r["floor"]))
        # stale known findings -> info only
        for (p, k), f in self.known.items():
            if p == self.prop and (p, k) not in self.used_known:
                self.infos.append("STALE-KNOWN-FINDING (no longer fires; not an error): " + k)
        ev_path = os.path.join(os.environ.get("VERIF_EVIDENCE_DIR", os.path.join(VERIF, "evidence")), self.prop + ".json")
        for f in self.known_printed:
            pass
        seen = set()
        for f in self.known_printed:
            if f["key"] in seen:
                continue
            seen.add(f["key"])
            print("KNOWN-FINDING: property=%s %s [%s]" % (self.prop, f["what_fails"], f["key"]))
        for v in self.violations:
            print("FAIL %s %s @ %s: %s" % (v["rule"], v["key"], v["where"], v["why"]))
        nontriv = len({(i["rule"], i["key"]) for i in self.instances if i["nontrivial"]})
        samples = []
        per_rule_seen = {}
        for i in self.instances:
            c = per_rule_seen.get(i["rule"], 0)
            if c < 3:
                per_rule_seen[i["rule"]] = c + 1
                s = {"rule": i["rule"], "key": i["key"], "verdict": "ok" if i["ok"] else ("known-finding" if i.get("known") else "VIOLATION"), "where": i["where"]}
                if i.get("why"):
                    s["why"] = i["why"]
                if "sample" in i:
                    s["detail"] = i["sample"]
                samples.append(s)
        ev = {
            "property_id": self.prop,
            "tier": self.tier,
            "seed": int(os.environ.get("VERIF_SEED", "0") or 0),
            "level": "other",
            "coverage": {
                "explanation": explanation,
                "evaluations": len(self.instances),
                "distinct_nontrivial": nontriv,
                "rule": "one evaluation = one rule instance (a table row compared with its sibling row, a match arm checked for swallowed constructors, a call site checked for dominance/ownership); non-trivial = the instance was compared against an oracle row or a CFG fact rather than skipped as a leaf; distinct by (rule, key)",
                "obligations": len(self.instances),
                "discharged": len([i for i in self.instances if i["ok"]]),
                "rules": {rid: {"what": r["text"], "instances": r["count"], "floor": r["floor"], "violations": r["violations"]} for rid, r in sorted(self.rules.items())},
                "samples": samples,
                "files_analysed": sorted(self.analysed["files"]),
                "functions_analysed": sorted(self.analysed["functions"])[:400],
                "known_findings_printed": sorted(seen),
                "violations_detail": [{"rule": v["rule"], "key": v["key"], "where": v["where"], "why": v["why"]} for v in self.violations],
                "info": self.infos,
                "exhaustive": True,
                **self.extra,
            },
            "assumptions": self.assumptions + ([level_note] if level_note else []),
            "wall_s": round(time.time() - self.t0, 3),
            "violations": len(self.violations),
        }
        os.makedirs(os.path.dirname(ev_path), exist_ok=True)
        with open(ev_path, "w") as fh:
            json.dump(ev, fh, indent=1, sort_keys=False)
        print(
            "%s [%s]: %d rule instances over %d rules, %d discharged, %d known findings, %d violations (%.1fs)"
            % (self.prop, self.tier, len(self.instances), len(self.rules), ev["coverage"]["discharged"], len(seen), len(self.violations), ev["wall_s"])
        )
        if self.violations:
            print("VIOLATION property=%s replay=%s" % (self.prop, ev_path))
            return 1
        return 0


# --------------------------------------------------------------------------
# context: extraction from /repo's current working tree
# --------------------------------------------------------------------------
def tree_hash(root=REPO):
    """content hash of everything the analysis depends on"""
    import hashlib

    h = hashlib.sha256()
    paths = []
    for base in ("crates",):
        for d, dirs, files in os.walk(os.path.join(root, base)):
            dirs[:] = sorted(x for x in dirs if x not in ("target", ".git", "test_data"))
            for f in sorted(files):
                if f.endswith(".rs") or f == "Cargo.toml" or f == "build.rs":
                    paths.append(os.path.join(d, f))
    for extra in ("Cargo.toml", "Cargo.lock"):
        paths.append(os.path.join(root, extra))
    for p in paths:
        h.update(os.path.relpath(p, root).encode())
        try:
            with open(p, "rb") as fh:
                h.update(fh.read())
        except OSError:
            h.update(b"<missing>")
    return h.hexdigest()


class Ctx:
    def __init__(self, tier="quick", root=REPO):
        self.tier = tier
        self.root = root
        self.shape = None
        self.flow = None
        self._tmp = None

    def prepare(self, shape=True, flow=False):
        if shape:
            import atexit, shutil

            out = os.path.join(CACHE, "shape-%d" % os.getpid())
            self.shape = Shape(self.root, out).extract()
            atexit.register(lambda: shutil.rmtree(out, ignore_errors=True))
        if flow:
            from rules import flowrun

            self.flow = flowrun.facts(self.root, self.tier)
        return self


# --------------------------------------------------------------------------
# peg grammar (token tree of `peg::parser!`)
# --------------------------------------------------------------------------
def _lit_value(tok):
    v = tok["v"]
    if v.startswith('"'):
        try:
            return json.loads(v)  # good enough for the escapes used in grammars
        except Exception:
            return bytes(v[1:-1], "utf-8").decode("unicode_escape")
    return None


class PegRule:
    def __init__(self, name, line, toks):
        self.name = name
        self.line = line
        self.toks = toks
        self.alts = self._split(toks)

    @staticmethod
    def _split(toks):
        alts, cur = [], []
        for t in toks:
            if t["t"] == "p" and t["v"] == "/":
                alts.append(cur)
                cur = []
            else:
                cur.append(t)
        alts.append(cur)
        return [PegAlt(a) for a in alts if a]


class PegAlt:
    def __init__(self, toks):
        self.toks = toks
        self.line = toks[0]["l"]
        self.lits = []  # string literals matched, in order, at any paren depth
        self.calls = []  # rule names invoked
        self.actions = []  # brace groups (code)
        self.fallible = False
        self._scan(toks)

    def _scan(self, toks):
        i = 0
        while i < len(toks):
            t = toks[i]
            if t["t"] == "l":
                v = _lit_value(t)
                if v is not None:
                    self.lits.append(v)
            elif t["t"] == "i":
                nxt = toks[i + 1] if i + 1 < len(toks) else None
                if nxt is not None and nxt["t"] == "g" and nxt["d"] == "(":
                    self.calls.append(t["v"])
                    i += 1  # skip args group
            elif t["t"] == "g":
                if t["d"] == "{":
                    self.actions.append(t)
                    if t["c"] and t["c"][0]["t"] == "p" and t["c"][0]["v"] == "?":
                        self.fallible = True
                elif t["d"] == "(":
                    self._scan(t["c"])
                # '[' groups are character classes
            i += 1

    def action_idents(self):
        out = []

        def rec(ts):
            for t in ts:
                if t["t"] == "i":
                    out.append(t["v"])
                elif t["t"] == "g":
                    rec(t["c"])

        for a in self.actions:
            rec(a["c"])
        return out

    def action_flat(self):
        out = []

        def rec(ts):
            for t in ts:
                if t["t"] == "g":
                    out.append(t["d"])
                    rec(t["c"])
                    out.append({"(": ")", "{": "}", "[": "]", "": ""}[t["d"]])
                else:
                    out.append(t["v"])

        for a in self.actions:
            rec(a["c"])
        return out


def peg_grammar(fj, grammar_name):
    """-> dict rule name -> PegRule"""
    for _, it in items(fj):
        if it["k"] == "MacroItem" and it["path"].endswith("parser"):
            toks = it["tokens"]
            # grammar NAME ( ) for str { ... }
            for i, t in enumerate(toks):
                if t["t"] == "i" and t["v"] == "grammar" and toks[i + 1]["v"] == grammar_name:
                    body = [x for x in toks[i:] if x["t"] == "g" and x["d"] == "{"][0]["c"]
                    return _peg_rules(body)
    raise AnchorMissing("peg grammar %s in %s" % (grammar_name, fj["file"]))


def _peg_rules(body):
    rules = {}
    i = 0
    n = len(body)
    while i < n:
        t = body[i]
        if t["t"] == "i" and t["v"] == "rule":
            name = body[i + 1]["v"]
            line = t["l"]
            # skip to '=' at top level (after optional args group and -> Type)
            j = i + 2
            while j < n and not (body[j]["t"] == "p" and body[j]["v"] == "=" and not body[j].get("j") and not (body[j - 1]["t"] == "p" and body[j - 1].get("j"))):
                j += 1
            k = j + 1
            while k < n and not (body[k]["t"] == "i" and body[k]["v"] == "rule") and not (body[k]["t"] == "i" and body[k]["v"] == "pub" and k + 1 < n and body[k + 1]["v"] == "rule"):
                k += 1
            rules[name] = PegRule(name, line, body[j + 1 : k])
            rules[name].header = "".join(str(x.get("v", "")) if x["t"] != "g" else x["d"] + "…" for x in body[i + 2 : j])
            i = k
        else:
            i += 1
    return rules


# --------------------------------------------------------------------------
# family T: traversal completeness
# --------------------------------------------------------------------------
def enum_children(enum, rec_names):
    """variant -> list of field ids whose type mentions one of rec_names (children of the recursive type)"""
    out = {}
    pat = re.compile(r"(?<![A-Za-z0-9_])(%s)(?![A-Za-z0-9_])" % "|".join(re.escape(x) for x in rec_names))
    for v in enum["variants"]:
        kids = []
        for f in v["fields"]:
            if pat.search(f["ty"]):
                kids.append(f["name"])
        out[v["name"]] = kids
    return out


def pat_field_bindings(p):
    """field id -> ('bind', name) | ('ignored', None) | ('nested', pat) for a constructor pattern; plus has_rest"""
    out = {}
    rest = False
    k = p["k"]
    if k == "PRef":
        return pat_field_bindings(p["pat"])
    if k == "Ident" and "sub" in p:
        return pat_field_bindings(p["sub"])
    if k == "PStruct":
        rest = p["rest"]
        for f in p["fields"]:
            sub = f["pat"]
            out[f["name"]] = _bind_of(sub)
    elif k == "PTupleStruct":
        for i, e in enumerate(p["elems"]):
            if e["k"] == "Rest":
                rest = True
                continue
            out[str(i)] = _bind_of(e)
    return out, rest


def _bind_of(sub):
    if sub["k"] == "Ident" and "sub" not in sub:
        return ("bind", sub["name"])
    if sub["k"] == "Wild":
        return ("ignored", None)
    if sub["k"] == "PRef":
        return _bind_of(sub["pat"])
    return ("nested", sub)


def uses_name(node, name):
    for n in walk(node):
        if n["k"] == "Path" and n["p"] == name:
            return True
        if n["k"] == "Macro" and "tokens" in n and _tok_has(n["tokens"], name):
            return True
        if n["k"] == "FieldInit" and n.get("short") and n["name"] == name:
            return True
    return False


def _tok_has(toks, name):
    for t in toks:
        if t["t"] == "i" and t["v"] == name:
            return True
        if t["t"] == "g" and _tok_has(t["c"], name):
            return True
    return False


def find_enum_match(fn, enum_name, variants, min_hits=2):
    """the outermost match of a function whose arms name variants of the enum"""
    best = None
    for m in matches_in(fn["body"]):
        hits = 0
        for a in m["arms"]:
            for alt in pat_alts(a["pat"]):
                h = pat_head(alt)
                if h and last(h) in variants and (("::" not in h) or h.split("::")[-2] in (enum_name, "Self")):
                    hits += 1
        if hits >= min_hits:
            if best is None or m["s"][0] < best["s"][0]:
                best = m
            # outermost first in pre-order: stop at first
            return m
    return best


def flows_to_recursion(body, name, rec_fns):
    """does the bound child `name` reach a recursive call: as (part of) an argument / receiver of a call to one of rec_fns,
    or as the source of an iterator chain one of whose closures (or function-path arguments) makes such a call"""

    def is_rec(n):
        if n["k"] == "Call" and n["f"]["k"] == "Path" and last(n["f"]["p"]) in rec_fns:
            return True
        if n["k"] == "MethodCall" and n["m"] in rec_fns:
            return True
        return False

    def mentions_rec(n):
        for x in walk(n):
            if is_rec(x):
                return True
            if x["k"] == "Path" and last(x["p"]) in rec_fns:
                return True  # function passed by path: .map(Self::walk)
        return False

    for n in walk(body):
        if is_rec(n):
            parts = list(n["args"]) + ([n["recv"]] if n["k"] == "MethodCall" else [])
            if any(uses_name(a, name) for a in parts):
                return True
        if n["k"] == "MethodCall" and uses_name(n["recv"], name) and any(mentions_rec(a) for a in n["args"]):
            return True
        if n["k"] == "For" and uses_name(n["e"], name) and mentions_rec(n["body"]):
            return True
    # let-rebinding: let y = <expr using name>; then y flows
    for n in walk(body):
        if n["k"] == "Local" and "init" in n and n["pat"]["k"] == "Ident" and n["pat"]["name"] != name and uses_name(n["init"], name) and not mentions_rec(n["init"]):
            if flows_to_recursion(body, n["pat"]["name"], rec_fns) if n["pat"]["name"] not in _FLOW_GUARD else False:
                return True
    return False


_FLOW_GUARD = set()


def traversal_check(rep, rid, sh, rel, qual, fn, enum, rec_names, exceptions=None, require_recursion=None, match=None):
    """Family T. For every variant of `enum` with children of the recursive type: it must have an explicit arm in the
    function's match that mentions every child; a catch-all that swallows it, or an arm that ignores a child, is a violation
    unless (variant[, field]) is in `exceptions` {key: reason}."""
    exceptions = exceptions or {}
    variants = [v["name"] for v in enum["variants"]]
    kids = enum_children(enum, rec_names)
    m = match or find_enum_match(fn, enum["name"], set(variants))
    if m is None:
        raise AnchorMissing("match over %s in %s" % (enum["name"], qual))
    rep.touched(rel, qual)
    explicit = {}
    catch = None
    for a in m["arms"]:
        for alt in pat_alts(a["pat"]):
            h = pat_head(alt)
            if h is None:
                # a guarded catch-all does not swallow everything; only count unguarded ones
                if "guard" not in a:
                    catch = a
            elif last(h) in variants:
                explicit.setdefault(last(h), []).append((a, alt))
    for v in variants:
        key = "%s#%s" % (qual, v)
        if not kids[v]:
            if v in explicit or catch is not None:
                rep.ok(rid, key, sh.loc(rel, (explicit[v][0][0] if v in explicit else catch)), why="leaf constructor", nontrivial=False)
            else:
                rep.bad(rid, key + "#unhandled", sh.loc(rel, m), "%s::%s is not handled" % (enum["name"], v))
            continue
        if v not in explicit or all("guard" in a for a, _ in explicit[v]) and catch is not None and False:
            if v in exceptions:
                rep.ok(rid, key, sh.loc(rel, catch or m), why="reviewed: " + exceptions[v])
            elif catch is not None:
                rep.bad(rid, key + "#swallowed", sh.loc(rel, catch), "the catch-all arm of %s swallows %s::%s, which has sub-terms %s: the walk does not visit them" % (qual, enum["name"], v, kids[v]), sample={"fn": qual, "variant": v, "children": kids[v]})
            else:
                rep.bad(rid, key + "#unhandled", sh.loc(rel, m), "%s::%s is not handled by %s" % (enum["name"], v, qual))
            continue
        if v in exceptions:
            rep.ok(rid, key, sh.loc(rel, explicit[v][0][0]), why="reviewed: " + exceptions[v])
            continue
        # explicit arm(s): every child must be bound and mentioned in some arm for this variant
        problems = []
        for a, alt in explicit[v]:
            fb, rest = pat_field_bindings(alt) if alt["k"] in ("PStruct", "PTupleStruct", "PRef", "Ident") else ({}, True)
            for kid in kids[v]:
                ek = "%s.%s" % (v, kid)
                b = fb.get(kid)
                if b is None:
                    if ek not in exceptions:
                        problems.append("child `%s` is not bound (`..`): the arm at line %d cannot visit it" % (kid, a["s"][0]))
                elif b[0] == "ignored":
                    if ek not in exceptions:
                        problems.append("child `%s` is discarded with `_` (line %d)" % (kid, a["s"][0]))
                elif b[0] == "bind":
                    if not uses_name(a["body"], b[1]) and not ("guard" in a and uses_name(a["guard"], b[1])):
                        if ek not in exceptions:
                            problems.append("child `%s` is bound as `%s` but never used in the arm (line %d)" % (kid, b[1], a["s"][0]))
                    elif require_recursion and not flows_to_recursion(a["body"], b[1], require_recursion):
                        if ek not in exceptions:
                            problems.append("child `%s` (bound as `%s`) never reaches a recursive call to %s (line %d): the sub-term is copied or dropped instead of walked" % (kid, b[1], "/".join(sorted(require_recursion)), a["s"][0]))
            # only the first arm that could take the variant unguarded decides; guarded arms fall through
            if "guard" not in a:
                break
        if problems:
            rep.bad(rid, key + "#child-dropped", sh.loc(rel, explicit[v][0][0]), "; ".join(problems), sample={"fn": qual, "variant": v, "children": kids[v]})
        else:
            rep.ok(rid, key, sh.loc(rel, explicit[v][0][0]), sample={"fn": qual, "variant": v, "children_visited": kids[v]})
