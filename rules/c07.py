"""C07 — Pattern matching is exhaustive when accepted and first-match when run (static necessary clauses; DESIGN §3 C07). Thin."""
import re
from .lib import *

NEEDS_FLOW = True
EXPLANATION = (
    "Thin claim, three structural clauses: (1) the exhaustiveness check sits on every accepting path — infer_when calls "
    "check_when_exhaustiveness(..)? unconditionally before building the When node, over *all* clauses; the Let arm of assignments propagates "
    "check_exhaustiveness(.., true)?; Environment::check_exhaustiveness pushes every useful row, rejects a useless one as redundant and a non-empty "
    "missing set as non-exhaustive; it is the only caller of Matrix::is_useful / collect_missing_patterns besides their own helpers (MIR callers). "
    "(2) neither pattern translation (exhaustive::simplify, TreeGen::map_pattern_to_row) has a catch-all over Pattern. (3) both implementations "
    "take constructor sets from the data-type definition."
)
LEVEL_NOTE = "correctness of the usefulness algorithm, of specialisation, column choice and list-tail handling, and the agreement of the two algorithms with each other and with top-to-bottom matching — the core of the property — are not decided"

TE = "crates/aiken-lang/src/tipo/expr.rs"
ENV = "crates/aiken-lang/src/tipo/environment.rs"
EXH = "crates/aiken-lang/src/tipo/exhaustive.rs"
DT = "crates/aiken-lang/src/gen_uplc/decision_tree.rs"
AST = "crates/aiken-lang/src/ast.rs"


def run(ctx, rep):
    sh, fl = ctx.shape, ctx.flow
    rep.rule("R07-CALLED", "the exhaustiveness check is on every accepting path of `when` and `let`, over all clauses, and its error is propagated", floor=6)
    rep.rule("R07-CHECK", "Environment::check_exhaustiveness: useful row -> pushed, useless -> RedundantMatchClause, missing patterns -> NotExhaustivePatternMatch, else Ok", floor=4)
    rep.rule("R07-CALLERS", "Matrix::is_useful / collect_missing_patterns are driven only by check_exhaustiveness (and themselves)", floor=2)
    rep.rule("R07-VARIANTS", "pattern translations of both implementations have an explicit arm per Pattern variant", floor=2)
    rep.rule("R07-CTORS", "both implementations take a type's constructor set from its definition (the defining module's table); clause alternatives keep their source order", floor=4)
    rep.guarded("R07-CALLED", lambda: r_called(sh, rep))
    rep.guarded("R07-CHECK", lambda: r_check(sh, rep))
    rep.guarded("R07-CALLERS", lambda: r_callers(fl, rep))
    rep.guarded("R07-VARIANTS", lambda: r_variants(sh, rep))
    rep.guarded("R07-CTORS", lambda: r_ctors(sh, rep))
    rep.rule("R07-SEED", "decision-tree matrices: every find-by-case on case_matrices / relevant_columns that updates on a hit creates the entry on a miss (case matrices seeded from the default rows); tail rows are distributed over an inclusive range of lengths", floor=8)
    rep.guarded("R07-SEED", lambda: r_seed(sh, rep))
    rep.rule("R07-TAILPICK", "the tree run for a list of a given length is chosen among the `[.., ..tail]` cases by longest fitting prefix, never by position in the case table", floor=2)
    rep.guarded("R07-TAILPICK", lambda: r_tailpick(sh, rep))
    rep.rule("R12-TAG", "the decision tree tests the constructor index the constructor is built with (@tag if present): indices are derived only where @tag is read (shared with C12)", floor=4)

    def tag():
        from . import c12
        c12.r_tag(sh, rep)

    rep.guarded("R12-TAG", tag)
    rep.rule("R07-SITES", "two single-site clauses of the checker: a back-passed `let` stays a `let` (and stays subject to the exhaustiveness check); missing record patterns are printed with labels in field order", floor=2)
    rep.guarded("R07-SITES", lambda: r_sites7(sh, rep))
    rep.rule("R07-LEAFARGS", "a clause body hoisted out of the decision tree is called, at every leaf, with its arguments in the order of its parameters", floor=1)
    rep.guarded("R07-LEAFARGS", lambda: r_leafargs(sh, rep))
    rep.rule("R07-LITEQ", "literal patterns are told apart exactly: equality on exhaustive::Literal / Pattern is structural (derived) or, if written by hand, free of lossy conversions", floor=2)
    rep.guarded("R07-LITEQ", lambda: r_liteq(sh, rep))
    rep.guarded("R07-LITEQ", lambda: r_litcanon(sh, rep))


def r_called(sh, rep):
    fj = sh.file(TE)
    f = find_method(fj, "ExprTyper", "infer_when")
    rep.touched(TE, "ExprTyper::infer_when")
    stmts = f["body"]["stmts"]
    idx = None
    for i, st in enumerate(stmts):
        e = st.get("e") if st["k"] == "ExprStmt" else None
        if e is not None and e["k"] == "Try" and e["e"]["k"] == "MethodCall" and e["e"]["m"] == "check_when_exhaustiveness":
            idx = i
            call = e["e"]
    rep.check(idx is not None, "R07-CALLED", "infer_when#check-is-a-top-level-statement", sh.loc(TE, f), "infer_when must run `self.check_when_exhaustiveness(..)?` as an unconditional statement of its body: nested in a branch, or without `?`, a non-exhaustive `when` is accepted on some path")
    if idx is not None:
        last_e = stmts[-1].get("e") if stmts[-1]["k"] == "ExprStmt" else None
        rep.check(last_e is not None and "TypedExpr::When" in sh.nsrc(TE, last_e) and idx < len(stmts) - 1, "R07-CALLED", "infer_when#check-precedes-the-result", sh.loc(TE, stmts[idx]), "the check must precede the construction of TypedExpr::When")
        arg = sh.nsrc(TE, call["args"][0])
        whens = [n for n in walk(last_e) if n["k"] == "Struct" and last(n["p"]) == "When"] if last_e is not None else []
        built_from = None
        for w in whens:
            for fi in w["fields"]:
                if fi["name"] == "clauses":
                    built_from = sh.nsrc(TE, fi["e"])
        rep.check(built_from is not None and re.fullmatch(r"&?(mut)?%s(\[\.\.\])?" % re.escape(built_from), arg) is not None, "R07-CALLED", "infer_when#check-sees-all-clauses", sh.loc(TE, call), "the check must receive the very list of typed clauses the When node is built from (`%s`); found `%s`: a filtered or truncated list judges another `when` than the one compiled" % (built_from, arg))
        early = [n for st in stmts[:idx] for n in walk(st) if n["k"] == "Return" and "Ok(" in sh.nsrc(TE, n)]
        rep.check(not early, "R07-CALLED", "infer_when#no-early-Ok", sh.loc(TE, early[0]) if early else sh.loc(TE, f), "infer_when returns Ok before the exhaustiveness check")
    g = find_method(fj, "ExprTyper", "check_when_exhaustiveness")
    pushes = [n for n in walk(g["body"]) if n["k"] == "For"]
    okall = pushes and not any(x["k"] in ("If", "Continue", "Break") for x in walk(pushes[0]["body"]))
    chk = [c for c in walk(g["body"]) if c["k"] == "Try" and c["e"]["k"] == "MethodCall" and c["e"]["m"] == "check_exhaustiveness"]
    rep.check(bool(okall) and len(chk) == 1, "R07-CALLED", "check_when_exhaustiveness#every-clause-pattern-checked", sh.loc(TE, g), "check_when_exhaustiveness must collect the pattern of every clause (no filter) and propagate Environment::check_exhaustiveness(&patterns, ..)?")
    # let / expect
    h = find_method(fj, "ExprTyper", "infer_assignment")
    rep.touched(TE, "ExprTyper::infer_assignment")
    ms = [m for m in matches_in(h["body"]) if any((pat_head(pat_alts(a["pat"])[0]) or "").endswith("AssignmentKind::Let") for a in m["arms"])]
    if not ms:
        raise AnchorMissing("match on AssignmentKind in infer_assignment")
    for a in ms[-1]["arms"]:
        hd = last(pat_head(pat_alts(a["pat"])[0]) or "")
        if hd == "Let":
            s = sh.nsrc(TE, a["body"])
            calls = [c for c in walk(a["body"]) if c["k"] == "Try" and c["e"]["k"] == "MethodCall" and c["e"]["m"] == "check_exhaustiveness"]
            top = a["body"]
            while top["k"] == "Block" and len(top["stmts"]) == 1 and top["stmts"][0]["k"] == "ExprStmt":
                top = top["stmts"][0]["e"]
            ok = len(calls) == 1 and top is calls[0] and sh.nsrc(TE, calls[0]["e"]["args"][-1]) == "true" and "guard" not in a
            rep.check(ok, "R07-CALLED", "infer_assignment#Let#check-propagated", sh.loc(TE, a), "a `let` pattern must be accepted only through `check_exhaustiveness(&[&pattern], location, true)?` (error propagated); found `%s`" % s[:90])
        if hd == "Expect":
            s = sh.nsrc(TE, a["body"])
            rep.check("check_exhaustiveness(" in s and ".is_ok()" in s, "R07-CALLED", "infer_assignment#Expect#result-only-feeds-a-warning", sh.loc(TE, a), "`expect` may ignore the verdict (partial patterns are its purpose) but must not turn it into an error", nontrivial=False)


def r_check(sh, rep):
    f = find_method(sh.file(ENV), "Environment", "check_exhaustiveness")
    rep.touched(ENV, "Environment::check_exhaustiveness")
    loops = [n for n in walk(f["body"]) if n["k"] == "For"]
    if not loops:
        raise AnchorMissing("loop over patterns in check_exhaustiveness")
    lp = loops[0]
    rep.check("unchecked_patterns" in sh.nsrc(ENV, lp["e"]) and not any(c["k"] == "MethodCall" and c["m"] in ("skip", "take", "rev", "filter", "step_by") for c in walk(lp["e"])), "R07-CHECK", "check_exhaustiveness#rows-in-source-order", sh.loc(ENV, lp), "rows must be considered in source order over every pattern")
    ifs = [n for n in lp["body"]["stmts"] if n["k"] == "ExprStmt" and n["e"]["k"] == "If"]
    ok = False
    if ifs:
        i = ifs[-1]["e"]
        c = i["cond"]
        then = sh.nsrc(ENV, i["then"])
        els = sh.nsrc(ENV, i.get("else", {"s": [1, 0, 1, 0]})) if "else" in i else ""
        is_useful_test = c["k"] == "MethodCall" and c["m"] == "is_useful" and c["recv"]["k"] == "Path"
        mat = c["recv"]["p"] if is_useful_test else "?"
        ok = is_useful_test and re.search(re.escape(mat) + r"\.push\(", then) is not None and "RedundantMatchClause" in els and "returnErr(" in els
    rep.check(ok, "R07-CHECK", "check_exhaustiveness#useful-pushed-useless-rejected", sh.loc(ENV, lp), "a row that is useful against the rows above it must be pushed; one that is not must be reported as RedundantMatchClause (unreachable clause)")
    s = sh.nsrc(ENV, f["body"])
    rep.check(re.search(r"collect_missing_patterns\(1\)", s) is not None, "R07-CHECK", "check_exhaustiveness#missing-computed-for-one-column", sh.loc(ENV, f), "missing patterns must be collected for the single scrutinee column")
    post = [n for n in f["body"]["stmts"] if n["k"] == "ExprStmt" and n["e"]["k"] == "If" and "missing_patterns" in sh.nsrc(ENV, n["e"]["cond"])]
    okm = bool(post) and re.fullmatch(r"!\w+\.is_empty\(\)", sh.nsrc(ENV, post[0]["e"]["cond"])) is not None and "NotExhaustivePatternMatch" in sh.nsrc(ENV, post[0]["e"]["then"]) and "returnErr(" in sh.nsrc(ENV, post[0]["e"]["then"])
    rep.check(okm, "R07-CHECK", "check_exhaustiveness#non-empty-missing-is-an-error", sh.loc(ENV, f), "a non-empty set of missing patterns must be returned as Err(NotExhaustivePatternMatch)")
    laste = f["body"]["stmts"][-1]
    rep.check(sh.nsrc(ENV, laste) == "Ok(())", "R07-CHECK", "check_exhaustiveness#otherwise-Ok", sh.loc(ENV, f), "check_exhaustiveness must end in Ok(())", nontrivial=False)


def r_callers(fl, rep):
    cal = fl.callers()
    for name, allowed in (("is_useful", {"check_exhaustiveness", "is_useful", "collect_missing_patterns"}), ("collect_missing_patterns", {"check_exhaustiveness", "collect_missing_patterns", "is_useful"})):
        fs = [f for f in fl.find(r"^aiken_lang::tipo::exhaustive::Matrix::%s$" % name)]
        if not fs:
            raise AnchorMissing("flow fn Matrix::" + name)
        who = sorted({g["path"].split("::")[-1] if "closure" not in g["path"] else g.get("closure_of_path", g["path"]).split("::")[-1] for g, _ in cal.get(fs[0]["id"], [])})
        extra = [w for w in who if w not in allowed]
        rep.check(not extra, "R07-CALLERS", "Matrix::%s#callers" % name, "crates/aiken-lang/src/tipo/exhaustive.rs", "Matrix::%s is also called from %s: a second driver of the usefulness algorithm can accept what check_exhaustiveness rejects" % (name, extra), sample={"callers": who})


def r_variants(sh, rep):
    pe = find_enum(sh.file(AST), "Pattern")
    variants = {v["name"] for v in pe["variants"]}
    for rel, fn_name, finder in ((EXH, "simplify", lambda fj: find_fn(fj, "simplify")), (DT, "map_pattern_to_row", lambda fj: [fn for q, fn in all_fns(fj) if q.endswith("::map_pattern_to_row")][0])):
        f = finder(sh.file(rel))
        rep.touched(rel, fn_name)
        m = find_enum_match(f, "Pattern", variants, min_hits=3)
        if m is None:
            raise AnchorMissing("match over Pattern in " + fn_name)
        explicit, catch = set(), None
        for a in m["arms"]:
            for alt in pat_alts(a["pat"]):
                h = pat_head(alt)
                if h is None and "guard" not in a:
                    catch = a
                elif h and last(h) in variants:
                    explicit.add(last(h))
        missing = sorted(variants - explicit)
        rep.check(catch is None and not missing, "R07-VARIANTS", "%s#total-over-Pattern" % fn_name, sh.loc(rel, m), "%s %s: that pattern form is silently treated like a wildcard (or not at all) by one of the two matching implementations" % (fn_name, ("has a catch-all arm swallowing %s" % missing) if catch is not None else ("has no arm for %s" % missing)), sample={"variants": sorted(variants)})


def r_ctors(sh, rep):
    s1 = sh.nsrc(EXH, find_fn(sh.file(EXH), "simplify")["body"])
    rep.check("get_constructors_for_type(" in s1, "R07-CTORS", "simplify#constructors-from-the-type-definition", EXH, "exhaustive::simplify must obtain the alternatives of a constructor pattern from Environment::get_constructors_for_type")
    fj = sh.file(DT)
    srcs = "".join(sh.nsrc(DT, fn["body"]) for q, fn in all_fns(fj) if "body" in fn and ("map_pattern_to_row" in q or "do_build_tree" in q or "build_tree" in q))
    rep.check("lookup_data_type_by_tipo(" in srcs, "R07-CTORS", "decision_tree#constructors-from-the-type-definition", DT, "the decision-tree builder must obtain a type's constructors through lookup_data_type_by_tipo")
    # the checker's constructor sets: a type defined in another module is looked up in *that* module's table; the local
    # table (keyed by bare type name) answers only for the current module and the prelude
    ENVF = "crates/aiken-lang/src/tipo/environment.rs"
    g = find_method(sh.file(ENVF), "Environment", "get_constructors_for_type")
    rep.touched(ENVF, "Environment::get_constructors_for_type")
    mod_param = [i["pat"].get("name") for i in g["sig"]["inputs"] if isinstance(i.get("pat"), dict) and "module" in (i["pat"].get("name") or "")]
    ifs = [n for n in walk(g["body"]) if n.get("k") == "If" and n.get("else") is not None and "importable_modules" in sh.nsrc(ENVF, n["else"]) and "importable_modules" not in sh.nsrc(ENVF, n["then"])]
    if not ifs or not mod_param:
        raise AnchorMissing("the local-vs-imported branch of get_constructors_for_type")
    atoms = []

    def split(e):
        if e.get("k") == "Binary" and e["op"] in ("||", "&&"):
            split(e["l"])
            split(e["r"])
        elif e.get("k") == "Paren":
            split(e["e"])
        else:
            atoms.append(sh.nsrc(ENVF, e))

    split(ifs[0]["cond"])
    foreign = [a for a in atoms if not re.search(r"(?<![\w.])%s\b" % re.escape(mod_param[0]), a)]
    rep.check(not foreign, "R07-CTORS", "get_constructors_for_type#local-table-only-for-local-types", sh.loc(ENVF, ifs[0]), "the local constructor table is consulted under `%s`, which does not depend on the type's defining module `%s`: an imported type whose name collides with a local or prelude type gets the other type's constructors — a non-exhaustive `when` is accepted, an exhaustive one rejected" % (foreign, mod_param[0]), sample={"condition": atoms})
    # ... and *only* for the current module: the local table is keyed by the bare type name and a local declaration replaces
    # the prelude's entry of the same name (insert_type_constructor allows it), so a prelude type (module "") must not be
    # answered from it either. Every atom must be an equality of the type's module with self.current_module.
    lets = {}
    for n in walk(g["body"]):
        if n.get("k") == "Local" and isinstance(n.get("pat"), dict) and n["pat"].get("k") == "Ident" and n.get("init") is not None:
            lets.setdefault(n["pat"]["name"], n["init"])
    norm_atoms = []
    for a in atoms:
        if re.fullmatch(r"\w+", a) and a in lets and a != mod_param[0]:
            sub = []
            saved, atoms2 = atoms, []

            def split2(e):
                if e.get("k") == "Binary" and e["op"] in ("||", "&&"):
                    split2(e["l"])
                    split2(e["r"])
                elif e.get("k") == "Paren":
                    split2(e["e"])
                else:
                    atoms2.append(sh.nsrc(ENVF, e))

            split2(lets[a])
            norm_atoms += atoms2
        else:
            norm_atoms.append(a)

    def strip(a):
        return re.sub(r"\.as_str\(\)|\.as_ref\(\)|\.clone\(\)|\.to_string\(\)|[*&()]", "", a)

    mp = mod_param[0]
    want = {"%s==self.current_module" % mp, "self.current_module==%s" % mp}
    other = [a for a in norm_atoms if strip(a) not in want]
    rep.check(not other, "R07-CTORS", "get_constructors_for_type#local-table-only-for-the-current-module", sh.loc(ENVF, ifs[0]), "the current module's constructor table — keyed by bare type name, and a local type may take a prelude type's name — is consulted under `%s`, which is not `%s == self.current_module`: with a local `type Bool { Yes No Maybe }` an exhaustive `when` over the prelude Bool is rejected with `Yes`, `No`, `Maybe` reported as unmatched" % (" / ".join(other), mp), sample={"condition": norm_atoms})
    # alternatives `p1 | p2 | p3` keep their source order through type checking (both the usefulness check and the decision
    # tree read the typed list)
    TEXP = "crates/aiken-lang/src/tipo/expr.rs"
    h = find_method(sh.file(TEXP), "ExprTyper", "infer_clause_pattern")
    rep.touched(TEXP, "ExprTyper::infer_clause_pattern")
    muts = [n for n in walk(h["body"]) if n.get("k") == "MethodCall" and sh.nsrc(TEXP, n["recv"]) == "typed_patterns" and n["m"] in ("push", "extend", "insert", "append", "reverse", "rotate_left", "rotate_right", "swap", "sort", "sort_by", "sort_by_key", "extend_from_slice", "splice", "drain", "remove", "retain", "truncate", "pop")]
    loops = [n for n in walk(h["body"]) if n.get("k") == "For" and re.search(r"(?<![\w.])patterns\b", sh.nsrc(TEXP, n["e"]))]
    inside = {id(x) for lp in loops for x in walk(lp["body"])}
    stray = [n for n in muts if n["m"] != "push" or id(n) not in inside]
    rev = [lp for lp in loops if re.search(r"\.rev\(\)|\.skip\(|\.step_by\(", sh.nsrc(TEXP, lp["e"]))]
    rep.check(len(loops) == 1 and muts and not stray and not rev, "R07-CTORS", "infer_clause_pattern#alternatives-keep-source-order", sh.loc(TEXP, stray[0]) if stray else sh.loc(TEXP, h), "the typed alternatives of a clause must be pushed one by one in a single forward loop over `patterns` (found %d loop(s), stray operations %s): any other order changes which alternative is tried first, and which one the redundancy check blames" % (len(loops), [n["m"] for n in stray]), sample={"pushes": len(muts)})


# ---------------------------------------------------------------------------------------------------------
# R07-LITEQ: the usefulness algorithm specialises rows by literal equality; Aiken's Int is unbounded
# ---------------------------------------------------------------------------------------------------------
EXH = "crates/aiken-lang/src/tipo/exhaustive.rs"
LOSSY = {"parse", "to_i128", "to_u128", "to_i64", "to_u64", "to_usize", "to_isize", "try_into", "try_from", "to_f64", "len", "first", "last", "get", "hash", "to_lowercase", "to_uppercase", "trim", "chars"}


def r_litcanon(sh, rep):
    """Literal equality is exact (R07-LITEQ) on whatever spelling reaches it. The parser keeps the sign and the digits as
    written (`-0`, `0_001`), so the two matching algorithms must first bring an Int literal into one canonical spelling —
    through the same function, or the checker and the generated code disagree on which clauses are the same."""
    sites = []
    for rel, ctor in ((DT, "CaseTest::Int"), (EXH, "Literal::Int")):
        for q, f in all_fns(sh.file(rel)):
            if "body" not in f:
                continue
            for a in walk(f["body"]):
                if a.get("k") == "Arm" and any((x.get("p") or "").endswith("Pattern::Int") for x in walk(a["pat"]) if x.get("k") in ("PStruct", "PTupleStruct")):
                    for c in walk(a["body"]):
                        if c.get("k") == "Call" and call_name(c) == ctor and c["args"]:
                            sites.append((rel, q, c))
    fns = set()
    for rel, q, c in sites:
        a0 = c["args"][0]
        fn = last(call_name(a0) or "") if a0.get("k") == "Call" else None
        fns.add(fn)
        rep.check(fn is not None, "R07-LITEQ", "%s#int-literal-canonicalised" % q.split("::")[-1], sh.loc(rel, c), "%s takes an Int literal pattern as written (`%s`): `-0` and `0` (or `1` and `0_001`) are then different literals for this algorithm, and a `when` runs a later clause than the first that matches" % (q, sh.nsrc(rel, a0)), sample={"arg": sh.nsrc(rel, a0)})
    rep.check(len(sites) >= 2 and len(fns - {None}) <= 1, "R07-LITEQ", "int-literal#one-canonicalisation-for-both-algorithms", DT, "the exhaustiveness checker and the decision tree canonicalise Int literals with different functions (%s)" % sorted(x for x in fns if x), nontrivial=False)


def r_liteq(sh, rep):
    """Matrix::is_useful and specialize_row_by_literal decide `same literal?` with ==. Two literals are the same clause head
    only if they denote the same value, and Int literals are arbitrary precision: any equality that goes through a fixed
    width number (parse::<i128>, to_i64, ...) or a projection (length, prefix) identifies distinct literals — a reachable
    clause is then rejected as redundant, or a missing one is not reported."""
    fj = sh.file(EXH)
    for name in ("Literal", "Pattern"):
        en = find_enum(fj, name)
        der = ",".join(a for a in en["attrs"] if a.startswith("derive("))
        manual = [i for i in find_impls(fj, name, any_trait=True) if last(re.sub(r"<.*$", "", i.get("trait") or "")) == "PartialEq"]
        if "PartialEq" in der and not manual:
            rep.ok("R07-LITEQ", "%s#equality" % name, sh.loc(EXH, en), why="derived structural equality", sample={"derive": der})
            continue
        lossy = sorted({n["m"] for i in manual for n in walk(i) if n.get("k") == "MethodCall" and n["m"] in LOSSY} | {"as-cast" for i in manual for n in walk(i) if n.get("k") == "Cast"})
        rep.check(bool(manual) and not lossy, "R07-LITEQ", "%s#equality" % name, sh.loc(EXH, manual[0]) if manual else sh.loc(EXH, en), "equality on exhaustive::%s is hand-written and goes through %s: literals that differ only beyond that conversion compare equal, so a clause on a distinct literal is reported unreachable (Int is arbitrary precision)" % (name, lossy or "nothing (no PartialEq at all)"), sample={"lossy": lossy})


# ---------------------------------------------------------------------------------------------------------
# R07-SEED: sibling agreement of the find-or-create sites that distribute a clause row over the case matrices
# ---------------------------------------------------------------------------------------------------------
DT = "crates/aiken-lang/src/gen_uplc/decision_tree.rs"
KEYED = {"case_matrices": "default_matrix", "relevant_columns": None}


def r_seed(sh, rep):
    """do_build_tree distributes every clause row, in source order, over one matrix per case test. A row that belongs to a
    case whose matrix does not exist yet must create it — from the wildcard rows seen so far plus this row — because a later
    clause that creates the matrix builds it from the wildcard rows only: the earlier row would be missing and a later clause
    would win although an earlier one matches (first-match order). All find-by-case sites are siblings: hit -> update,
    miss -> create; a site that only handles the hit is the deviant."""
    fj = sh.file(DT)
    f = find_method(fj, "TreeGen", "do_build_tree")
    rep.touched(DT, "TreeGen::do_build_tree")
    n = 0
    for node in walk(f["body"]):
        if node.get("k") != "If" or not isinstance(node.get("cond"), dict) or node["cond"].get("k") != "LetCond":
            continue
        lc = node["cond"]
        if last(pat_head(lc["pat"]) or "") != "Some":
            continue
        init = lc["e"]
        if not (init.get("k") == "MethodCall" and init["m"] == "find"):
            continue
        base = init["recv"]
        while base.get("k") == "MethodCall":
            base = base["recv"]
        if not (base.get("k") == "Path" and base["p"] in KEYED):
            continue
        vec = base["p"]
        n += 1
        els = node.get("else")
        creates = els is not None and any(c.get("k") == "MethodCall" and c["m"] == "push" and c["recv"].get("k") == "Path" and c["recv"]["p"] == vec for c in walk(els))
        seeded = KEYED[vec] is None or (els is not None and any(x.get("k") == "Path" and x["p"] == KEYED[vec] for x in walk(els)))
        if seeded and KEYED[vec] is not None:
            # the new matrix starts from the default rows unconditionally: `let mut rows = default_matrix.clone()` (a method
            # chain on the default rows), never under a condition on the case
            inits = [x["init"] for x in walk(els) if x.get("k") == "Local" and x.get("init") is not None and any(y.get("k") == "Path" and y["p"] == KEYED[vec] for y in walk(x["init"]))]
            def root(e):
                while e.get("k") in ("MethodCall",):
                    e = e["recv"]
                return e
            seeded = bool(inits) and all(root(i).get("k") == "Path" and root(i)["p"] == KEYED[vec] for i in inits)
        rep.check(creates and seeded, "R07-SEED", "do_build_tree#%s#find-or-create#%d" % (vec, n), sh.loc(DT, node), "this lookup in `%s` handles only the hit (miss branch %s%s): a row whose case has no entry yet is dropped, and a later clause creating the entry starts from the wildcard rows alone — a list or constructor value then runs a later clause than the first one that matches" % (vec, "creates an entry" if creates else "does not create the entry", "" if seeded else ", not seeded from `%s`" % KEYED[vec]), sample={"table": vec, "line": node["s"][0]})
    # the two distribution loops: a `[.., ..tail]` row with prefix k goes into every List(n) / ListWithTail(n) matrix for
    # n from k up to *and including* the longest pattern of that kind
    nl = 0
    for node in walk(f["body"]):
        if node.get("k") == "For" and node["e"].get("k") == "Range" and node["e"].get("lo") is not None and node["e"].get("hi") is not None and "tail_case_length" in sh.nsrc(DT, node["e"]["lo"]):
            nl += 1
            hi = sh.nsrc(DT, node["e"]["hi"])
            rep.check(bool(node["e"].get("closed")) and "longest" in hi, "R07-SEED", "do_build_tree#distribution-range#%s" % hi, sh.loc(DT, node), "the row of a tail pattern must be copied into the matrices of every length from its prefix up to and including `%s` (an inclusive range): with an exclusive bound the longest fixed-length case lacks the earlier tail clause, and a list of exactly that length that fails the fixed pattern's inner test skips to a later clause" % hi, sample={"range": sh.nsrc(DT, node["e"])})
    if nl < 2:
        rep.bad("R07-SEED", "do_build_tree#distribution-loops", sh.loc(DT, f), "only %d distribution loop(s) `for n in tail_case_length..=longest_*` found, 2 confirmed by hand (anchor)" % nl)
    if n < 6:
        rep.bad("R07-SEED", "do_build_tree#sites", sh.loc(DT, f), "only %d find-or-create sites found in do_build_tree, 6 confirmed by hand (anchor)" % n)


# ---------------------------------------------------------------------------------------------------------
# R07-TAILPICK: which tail case the generated code runs for a list of n elements
# ---------------------------------------------------------------------------------------------------------
GENU7 = "crates/aiken-lang/src/gen_uplc.rs"
POSITIONAL = {"last", "first", "find", "nth", "get", "next", "position", "find_map", "rfind"}
ORDERING = {"max_by_key", "max_by", "min_by_key", "min_by", "sorted_by_key", "sorted_by", "sort_by_key", "sort_by", "max", "min"}


def _chain(n):
    """method names of a call chain, innermost first, plus the root expression and every argument expression"""
    ms, args = [], []
    while n.get("k") == "MethodCall":
        ms.append(n["m"])
        args += n["args"]
        n = n["recv"]
    return list(reversed(ms)), n, args


def r_tailpick(sh, rep):
    """TreeGen builds one matrix per case; the matrix of ListWithTail(i) holds, in source order, every clause whose prefix
    is at most i long. A list of n elements that has no fixed-length case must therefore run the tail case with the
    *largest* i <= n (and lists longer than every pattern the tail case with the largest i overall): a shorter one lacks
    the clauses in between. The case table is in order of first appearance in the source, so choosing by position
    (`.last()`, `.find(..)` over the table) picks the wrong matrix whenever the clauses are not written in ascending
    prefix order — `[a, b, ..]` before `[a, ..]` then runs the second clause for [1, 2, 3]."""
    fj = sh.file(GENU7)
    hd = [fn for q, fn in all_fns(fj) if q.endswith("CodeGenerator::handle_decision_tree")]
    if not hd:
        raise AnchorMissing("CodeGenerator::handle_decision_tree")
    rep.touched(GENU7, "CodeGenerator::handle_decision_tree")
    arms = [a for m in matches_in(hd[0]["body"]) for a in m["arms"] if any(last(pat_head(x) or "") == "ListSwitch" for x in pat_alts(a["pat"]))]
    if not arms:
        raise AnchorMissing("DecisionTree::ListSwitch arm in handle_decision_tree")
    scopes = [("handle_decision_tree", arms[0]["body"], "tail_cases")]
    # helpers that receive the table
    for c in walk(arms[0]["body"]):
        if c.get("k") == "Call" and c["f"].get("k") == "Path":
            for pos, a in enumerate(c["args"]):
                if re.sub(r"^&(mut)?", "", sh.nsrc(GENU7, a)) == "tail_cases":
                    for q, g in all_fns(fj):
                        if q.split("::")[-1] == last(c["f"]["p"]) and "body" in g and pos < len(g["sig"]["inputs"]):
                            pn = g["sig"]["inputs"][pos]["pat"].get("name")
                            if pn:
                                scopes.append((q, g["body"], pn))
    sel = 0
    for where, body, name in scopes:
        seen = set()
        for n in walk(body):
            if n.get("k") != "MethodCall" or id(n) in seen:
                continue
            ms, root, args = _chain(n)
            inner = n
            while inner.get("k") == "MethodCall":
                seen.add(id(inner))
                inner = inner["recv"]
            mentions = (root.get("k") == "Path" and root["p"] == name) or any(x.get("k") == "Path" and x["p"] == name for a in args for x in walk(a) if a.get("k") != "Closure")
            if not mentions:
                continue
            pos_ = [m for m in ms if m in POSITIONAL]
            ordd = [m for m in ms if m in ORDERING]
            if not pos_ and not ordd:
                continue
            sel += 1
            ok = bool(ordd) and (not pos_ or ms.index(ordd[0]) < ms.index(pos_[0]))
            rep.check(ok, "R07-TAILPICK", "%s#selection#%d" % (where, sel), sh.loc(GENU7, n), "a tail case is chosen from `%s` by table position (`.%s`) — the table is in order of first appearance, not of prefix length: with `[a, b, ..]` written before `[a, ..]` a list of three elements runs the clauses of `[a, ..]` only, and the first matching clause is skipped" % (name, ".".join(ms)), why_ok="chosen by prefix length (%s)" % ".".join(ordd), sample={"chain": ms})
    if sel < 2:
        rep.bad("R07-TAILPICK", "handle_decision_tree#selections", sh.loc(GENU7, arms[0]), "only %d selection(s) among the tail cases found (anchor: one for lists beyond the longest pattern, one per length)" % sel)


# ---------------------------------------------------------------------------------------------------------
# R07-LEAFARGS: positional agreement between a hoisted clause body and the leaves that call it
# ---------------------------------------------------------------------------------------------------------
def r_leafargs(sh, rep):
    """A clause reached by several branches of the decision tree is compiled once, as a function of its pattern variables;
    the parameter list is the `assigns` of the first leaf built (stored in then_map), and every leaf calls it with *its own*
    row.assigns by position (CodeGenerator::handle_decision_tree, HoistedLeaf / HoistThen). Branches expand the clause's
    columns in different orders, so a leaf's own order need not be the parameters' order: the argument list a leaf hands
    over must be derived from the stored parameter list (re-ordered by name), not be the row's list as it comes.
    `(None,_,True) (_,None,False) (Some(a),Some(b),_) -> a - b` otherwise computes b - a on one of its paths."""
    fj = sh.file(DT)
    f = find_method(fj, "TreeGen", "do_build_tree")
    rep.touched(DT, "TreeGen::do_build_tree")
    leafs = []
    for blk in walk(f["body"]):
        if blk.get("k") != "Block":
            continue
        stmts = blk.get("stmts", [])
        params = None
        for st in stmts:
            if st.get("k") == "Local" and st.get("init") is not None and "then_map.get_mut(" in sh.nsrc(DT, st["init"]):
                names = [x["name"] for x in walk(st["pat"]) if x.get("k") == "Ident"]
                params = names[0] if names else None
        if params is None:
            continue
        for c in walk(blk):
            if c.get("k") == "Call" and last(call_name(c) or "") == "HoistedLeaf" and len(c["args"]) == 2:
                leafs.append((blk, params, c))
    if not leafs:
        raise AnchorMissing("the leaf case of do_build_tree (then_map.get_mut + DecisionTree::HoistedLeaf)")
    for i, (blk, params, c) in enumerate(leafs[:1]):
        a = c["args"][1]
        asrc = sh.nsrc(DT, a)
        derived = bool(re.search(r"(?<![\w.])%s\b" % re.escape(params), asrc))
        if not derived and a.get("k") == "Path":
            loc = a["p"]
            for n in walk(blk):
                if n.get("k") == "MethodCall" and sh.nsrc(DT, n["recv"]) == loc and re.search(r"(?<![\w.])%s\b" % re.escape(params), sh.nsrc(DT, n)):
                    derived = True
                if n.get("k") == "Local" and n["pat"].get("k") == "Ident" and n["pat"]["name"] == loc and n.get("init") is not None and re.search(r"(?<![\w.])%s\b" % re.escape(params), sh.nsrc(DT, n["init"])):
                    derived = True
        rep.check(derived, "R07-LEAFARGS", "do_build_tree#leaf-arguments-follow-parameter-order", sh.loc(DT, c), "the leaf passes `%s` to the hoisted clause body without relating it to the stored parameter list `%s`: the call is positional, and two branches reaching the same clause can collect its variables in different orders — the body then runs with its variables swapped" % (asrc, params), sample={"argument_list": asrc, "parameter_list": params})


def r_sites7(sh, rep):
    """(a) ExprTyper::backpass rewrites `let p <- f(x)` into a callback whose first statement re-binds p with the same
    assignment kind. A `let` must stay a `let`: turned into an `expect` it is no longer checked for exhaustiveness and a
    refutable pattern is accepted. The kind mapping is a match on the kind: whatever arm can take `Let` yields let_(),
    and expect() comes only from arms that take nothing but `Expect`.
    (b) Pattern::pretty prints a missing constructor pattern by zipping the field labels with the argument patterns:
    the labels must be in field-index order (the order of the arguments), not in name order."""
    TEXP = "crates/aiken-lang/src/tipo/expr.rs"
    f = find_method(sh.file(TEXP), "ExprTyper", "backpass")
    rep.touched(TEXP, "ExprTyper::backpass")
    ms = [m for m in matches_in(f["body"]) if sh.nsrc(TEXP, m["e"]) == "kind" and any("AssignmentKind::" in sh.nsrc(TEXP, a["body"]) for a in m["arms"])]
    if not ms:
        raise AnchorMissing("the assignment-kind mapping in ExprTyper::backpass")
    bad = []
    for a in ms[0]["arms"]:
        heads = {last(pat_head(x) or "_") for x in pat_alts(a["pat"])}
        body = sh.nsrc(TEXP, a["body"])
        if "AssignmentKind::expect()" in body and not heads <= {"Expect"}:
            bad.append("an arm taking %s yields expect()" % sorted(heads))
        if heads & {"Let", "_"} and "unreachable" not in body and ("AssignmentKind::let_()" not in body or a.get("guard") is not None):
            bad.append("the arm taking %s does not yield let_() unconditionally" % sorted(heads))
    rep.check(not bad, "R07-SITES", "backpass#let-stays-let", sh.loc(TEXP, ms[0]), "; ".join(bad) + ": a back-passed `let` with a refutable pattern would be compiled as an `expect` and escape the exhaustiveness check")
    g = find_method(sh.file(EXH), "Pattern", "pretty")
    rep.touched(EXH, "Pattern::pretty")
    zips = [n for n in walk(g["body"]) if n.get("k") == "MethodCall" and n["m"] == "zip" and "args" in sh.nsrc(EXH, n["args"][0]) and "field" in sh.nsrc(EXH, n["recv"])]
    ok = False
    why = "no label/argument zip found"
    for z in zips:
        chain = []
        e = z["recv"]
        while e.get("k") == "MethodCall":
            chain.append(e)
            e = e["recv"]
        sorts = [c for c in chain if c["m"].startswith("sort")]
        ok = bool(sorts) and all(c["m"] in ("sorted_by", "sorted_by_key", "sort_by", "sort_by_key") and "index" in sh.nsrc(EXH, c["args"][0]) for c in sorts)
        why = "sorting steps %s" % [(c["m"], sh.nsrc(EXH, c["args"][0])[:40] if c["args"] else "") for c in sorts]
    rep.check(ok, "R07-SITES", "pretty#labels-in-field-order", sh.loc(EXH, zips[0]) if zips else sh.loc(EXH, g), "the labels of a missing record pattern are not ordered by field index before they are zipped with the argument patterns (%s): the reported pattern pairs each label with another field's sub-pattern, so it names matched values as missing" % why)
