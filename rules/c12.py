"""C12 — Blueprint schemas describe exactly what validators accept (static necessary clauses; DESIGN §3 C12)."""
import re
from .lib import *
from . import cast_rules, panic_audit

NEEDS_FLOW = True
EXPLANATION = (
    "Three implementations must agree on `type -> Data shape`: the schema generator (Annotated::do_from_type + Data::from_data_type), the schema "
    "validator (validate_schema / validate_data + expect_* helpers) and the code generator's casts (R01-CAST table). Decided: per type kind the "
    "generator names the Data class the code generator uses (spec table shared with R01-CAST) and the validator accepts exactly that PlutusData "
    "constructor; constructor indices come from `@tag` with the *declaration position* as fallback at both derivation sites; a constructor is "
    "matched on CBOR tag and general index; tuple arities are equalities; the cache key of synthesised decoders visits every type component and "
    "is injective over type constructors; validation rejects by Err, never by panic (MIR audit)."
)
LEVEL_NOTE = "`iff` for nested / recursive / generic types — that the three recursive descents agree beyond one level on every value — needs values and is not decided"

SCH = "crates/aiken-project/src/blueprint/schema.rs"
PRM = "crates/aiken-project/src/blueprint/parameter.rs"
GB = "crates/aiken-lang/src/gen_uplc/builder.rs"
GEN = "crates/aiken-lang/src/gen_uplc.rs"

# spec table: Aiken prelude type name -> schema the generator must publish (class as in cast_rules.KIND_CLASS)
PRELUDE_SCHEMA = {
    "Data": ("Opaque", r"Schema::Data\(Data::Opaque\)"),
    "ByteArray": ("B", r"Schema::bytes\(\)"),
    "Int": ("I", r"Schema::int\(\)"),
    "String": ("String", r"Schema::String"),
    "Void": ("Constr", r"Schema::void\(\)"),
    "Bool": ("Constr", r"Schema::bool\(\)"),
}
BUILDER_CLASS = {"int": ("Data::Integer", "I"), "bytes": ("Data::Bytes", "B")}
# schema node -> PlutusData constructor its validator helper must test
VALIDATOR_ACCEPTS = {
    "Opaque": ("expect_data", None), "Integer": ("expect_data_integer", "BigInt"), "Bytes": ("expect_data_bytes", "BoundedBytes"),
    "List": ("expect_data_list", "Array"), "Map": ("expect_data_map", "Map"), "AnyOf": ("expect_data_constr", "Constr"),
}


def run(ctx, rep):
    sh, fl = ctx.shape, ctx.flow
    rep.rule("R12-GEN", "schema generator: each prelude type / type constructor publishes the Data class the code generator uses for it", floor=9)
    rep.rule("R12-VAL", "schema validator: each Data schema node is checked with the helper that tests the matching PlutusData constructor", floor=6)
    rep.rule("R12-TAG", "constructor index = @tag if present, else declaration position (enumerate index), at the schema generator and at the code generator", floor=4)
    rep.rule("R12-CONSTR", "expect_data_constr matches a constructor on both the CBOR tag and the general-form index", floor=2)
    rep.rule("R18-ARITY", "tuple arity checks are equalities before the zip (shared with C18)", floor=2)
    rep.rule("R12-KEY", "push_type_identity (decoder cache key) visits every component of every type constructor and tags are unique", floor=5)
    rep.rule("R01-CAST", "to-Data / from-Data tables of the code generator agree per type kind", floor=40)
    rep.guarded("R12-GEN", lambda: r_gen(sh, rep))
    rep.guarded("R12-VAL", lambda: r_val(sh, rep))
    rep.guarded("R12-TAG", lambda: r_tag(sh, rep))
    rep.guarded("R12-CONSTR", lambda: r_constr(sh, rep))
    from . import c18, c01
    rep.guarded("R18-ARITY", lambda: c18.r_arity(sh, rep, "R18-ARITY"))
    rep.guarded("R12-KEY", lambda: r_key(sh, rep))
    rep.guarded("R12-KEY", lambda: c01.r_typekey(sh, rep))
    rep.guarded("R01-CAST", lambda: cast_rules.rule_cast(sh, rep, "R01-CAST"))
    rep.rule("R12-VARKEY", "a schema's definition key and its content resolve a bound type variable alike (the key follows every binding the content follows)", floor=2)
    rep.guarded("R12-VARKEY", lambda: r_varkey(sh, rep))
    rep.rule("R12-CONSTMAP", "constant folding to Data decides map-vs-list from the list's element type, not from its elements", floor=1)
    rep.guarded("R12-CONSTMAP", lambda: r_constmap(sh, rep))
    rep.rule("R12-PARAMSCOPE", "the schema generator binds the parameters of a nested type application in a copy of the caller's bindings", floor=1)
    rep.guarded("R12-PARAMSCOPE", lambda: r_paramscope(sh, rep))
    rep.rule("R12-SITES", "five single-site clauses: @list validator parameters are cast; synthesised decoder binders have unwritable names; the expect decoder skips a traversal only when *every* component is Data; each handler's schema definitions start from an empty table; the orphan-pair pruning records every dependent", floor=5)
    rep.guarded("R12-SITES", lambda: r_sites12(sh, rep))
    rep.rule("R12-TOTAL", "no unreviewed panic site reachable from Parameter::validate", floor=2)

    def total():
        from . import c20
        roots = c20._roots(fl, [r"^aiken_project::blueprint::parameter::Parameter::validate$"])
        panic_audit.audit(rep, "R12-TOTAL", fl, roots, "C12-validate", panic_audit.LineIndex(sh), stop=c20.STOP["C20-blueprint"], describe="Parameter::validate")

    rep.guarded("R12-TOTAL", total)


def panic_sections(fl):
    from . import c20
    return {"C12-validate": (c20._roots(fl, [r"^aiken_project::blueprint::parameter::Parameter::validate$"]), c20.STOP["C20-blueprint"])}


def r_gen(sh, rep):
    fj = sh.file(SCH)
    f = find_method(fj, "Annotated<Schema>", "do_from_type") if False else [fn for q, fn in all_fns(fj) if q.endswith("::do_from_type")][0]
    rep.touched(SCH, "Annotated::do_from_type")
    # inner match on the type name (string literal arms)
    nm = None
    for m in matches_in(f["body"]):
        lits = [a for a in m["arms"] if a["pat"]["k"] == "PLit" and a["pat"]["e"].get("lk") == "str"]
        if len(lits) >= 6:
            nm = m
            break
    if nm is None:
        raise AnchorMissing("match on prelude type names in do_from_type")
    rows = {a["pat"]["e"]["v"]: a for a in nm["arms"] if a["pat"]["k"] == "PLit"}
    for name, (cls, pat) in PRELUDE_SCHEMA.items():
        a = rows.get(name)
        if a is None:
            rep.bad("R12-GEN", "do_from_type#%s#missing" % name, sh.loc(SCH, nm), "no arm for prelude type %s" % name)
            continue
        src = sh.nsrc(SCH, a["body"])
        rep.check(re.search(pat, src) is not None, "R12-GEN", "do_from_type#%s" % name, sh.loc(SCH, a), "the schema of %s must be %s (Data class %s, as the code generator casts it); the arm builds `%s…`" % (name, pat.replace("\\", ""), cls, src[:70]), sample={"class": cls})
    # Schema::int()/bytes() builders really are Data::Integer / Data::Bytes
    for b, (want, cls) in BUILDER_CLASS.items():
        g = find_method(fj, "Schema", b)
        rep.check(want in sh.nsrc(SCH, g["body"]), "R12-GEN", "Schema::%s#is-%s" % (b, want), sh.loc(SCH, g), "Schema::%s() must be Schema::Data(%s)" % (b, want))
    # List: Map when the element is a Pair, else List(One); Tuple: List(Many); Pair: Schema::Pair
    la = rows.get("List")
    if la is not None:
        s = sh.nsrc(SCH, la["body"])
        rep.check("Schema::Pair(left,right)" in s and "Data::Map(left,right)" in s and "Data::List(Items::One(" in s, "R12-GEN", "do_from_type#List", sh.loc(SCH, la), "List<T> must publish a Map when T is a Pair (the code generator casts lists of pairs with map_data / unmap_data) and a homogeneous List otherwise")
    te = find_enum(sh.file("crates/aiken-lang/src/tipo.rs"), "Type")
    tm = find_enum_match(f, "Type", {v["name"] for v in te["variants"]})
    if tm is None:
        raise AnchorMissing("match over Type in do_from_type")
    arms = {}
    for v, arm, alt in arm_table(tm):
        if v:
            arms.setdefault(v, []).append(arm)
    want = {"Pair": "Schema::Pair(left,right)", "Tuple": "Data::List(Items::Many(elems))"}
    for v, pat in want.items():
        ok = any(pat in sh.nsrc(SCH, a["body"]) for a in arms.get(v, []))
        rep.check(ok, "R12-GEN", "do_from_type#Type::%s" % v, sh.loc(SCH, arms[v][0]) if v in arms else sh.loc(SCH, tm), "Type::%s must publish %s" % (v, pat))
    ok = any("Data::from_data_type(" in sh.nsrc(SCH, a["body"]) for a in arms.get("App", []))
    rep.check(ok, "R12-GEN", "do_from_type#Type::App", sh.loc(SCH, tm), "user data types must go through Data::from_data_type")


def r_val(sh, rep):
    fj = sh.file(PRM)
    vd = find_fn(fj, "validate_data")
    rep.touched(PRM, "validate_data")
    m = next(matches_in(vd["body"], lambda e: e["k"] == "Path" and e["p"] == "data"))
    seen = set()
    for v, arm, alt in arm_table(m):
        if v is None:
            rep.bad("R12-VAL", "validate_data#catch-all", sh.loc(PRM, arm), "catch-all arm in validate_data")
            continue
        helper, ctor = VALIDATOR_ACCEPTS.get(v, (None, None))
        if helper is None:
            rep.bad("R12-VAL", "validate_data#%s#unknown" % v, sh.loc(PRM, arm), "Data::%s is not in the specification table of schema nodes" % v)
            continue
        seen.add(v)
        called = {last(call_name(c) or "") for c in calls_in(arm["body"])}
        rep.check(helper in called, "R12-VAL", "validate_data#%s#uses-%s" % (v, helper), sh.loc(PRM, arm), "a Data::%s schema must be checked with %s (found calls %s)" % (v, helper, sorted(x for x in called if x.startswith("expect"))))
    for v, (helper, ctor) in VALIDATOR_ACCEPTS.items():
        if ctor is None:
            continue
        h = find_fn(fj, helper)
        src = sh.nsrc(PRM, h["body"])
        rep.check("PlutusData::%s" % ctor in src, "R12-VAL", "%s#tests-PlutusData::%s" % (helper, ctor), sh.loc(PRM, h), "%s must test for PlutusData::%s" % (helper, ctor), sample={"accepts": ctor})


def _enumerate_fallback(sh, rel, f):
    """-> (index variable bound by enumerate over constructors, set of `unwrap_or(X)` / else-values used as fallback)"""
    idx = None
    for n in walk(f["body"]):
        if n["k"] == "For" and "constructors" in sh.nsrc(rel, n["e"]) and "enumerate()" in sh.nsrc(rel, n["e"]) and n["pat"]["k"] == "PTuple":
            idx = n["pat"]["elems"][0].get("name")
        if n["k"] == "Closure" and n["inputs"] and n["inputs"][0]["k"] == "PTuple":
            names = [x.get("name") for x in n["inputs"][0]["elems"]]
            if names and names[0] in ("index", "ix", "i", "idx"):
                idx = idx or names[0]
    return idx


def r_tag(sh, rep):
    # schema generator
    f = [fn for q, fn in all_fns(sh.file(SCH)) if q.endswith("Data::from_data_type")][0]
    rep.touched(SCH, "Data::from_data_type")
    idx = _enumerate_fallback(sh, SCH, f)
    uo = [c for c in walk(f["body"]) if c["k"] == "MethodCall" and c["m"] == "unwrap_or" and "DecoratorKind::Tag" in sh.nsrc(SCH, c["recv"])]
    rep.check(idx is not None, "R12-TAG", "from_data_type#iterates-constructors-with-position", sh.loc(SCH, f), "Data::from_data_type must iterate `constructors.iter().enumerate()`: the declaration position is the default constructor index")
    for c in uo:
        a = sh.nsrc(SCH, c["args"][0])
        rep.check(a == idx, "R12-TAG", "from_data_type#fallback-is-declaration-position", sh.loc(SCH, c), "without `@tag` the published constructor index must be the constructor's declaration position (`%s` from enumerate), as the code generator's get_constr_index_variant does; found `unwrap_or(%s)`: a type mixing tagged and untagged constructors gets indices the validator does not use" % (idx, a), sample={"fallback": a})
    if not uo:
        rep.bad("R12-TAG", "from_data_type#consults-@tag", sh.loc(SCH, f), "Data::from_data_type no longer reads DecoratorKind::Tag with an enumerate fallback")
    # code generator
    g = find_fn(sh.file(GB), "get_constr_index_variant")
    rep.touched(GB, "get_constr_index_variant")
    src = sh.nsrc(GB, g["body"])
    rep.check(".enumerate()" in src and "DecoratorKind::Tag" in src, "R12-TAG", "get_constr_index_variant#tag-or-position", sh.loc(GB, g), "get_constr_index_variant must use @tag, else the enumerate position")
    # with a tag the index is the tag, otherwise the declaration position — read structurally: names bound to the position
    # come from a tuple pattern over an `.enumerate()` chain, names bound to the tag from a `Some(..)` pattern over an
    # expression that extracts DecoratorKind::Tag; the function must build a result tuple from each
    pos_names, tag_names, tag_locals = set(), set(), set()
    for n in walk(g["body"]):
        if n["k"] == "Local" and n.get("init") is not None and n["pat"].get("k") == "Ident" and "DecoratorKind::Tag" in sh.nsrc(GB, n["init"]):
            tag_locals.add(n["pat"]["name"])
    for n in walk(g["body"]):
        pat = init = None
        if n["k"] == "Local" and n.get("init") is not None:
            pat, init = n["pat"], n["init"]
        elif n["k"] == "LetCond":
            pat, init = n["pat"], n["e"]
        if pat is not None:
            isrc = sh.nsrc(GB, init)
            if pat.get("k") in ("PTuple", "Tuple") and ".enumerate()" in isrc and pat["elems"] and pat["elems"][0].get("k") == "Ident":
                pos_names.add(pat["elems"][0]["name"])
            if pat.get("k") == "PTupleStruct" and last(pat["p"]) == "Some" and ("DecoratorKind::Tag" in isrc or isrc in tag_locals):
                tag_names |= {x["name"] for x in walk(pat) if x.get("k") == "Ident"}
        if n["k"] == "MethodCall" and n["args"] and n["args"][0].get("k") == "Closure" and ".enumerate()" in sh.nsrc(GB, n["recv"]):
            ins = n["args"][0].get("inputs", [])
            if ins and ins[0].get("k") in ("PTuple", "Tuple") and ins[0]["elems"] and ins[0]["elems"][0].get("k") == "Ident":
                pos_names.add(ins[0]["elems"][0]["name"])
        if n["k"] == "Match" and ("DecoratorKind::Tag" in sh.nsrc(GB, n["e"]) or sh.nsrc(GB, n["e"]) in tag_locals):
            for a in n["arms"]:
                for alt in pat_alts(a["pat"]):
                    if alt.get("k") == "PTupleStruct" and last(alt["p"]) == "Some":
                        tag_names |= {x["name"] for x in walk(alt) if x.get("k") == "Ident"}
    firsts = set()
    for n in walk(g["body"]):
        if n["k"] == "Tuple" and len(n.get("es", [])) == 2:
            e0 = n["es"][0]
            while e0.get("k") in ("Unary", "Paren"):
                e0 = e0["e"]
            if e0.get("k") == "Path":
                firsts.add(e0["p"])
        if n["k"] == "MethodCall" and n["m"] in ("unwrap_or", "map_or") and n["args"] and n["args"][0].get("k") == "Path" and n["args"][0]["p"] in pos_names and ("DecoratorKind::Tag" in sh.nsrc(GB, n["recv"]) or sh.nsrc(GB, n["recv"]).split(".")[0] in tag_locals):
            firsts |= {n["args"][0]["p"]} | tag_names | {"<tag-via-unwrap_or>"}
            tag_names.add("<tag-via-unwrap_or>")
    ok = bool(pos_names & firsts) and bool(tag_names & firsts)
    rep.check(bool(ok), "R12-TAG", "get_constr_index_variant#arms", sh.loc(GB, g), "with a tag the index is the tag, otherwise the position (position bindings %s, tag bindings %s, result tuples start with %s)" % (sorted(pos_names), sorted(tag_names), sorted(firsts)))
    # every site that derives an index from @tag also consults the data type's own decorators (record sugar carries @tag on the type)
    n_sites = 0
    for rel in (SCH, GB, GEN):
        fj = sh.file(rel)
        for q, fn in all_fns(fj):
            if "body" not in fn:
                continue
            defs = {}
            for n in walk(fn["body"]):
                if n["k"] == "Local" and n["pat"]["k"] == "Ident" and n.get("init") is not None:
                    defs[n["pat"]["name"]] = sh.nsrc(rel, n["init"])
            for c in walk(fn["body"]):
                if c["k"] == "MethodCall" and c["m"] == "find_map" and c["args"] and "DecoratorKind::Tag" in sh.nsrc(rel, c["args"][0]):
                    n_sites += 1
                    recv = sh.nsrc(rel, c["recv"])
                    root = re.match(r"^&?(\w+)", recv)
                    via = defs.get(root.group(1), "") if root else ""
                    ok = "data_type.decorators" in recv or "data_type.decorators" in via
                    # … and unconditionally, like get_constr_index_variant does (constructor's decorators chained with the
                    # type's): a lookup that picks one list or the other by `constructor.sugar` misses a type-level tag on a
                    # type written with an explicit constructor
                    full = recv if "data_type.decorators" in recv else via
                    ok = ok and not re.match(r"^if", full) and ".chain(" in full
                    rep.check(ok, "R12-TAG", "%s#tag-lookup-includes-type-level-decorators" % q.split("::")[-1], sh.loc(rel, c), "%s looks for @tag in `%s` only: a record type that carries `@tag(n)` on the type itself is built and published with index n (get_constr_index_variant / Data::from_data_type read the type's decorators) but this site falls back to the position, so the three implementations disagree on the constructor index" % (q, recv[:60]), sample={"searched": recv[:80]})
    # who may turn a constructor *name* into an index: only code that also looks at @tag. Any other place of the code
    # generator that takes the position of a constructor in `data_type.constructors` matches / builds by declaration
    # order while constructors are built by tag.
    owners = 0
    for rel in sh.files():
        if not rel.startswith("crates/aiken-lang/src/gen_uplc"):
            continue
        for q, fn in all_fns(sh.file(rel)):
            if "body" not in fn:
                continue
            for c in walk(fn["body"]):
                if c["k"] == "MethodCall" and c["m"] in ("position", "find_position", "rposition", "enumerate") and "constructors" in sh.nsrc(rel, c["recv"]):
                    reads_tag = "DecoratorKind::Tag" in sh.nsrc(rel, fn["body"])
                    owners += 1 if reads_tag else 0
                    rep.check(reads_tag, "R12-TAG", "%s#constructor-position-without-@tag" % q.split("::")[-1], sh.loc(rel, c), "%s derives a constructor's index from its position in the declaration (`%s.%s`) in a function that never reads @tag: for a type with `@tag(n)` the index used here differs from the one the constructor is built with, and a `when` runs the wrong clause" % (q, sh.nsrc(rel, c["recv"])[-50:], c["m"]), why_ok="reads DecoratorKind::Tag in the same function", sample={"fn": q})
    if owners < 2:
        rep.bad("R12-TAG", "constructor-position-sites", GB, "expected get_constr_index_variant and expect_type_assign to enumerate constructors while reading @tag (found %d): the detector may be blind (anchor)" % owners)
    # siblings: every place of the code generator that rebuilds a user-type constructor applies constrData to a *computed*
    # index; a literal index is the deviant (record update rebuilt every record as constructor 0)
    lit = comp = 0
    for q, fn in all_fns(sh.file(GEN)):
        if "body" not in fn:
            continue
        for c in walk(fn["body"]):
            if c["k"] == "MethodCall" and c["m"] == "apply" and sh.nsrc(GEN, c["recv"]) == "Term::constr_data()" and c["args"]:
                a = sh.nsrc(GEN, c["args"][0])
                mlit = re.fullmatch(r"Term::integer\((\d+)\.into\(\)\)", a)
                if mlit:
                    lit += 1
                    rep.bad("R12-TAG", "%s#constrData-literal-index-%s" % (q.split("::")[-1], mlit.group(1)), sh.loc(GEN, c), "%s rebuilds a constructor with the literal index %s while its %s sibling site(s) compute the index (get_constr_index_variant): a type carrying `@tag(n)` is rebuilt under another index than it is constructed and decoded with" % (q, mlit.group(1), "other"), sample={"arg": a})
                else:
                    comp += 1
                    rep.ok("R12-TAG", "%s#constrData-computed-index#%d" % (q.split("::")[-1], comp), sh.loc(GEN, c), sample={"arg": a[:60]})
    if comp < 3:
        rep.bad("R12-TAG", "constrData-sites", GEN, "expected at least 3 constrData sites with a computed index in gen_uplc.rs (found %d; anchor)" % comp)
    # the schema generator's @list test is the code generator's: the type's decorators, nothing about how the type is written
    sg = [fn for q, fn in all_fns(sh.file(SCH)) if q.endswith("Data::from_data_type")][0]
    sg_locals = {n["pat"]["name"]: sh.nsrc(SCH, n["init"]) for n in walk(sg["body"]) if n["k"] == "Local" and n["pat"].get("k") == "Ident" and n.get("init") is not None}

    def cond_src(n):
        c = sh.nsrc(SCH, n["cond"])
        # a condition given a name (`let is_list = ..; if is_list`) is read through the name
        for name, init in sg_locals.items():
            if re.search(r"(?<![\w.])%s\b" % re.escape(name), c):
                c += " " + init
        return c

    lst = [n for n in walk(sg["body"]) if n["k"] == "If" and "DecoratorKind::List" in cond_src(n)]
    rep.check(bool(lst) and all(".sugar" not in cond_src(n) for n in lst), "R12-TAG", "from_data_type#@list-does-not-depend-on-sugar", sh.loc(SCH, lst[0]) if lst else SCH, "the schema generator honours `@list` only for types written with the record sugar; the code generator represents every `@list` type as a list, so for `type T { C { .. } }` the blueprint publishes a constructor the validator never accepts")
    if n_sites < 3:
        rep.bad("R12-TAG", "tag-sites#found", GEN, "expected three @tag lookups (schema generator, get_constr_index_variant, expect decoder), found %d" % n_sites)


def r_constr(sh, rep):
    f = find_fn(sh.file(PRM), "expect_data_constr")
    rep.touched(PRM, "expect_data_constr")
    src = sh.nsrc(PRM, f["body"])
    rep.check(re.search(r"(\w+)\.tag==(\w+)\.tag", src) is not None and re.search(r"(\w+)\.tag==(\w+)\.tag", src).group(1) != re.search(r"(\w+)\.tag==(\w+)\.tag", src).group(2), "R12-CONSTR", "expect_data_constr#compares-tag", sh.loc(PRM, f), "expect_data_constr must compare the CBOR tag of the expected constructor (UplcData::constr(index)) with the datum's")
    rep.check(re.search(r"(\w+)\.any_constructor==(\w+)\.any_constructor", src) is not None and re.search(r"(\w+)\.any_constructor==(\w+)\.any_constructor", src).group(1) != re.search(r"(\w+)\.any_constructor==(\w+)\.any_constructor", src).group(2), "R12-CONSTR", "expect_data_constr#compares-general-index", sh.loc(PRM, f), "expect_data_constr must also compare `any_constructor`: every constructor index >= 128 shares CBOR tag 102, so the tag alone accepts any of them where the validator accepts exactly one")
    rep.check("constr(indexasu64" in src or "constr(index" in src, "R12-CONSTR", "expect_data_constr#expected-built-by-Data::constr", sh.loc(PRM, f), "the expected constructor must be built by Data::constr(index), the encoder the code generator uses", nontrivial=False)


def r_key(sh, rep):
    f = find_fn(sh.file(GEN), "push_type_identity")
    ten = find_enum(sh.file("crates/aiken-lang/src/tipo.rs"), "Type")
    traversal_check(rep, "R12-KEY", sh, GEN, "push_type_identity", f, ten, ["Type"], require_recursion={"push_type_identity"}, exceptions={"Var": "delegates to the linked type inside the RefCell (checked by the #delegates instance)"})


# ---------------------------------------------------------------------------------------------------------
# R12-VARKEY: definitions are stored under Reference::from_type(t) and filled by Annotated::do_from_type(t)
# ---------------------------------------------------------------------------------------------------------
DEFS = "crates/aiken-project/src/blueprint/definitions.rs"


def _var_arm(sh, rel, fn):
    ten = find_enum(sh.file("crates/aiken-lang/src/tipo.rs"), "Type")
    m = find_enum_match(fn, "Type", {v["name"] for v in ten["variants"]})
    if m is None:
        raise AnchorMissing("match over Type in %s" % fn["name"])
    arms = [arm for v, arm, alt in arm_table(m) if v == "Var"]
    if not arms:
        raise AnchorMissing("Type::Var arm in %s" % fn["name"])
    return arms[0]


def _conds(sh, rel, node):
    out = set()
    for n in walk(node):
        if n.get("k") == "If" and isinstance(n.get("cond"), dict):
            for c in ([n["cond"]] if n["cond"].get("k") != "Binary" or n["cond"].get("op") != "&&" else [n["cond"]["l"], n["cond"]["r"]]):
                if c.get("k") != "LetCond":
                    out.add(sh.nsrc(rel, c))
        if n.get("k") == "Arm" and n.get("guard"):
            out.add(sh.nsrc(rel, n["guard"]))
    return out


def r_varkey(sh, rep):
    """Definitions::register stores a schema under the key Reference::from_type(t, params) and fills it with
    Annotated::do_from_type(t, params). For a type variable both look the binding up in `params`. They must follow the same
    bindings: if the key stops at a binding the content follows (say, a variable bound to another variable), the key of
    `Inner<b>` no longer depends on the instantiation while its content does — the first instantiation's schema is
    published for all of them, and the schema admits values the compiled `expect` refuses. Sibling rule: every condition
    under which the key declines to follow a binding is also a condition of the content generator."""
    kf = find_method(sh.file(DEFS), "Reference", "from_type")
    cf = find_method(sh.file(SCH), "Annotated", "do_from_type")
    rep.touched(DEFS, "Reference::from_type")
    rep.touched(SCH, "Annotated::do_from_type")
    ka, ca = _var_arm(sh, DEFS, kf), _var_arm(sh, SCH, cf)
    follows = [c for c in walk(ka["body"]) if c.get("k") == "Call" and last(call_name(c) or "") == "from_type"]
    looks = [c for c in walk(ka["body"]) if c.get("k") == "MethodCall" and c["m"] == "get" and "type_parameters" in sh.nsrc(DEFS, c["recv"])]
    rep.check(len(looks) == 1 and len(follows) >= 2, "R12-VARKEY", "key#looks-up-and-follows", sh.loc(DEFS, ka), "the Var arm of Reference::from_type must look the variable up in type_parameters and recurse on the binding (lookups %d, recursive calls %d)" % (len(looks), len(follows)), sample={"lookups": len(looks), "recursions": len(follows)})
    kc = {re.sub(r"^!", "", c) for c in _conds(sh, DEFS, ka["body"])}
    cc = {re.sub(r"^!", "", c) for c in _conds(sh, SCH, ca["body"])}
    extra = sorted(kc - cc)
    rep.check(not extra, "R12-VARKEY", "key#no-condition-the-content-lacks", sh.loc(DEFS, ka), "Reference::from_type declines to follow a type-variable binding under %s, a condition Annotated::do_from_type does not have: key and content of a generic definition then depend on different things" % extra, sample={"key_conditions": sorted(kc), "content_conditions": sorted(cc)})


# ---------------------------------------------------------------------------------------------------------
# R12-CONSTMAP: convert_constants_to_data — a constant list of pairs is a Data map, also when it is empty
# ---------------------------------------------------------------------------------------------------------
def r_constmap(sh, rep):
    """A `Pairs<k, v>` constant becomes Data::map, any other list Data::list. An empty list has no first element, so the
    only thing that tells `[]: Pairs<..>` from `[]: List<..>` is the element type carried by the ProtoList constant:
    the arm must bind it and the map/list decision must depend on it (and on nothing about the elements)."""
    f = find_fn(sh.file(GB), "convert_constants_to_data")
    rep.touched(GB, "convert_constants_to_data")
    arms = [a for m in matches_in(f["body"]) for a in m["arms"] if any(last(pat_head(x) or "") == "ProtoList" for x in pat_alts(a["pat"]))]
    if not arms:
        raise AnchorMissing("ProtoList arm in convert_constants_to_data")
    arm = arms[0]
    pat = [x for x in pat_alts(arm["pat"]) if last(pat_head(x) or "") == "ProtoList"][0]
    elems = pat.get("elems") or pat.get("args") or []
    ty = elems[0].get("name") if elems and elems[0].get("k") == "Ident" else None
    items = elems[1].get("name") if len(elems) > 1 and elems[1].get("k") == "Ident" else None
    decide = []
    for n in walk(arm["body"]):
        if n.get("k") == "If":
            src = sh.nsrc(GB, n["cond"])
            branches = sh.nsrc(GB, n["then"]) + "|" + (sh.nsrc(GB, n["else"]) if n.get("else") else "")
            if re.search(r"Data::map|PlutusData::Map", branches) and re.search(r"Data::list|PlutusData::Array", branches):
                decide.append(src)
    ok = ty is not None and len(decide) == 1 and re.search(r"\b%s\b" % re.escape(ty), decide[0]) and not (items and re.search(r"\b%s\b" % re.escape(items), decide[0]))
    rep.check(bool(ok), "R12-CONSTMAP", "ProtoList#map-iff-element-type-is-pair", sh.loc(GB, arm), "the map-vs-list decision `%s` must test the list's element type (binding `%s`) and not its elements (`%s`): an empty Pairs constant nested in a constant container is otherwise folded to an empty list, which `expect` and the blueprint schema both refuse" % (decide[0] if decide else "<none found>", ty, items), sample={"decision": decide[:1], "type_binding": ty})


def r_sites12(sh, rep):
    """(a) CodeGenerator::expect_type_assign may return its continuation without emitting checks only when there is nothing to
    check: the component type is Data — for a type with several components, *all* of them (`.all(..)`), never `.any(..)`.
    (b) Validator::create_validator_blueprint derives the schemas of one handler in a table of its own: the table is
    rewritten at the end of each handler (pairs -> lists), and the `List<Pair>` = map detection of the next handler
    needs to see the original Pair definitions.
    (c) Definitions::prune_orphan_pairs removes a Pair definition when nothing uses it; `mark` must record every user of
    a definition, not the first one only (the first may itself be pruned)."""
    f = [fn for q, fn in all_fns(sh.file(GEN)) if q.endswith("CodeGenerator::expect_type_assign")]
    if not f:
        raise AnchorMissing("CodeGenerator::expect_type_assign")
    shortcuts = []
    for n in walk(f[0]["body"]):
        if n["k"] == "If":
            st = n["then"].get("stmts", [])
            if len(st) == 1 and re.fullmatch(r"(return)?then;?", sh.nsrc(GEN, st[0])):
                shortcuts.append(n)
    bad = [sh.nsrc(GEN, n["cond"]) for n in shortcuts if ".any(" in sh.nsrc(GEN, n["cond"]) or "is_data()" not in sh.nsrc(GEN, n["cond"])]
    rep.check(bool(shortcuts) and not bad, "R12-SITES", "expect_type_assign#shortcut-only-when-all-data", sh.loc(GEN, shortcuts[0]) if shortcuts else sh.loc(GEN, f[0]), "expect_type_assign returns its continuation without checks under `%s`: for a map with a typed key or value the typed side is then never checked, and the compiled `expect` accepts values the published schema rejects" % bad, sample={"shortcuts": len(shortcuts)})
    VAL = "crates/aiken-project/src/blueprint/validator.rs"
    g = find_method(sh.file(VAL), "Validator", "create_validator_blueprint")
    rep.touched(VAL, "Validator::create_validator_blueprint")
    takes = [i for i in g["sig"]["inputs"] if "Definitions" in (i.get("ty") or "")]
    fresh = [n for n in walk(g["body"]) if n["k"] == "Local" and n.get("init") is not None and sh.nsrc(VAL, n["init"]) == "Definitions::new()"]
    rep.check(not takes and len(fresh) == 1, "R12-SITES", "create_validator_blueprint#fresh-definitions-per-handler", sh.loc(VAL, g), "each handler must derive its schemas in a Definitions table created inside create_validator_blueprint (found %d parameter(s) of that type, %d fresh table(s)): a table shared between handlers has already had its Pair definitions rewritten when the next handler looks for `List<Pair>` maps" % (len(takes), len(fresh)))
    # (d) the validator's parameters are cast from Data like every other value of their type: a `@list` type needs its
    # unListData although it is a user type
    cv = find_fn(sh.file(GB), "cast_validator_args")
    rep.touched(GB, "cast_validator_args")
    rep.check("DecoratorKind::List" in sh.nsrc(GB, cv["body"]) and "known_data_to_type(" in sh.nsrc(GB, cv["body"]), "R12-SITES", "cast_validator_args#@list-parameters-are-cast", sh.loc(GB, cv), "cast_validator_args decides from the UPLC type alone whether a parameter needs a cast: a parameter of an `@list` type (a user type represented as a list) stays Data, `blueprint apply` accepts a conforming value and the applied validator dies on its first field access")
    # (e) binders the decoder synthesises next to user-named ones carry names a user cannot write
    lits = []
    for n in walk(f[0]["body"]):
        if n["k"] == "Lit" and n.get("lk") == "str" and re.fullmatch(r"_*(then|otherwise)_delayed", n["v"]):
            lits.append(n)
    badn = sorted({n["v"] for n in lits if not n["v"].startswith("__")})
    rep.check(bool(lits) and not badn, "R12-SITES", "expect_type_assign#synthesised-binders-are-unwritable", sh.loc(GEN, lits[0]) if lits else sh.loc(GEN, f[0]), "the hoisted decoder names its continuation parameters %s, which are legal field labels: a record with such a field rebinds the continuation and `expect` rejects every value of the type" % badn, sample={"names": sorted({n["v"] for n in lits})})
    h = find_method(sh.file(DEFS), "Definitions", "prune_orphan_pairs")
    rep.touched(DEFS, "Definitions::prune_orphan_pairs")
    ins = [n for n in walk(h["body"]) if n["k"] == "MethodCall" and n["m"] == "insert" and sh.nsrc(DEFS, n["recv"]) == "dependencies"]
    ok = False
    for n in walk(h["body"]):
        if n["k"] == "If" and any(x is i for i in ins for x in walk(n["then"])):
            c = n["cond"]
            ok = c.get("k") == "LetCond"  # nothing but the lookup itself decides
    rep.check(bool(ins) and ok, "R12-SITES", "prune_orphan_pairs#records-every-dependent", sh.loc(DEFS, ins[0]) if ins else sh.loc(DEFS, h), "the usage table must record every dependent of a referenced definition (the insert sits under a condition besides the lookup): a Pair whose first recorded user is itself pruned disappears while a surviving definition still refers to it")


def r_paramscope(sh, rep):
    """Annotated::do_from_type resolves a type variable through `type_parameters`; entering a type application it binds that
    type's own parameters (collect_type_parameters). Those bindings belong to the nested definition only: made in the
    caller's map they survive the call, and when the nested type is the caller's own type at another instantiation
    (`P<P<Int>>`, `type P<a> { x: a, y: a }`) the caller's remaining fields are resolved with the inner binding — the
    published schema of `y` is Int where the validator expects P<Int>. Rule: the map handed to collect_type_parameters is a
    local copy (`let mut m = <params>.clone()`), not the function's own parameter."""
    f = find_method(sh.file(SCH), "Annotated", "do_from_type")
    rep.touched(SCH, "Annotated::do_from_type")
    params = {i["pat"].get("name") for i in f["sig"]["inputs"] if isinstance(i.get("pat"), dict)}
    calls = [c for c in walk(f["body"]) if c["k"] == "Call" and call_name(c) == "collect_type_parameters" and c["args"]]
    if not calls:
        raise AnchorMissing("collect_type_parameters call in Annotated::do_from_type")
    for i, c in enumerate(calls):
        a0 = re.sub(r"^&mut", "", sh.nsrc(SCH, c["args"][0]))
        copies = [n for n in walk(f["body"]) if n["k"] == "Local" and n["pat"].get("k") == "Ident" and n["pat"]["name"] == a0 and n.get("init") is not None and sh.nsrc(SCH, n["init"]).endswith(".clone()") and (n["s"][0], n["s"][1]) < (c["s"][0], c["s"][1])]
        rep.check(bool(copies), "R12-PARAMSCOPE", "do_from_type#nested-bindings-in-a-copy#%d" % i, sh.loc(SCH, c), "collect_type_parameters writes the nested type's parameter bindings into `%s`, the caller's own map: after the call the caller resolves its remaining fields with the nested instantiation (P<P<Int>> publishes the second field as Int)" % a0, sample={"map": a0, "is_fn_parameter": a0 in params})
