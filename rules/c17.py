"""C17 — Parallel test runs are isolated and schedule-independent (static necessary clauses; DESIGN §3 C17)."""
import re
from .lib import *
from . import flowrun, panic_audit
from .flowrun import dominators, return_blocks

NEEDS_FLOW = True
EXPLANATION = (
    "The sharing the property forbids is a structural fact: non-atomic Rc counts may only be touched by one thread. Decided: the set of "
    "`unsafe impl Send/Sync` and the Rc-bearing fields of the types they cover are the reviewed ones; every unit test's typed assertion is taken "
    "out, unconditionally, before the parallel section, which is an indexed map+collect; on the worker side no whole-test clone/drop other than "
    "the reviewed one and no clone/drop of AST-shared types (MIR drop/clone facts of the worker functions); Constant::deep_clone / "
    "Type::deep_clone rebuild every Rc-bearing child and swallow only Rc-free variants; the constant cache stores no Rc and hands out only "
    "deep copies; no static holds an Rc."
)
LEVEL_NOTE = "no schedule is explored: the argument is that the shared allocation does not exist. Aliasing invisible to the type-level classification (an Rc<Constant> shared through a path outside the cache and the generator reset) is not decided"

TF = "crates/aiken-lang/src/test_framework.rs"
PL = "crates/aiken-project/src/lib.rs"
AST = "crates/uplc/src/ast.rs"
GEN = "crates/aiken-lang/src/gen_uplc.rs"

SEND_REVIEWED = {
    (TF, "Test", "Send"), (TF, "UnitTest", "Send"), (TF, "PropertyTest", "Send"), (TF, "Benchmark", "Send"),
    (TF, "TestResult", "Send"), (TF, "UnitTestResult", "Send"), (TF, "PropertyTestResult", "Send"),
    (TF, "BenchmarkResult", "Send"), (TF, "BenchmarkResult", "Sync"),
    ("crates/aiken-project/src/blueprint/error.rs", "Error", "Send"), ("crates/aiken-project/src/blueprint/error.rs", "Error", "Sync"),
}
# Rc surface of the test types that cross threads: field -> why it is safe
SURFACE_REVIEWED = {
    "aiken_lang::test_framework::UnitTest.assertion": "taken out before the parallel section (R17-TAKE); None on workers",
    "aiken_lang::test_framework::UnitTest.program": "program-owned Rc nodes, rebuilt per program by the final de Bruijn round trip; generator state reset (C09)",
    "aiken_lang::test_framework::PropertyTest.fuzzer": "Fuzzer: program-owned term + two Rc<Type> that are moved with the test and never cloned on a worker (R17-WORKER)",
    "aiken_lang::test_framework::PropertyTest.program": "program-owned",
    "aiken_lang::test_framework::Benchmark.sampler": "as Fuzzer",
    "aiken_lang::test_framework::Benchmark.program": "program-owned",
    "aiken_lang::test_framework::Fuzzer.program": "program-owned",
    "aiken_lang::test_framework::Fuzzer.type_info": "moved with the test; not cloned or dropped on a worker (R17-WORKER); dropped on the main thread after reify",
    "aiken_lang::test_framework::Fuzzer.stripped_type_info": "as type_info",
    "aiken_lang::test_framework::Sampler.program": "program-owned",
    "aiken_lang::test_framework::Sampler.type_info": "as Fuzzer.type_info",
    "aiken_lang::test_framework::Sampler.stripped_type_info": "as Fuzzer.type_info",
}
AST_SHARED = re.compile(r"tipo::Type\b|expr::TypedExpr|test_framework::Assertion|test_framework::(UnitTest|PropertyTest|Benchmark|Fuzzer|Sampler|Test)\b")
WORKER_FNS = re.compile(r"^aiken_lang::test_framework::(Test::run|UnitTest::run|PropertyTest::(run|run_n_times|run_once|eval)|Benchmark::(run|eval)|Prng::\w+|Cache::<.*>::\w+|Counterexample::<.*>::\w+|Fuzzer::<.*>::\w+|Sampler::<.*>::\w+)$")
# (worker fn, "clone"/"drop", type) -> reason
WORKER_REVIEWED = {
    ("aiken_lang::test_framework::UnitTest::run", "clone", "test_framework::UnitTest"): "self.to_owned() for the result: the only Rc<Type>-bearing field, `assertion`, is None here (R17-TAKE)",
    ("aiken_lang::test_framework::UnitTest::run", "drop", "test_framework::UnitTest"): "drops `self` after cloning it; assertion is None (R17-TAKE), the program is program-owned",
}


def run(ctx, rep):
    fl, sh = ctx.flow, ctx.shape
    rep.rule("R17-SEND", "the set of `unsafe impl Send/Sync` is the reviewed one", floor=11)
    rep.rule("R17-SURFACE", "Rc-bearing fields of the test types that cross threads are the reviewed ones", floor=10)
    rep.rule("R17-TAKE", "run_runnables takes every unit test's assertion, unconditionally, before the parallel section; the section is an indexed into_par_iter().map().collect()", floor=4)
    rep.rule("R17-WORKER", "worker-side functions clone/drop no AST-shared type and no whole test, except the reviewed UnitTest::run copy", floor=2)
    rep.rule("R17-DEEP", "Constant::deep_clone / Type::deep_clone rebuild every Rc-bearing child and swallow only Rc-free variants", floor=8)
    rep.rule("R17-FRESH", "the constant cache stores no Rc and a cached constant leaves it only through deep_clone", floor=3)
    rep.rule("R17-STATIC", "no static item holds an Rc", floor=1)
    rep.rule("R17-TLS", "no static or thread-local holds an Rc (or a type built from one): programs are generated on one thread and run on others, and a process- or thread-wide Rc node is shared by every program that mentions it", floor=3)
    rep.guarded("R17-TLS", lambda: r_tls(ctx.shape, rep))
    rep.guarded("R17-SEND", lambda: r_send(sh, rep))
    rep.guarded("R17-SURFACE", lambda: r_surface(fl, rep))
    rep.guarded("R17-TAKE", lambda: r_take(fl, sh, rep))
    rep.guarded("R17-WORKER", lambda: r_worker(fl, rep))
    rep.guarded("R17-DEEP", lambda: r_deep(fl, sh, rep))
    rep.guarded("R17-FRESH", lambda: r_fresh(fl, sh, rep))
    rep.guarded("R17-STATIC", lambda: r_static(fl, rep))
    # programs of different tests are built one after the other by one CodeGenerator: anything the generator carries from
    # one program to the next (a table of helper terms, a memo of compiled fuzzers) is handed out as Rc clones to both.
    # The channel is closed by C09's reset-completeness rule — every mutated field gets a fresh value in reset(), the one
    # field kept on purpose is the Rc-free constant cache (R17-FRESH) — so that rule is part of this verdict too.
    from . import c09
    rep.rule("R09-RESET", "no generator state is carried from one test's program to the next, except the Rc-free constant cache (shared with C09)", floor=10)
    rep.guarded("R09-RESET", lambda: c09.r_reset(fl, sh, rep))
    rep.rule("R09-FINALIZE", "every generated program leaves through finalize, which resets the generator (shared with C09)", floor=2)
    rep.guarded("R09-FINALIZE", lambda: c09.r_finalize(fl, sh, rep))


def r_send(sh, rep):
    found = set()
    for rel in sh.files():
        if not rel.startswith("crates/") or "/tests/" in rel:
            continue
        for _, it in items(sh.file(rel)):
            if it["k"] == "Impl" and it.get("unsafe") and it.get("trait") and last(it["trait"]) in ("Send", "Sync"):
                found.add((rel, re.sub(r"<.*$", "", it["self_ty"]).split("::")[-1], last(it["trait"])))
    for s in sorted(found):
        rep.check(s in SEND_REVIEWED, "R17-SEND", "%s#unsafe-impl-%s" % (s[1], s[2]), s[0], "new `unsafe impl %s for %s`: the compiler no longer protects the Rc counts inside this type from crossing threads, and its fields have not been reviewed" % (s[2], s[1]), sample={"type": s[1]})
    for s in sorted(SEND_REVIEWED - found):
        rep.info("STALE-REVIEW R17-SEND %s %s %s no longer present" % s)


def r_surface(fl, rep):
    types = ["UnitTest", "PropertyTest", "Benchmark", "Fuzzer", "Sampler"]
    for t in types:
        p = "aiken_lang::test_framework::" + t
        a = fl.adts.get(p)
        if not a:
            raise AnchorMissing("ADT " + p)
        for x in a["fields"]:
            rcish = "Rc<" in x["ty"] or any(y in ("aiken_lang::test_framework::Fuzzer", "aiken_lang::test_framework::Sampler", "aiken_lang::test_framework::Assertion", "uplc::ast::Program", "uplc::ast::Term", "aiken_lang::expr::TypedExpr", "aiken_lang::tipo::Type") for y in x.get("adts", []))
            key = "%s.%s" % (p, x["name"])
            if not rcish:
                rep.ok("R17-SURFACE", key, TF, why="no Rc inside (%s)" % x["ty"][:40], nontrivial=False)
            else:
                rep.check(key in SURFACE_REVIEWED, "R17-SURFACE", key, TF, "%s : %s carries Rc-counted data across threads (the type is `unsafe impl Send`) and is not in the reviewed surface" % (key, x["ty"][:70]), why_ok=SURFACE_REVIEWED.get(key, ""), sample={"ty": x["ty"][:80]})


def r_take(fl, sh, rep):
    f = find_method(sh.file(PL), "Project", "run_runnables")
    rep.touched(PL, "Project::run_runnables")
    par = [n for n in walk(f["body"]) if n["k"] == "MethodCall" and n["m"] in ("into_par_iter", "par_iter", "par_iter_mut", "par_bridge")]
    if not par:
        raise AnchorMissing("parallel iterator in run_runnables")
    par_line = min(n["ms"][0] for n in par)
    takes = []
    for m in matches_in(f["body"]):
        for a in m["arms"]:
            h = pat_head(pat_alts(a["pat"])[0])
            if h and last(h) == "UnitTest" and m["s"][0] < par_line:
                takes.append((m, a))
    if not takes:
        rep.bad("R17-TAKE", "run_runnables#take-before-parallel", sh.loc(PL, f), "no `match test { Test::UnitTest(..) => … }` precedes the parallel section: unit-test assertions (typed expressions sharing Rc<Type> nodes with the module AST) travel to the workers")
    for m, a in takes:
        body = a["body"]
        ok_body = any(n["k"] == "MethodCall" and n["m"] == "take" and n["recv"]["k"] == "Field" and n["recv"]["f"] == "assertion" for n in walk(body))
        rep.check("guard" not in a and ok_body, "R17-TAKE", "run_runnables#UnitTest-arm#unconditional-take", sh.loc(PL, a), "the Test::UnitTest arm before the parallel section %s: for some unit tests the typed assertion stays inside the test and is cloned and dropped on a worker thread, racing on reference counts shared with the module AST" % ("carries a guard" if "guard" in a else "does not take `assertion`"), sample={"guarded": "guard" in a})
        # the closure's other arm yields None (no clone of the assertion)
    # after the parallel section nothing reads an assertion back out of a test (it must have been taken before)
    late = [n for n in walk(f["body"]) if n["k"] == "MethodCall" and n["m"] == "take" and n["s"][0] > par_line and n["recv"]["k"] == "Field" and n["recv"]["f"] == "assertion"]
    rep.check(not late, "R17-TAKE", "run_runnables#no-assertion-left-in-tests", sh.loc(PL, late[0]) if late else sh.loc(PL, f), "after the parallel section an assertion is taken out of a test (`%s`): it therefore went through the workers" % (sh.nsrc(PL, late[0])[:60] if late else ""))
    # indexed combinators only (order preserved, results line up with the assertions taken)
    users = set()
    for g in fl.fns.values():
        if panic_audit.root_of(fl, g)["path"] == "aiken_project::Project::<T>::run_runnables":
            for i, b in fl.calls(g):
                cal, dec = b.get("callee") or "", b.get("decl") or ""
                if cal.startswith("rayon") or dec.startswith("rayon"):
                    users.add((dec or cal).split("::")[-1])
    rep.check(users == {"into_par_iter", "map", "collect"}, "R17-TAKE", "run_runnables#indexed-combinators", sh.loc(PL, f), "the parallel section uses rayon %s; only the indexed into_par_iter().map().collect() keeps results aligned with the tests (and with the assertions taken before)" % sorted(users), sample={"combinators": sorted(users)})
    # MIR: the Option::take on the assertion precedes (dominates) the parallel call in the closure-free part: the take lives in a closure
    # (iter_mut().map(..)); what MIR can add is that the collect of that map dominates into_par_iter
    g = fl.fn("aiken_project::Project::<T>::run_runnables")
    dom = dominators(g)
    par_b = [i for i, b in fl.calls(g) if (b.get("decl") or b.get("callee") or "").endswith("into_par_iter")]
    col_b = [i for i, b in fl.calls(g) if (b.get("callee") or "").endswith("Iterator::collect") or (b.get("decl") or "").endswith("Iterator::collect")]
    first_collect = min(col_b) if col_b else None
    rep.check(bool(par_b) and first_collect is not None and any(c in dom.get(par_b[0], set()) for c in col_b), "R17-TAKE", "run_runnables#takes-collected-before-parallel", sh.loc(PL, f), "on the CFG, no collect() of the assertion-taking map dominates into_par_iter", sample={"collect_blocks": col_b, "par_block": par_b})


def r_worker(fl, rep):
    seen_reviewed = set()
    n = 0
    for f in fl.fns.values():
        root = panic_audit.root_of(fl, f)["path"]
        if not WORKER_FNS.match(root):
            continue
        n += 1
        for b in f["blocks"]:
            if b["c"]:
                continue
            kind = ty = None
            if b.get("k") == "call" and (b.get("decl") in ("std::clone::Clone::clone", "std::borrow::ToOwned::to_owned") or (b.get("callee") or "").endswith("Clone>::clone")):
                kind, ty = "clone", b.get("self_ty") or (b.get("at") or ["?"])[0]
            elif b.get("k") == "drop":
                kind, ty = "drop", b["ty"]
            if not kind or not AST_SHARED.search(ty):
                continue
            ty_s = re.sub(r"^&", "", ty)
            key = (root, kind, ty_s)
            where = "%s:%d" % (panic_audit.rel_file(f), b["l"])
            if key in WORKER_REVIEWED:
                seen_reviewed.add(key)
                rep.ok("R17-WORKER", "%s#%s#%s" % (root.split("::", 2)[-1], kind, ty_s), where, why="reviewed: " + WORKER_REVIEWED[key])
            else:
                rep.bad("R17-WORKER", "%s#%s#%s" % (root.split("::", 2)[-1], kind, ty_s), where, "%s %ss a `%s` on a worker thread: the value contains (or is) Rc-counted data shared with the type-checked AST, whose non-atomic reference count is then updated concurrently with the main thread and other workers" % (root, kind, ty_s[:80]))
    rep.check(n >= 8, "R17-WORKER", "worker-functions-found", TF, "only %d worker-side functions matched the anchor pattern" % n, nontrivial=False)
    for k in WORKER_REVIEWED:
        if k not in seen_reviewed:
            rep.info("STALE-REVIEW R17-WORKER %s %s %s" % k)


def r_deep(fl, sh, rep):
    fa = sh.file(AST)
    cen, ten = find_enum(fa, "Constant"), find_enum(fa, "Type")
    fc = find_method(fa, "Constant", "deep_clone")
    ft = find_method(fa, "Type", "deep_clone")
    traversal_check(rep, "R17-DEEP", sh, AST, "Constant::deep_clone", fc, cen, ["Constant", "Type", "Rc"], require_recursion={"deep_clone"})
    traversal_check(rep, "R17-DEEP", sh, AST, "Type::deep_clone", ft, ten, ["Type", "Rc"], require_recursion={"deep_clone"})
    # MIR: inside the two functions (closures included) no reference count is incremented
    for path in ("uplc::ast::Constant::deep_clone", "uplc::ast::Type::deep_clone"):
        bad = []
        for f in fl.fns.values():
            if panic_audit.root_of(fl, f)["path"] != path:
                continue
            for i, b in fl.calls(f):
                st = b.get("self_ty") or ""
                if b.get("decl") == "std::clone::Clone::clone" and st.startswith("std::rc::Rc<"):
                    bad.append("%s:%d %s" % (panic_audit.rel_file(f), b["l"], st))
        if path not in fl.by_path:
            raise AnchorMissing("flow fn " + path)
        rep.check(not bad, "R17-DEEP", path.split("::", 2)[-1] + "#no-Rc-clone", AST, "%s clones an Rc (%s): the copy shares that allocation with the original" % (path, bad), sample={"rc_clones": bad})


def r_fresh(fl, sh, rep):
    a = fl.adts.get("aiken_lang::gen_uplc::CachedConstant")
    if not a:
        raise AnchorMissing("ADT aiken_lang::gen_uplc::CachedConstant")
    rcf = [(x["name"], x["ty"]) for x in a["fields"] if "Rc<" in x["ty"]]
    rep.check(not rcf, "R17-FRESH", "CachedConstant#no-Rc-field", GEN, "CachedConstant stores %s: the cache then owns an allocation that programs handed out from it can share (fresh_term can return a count increment instead of a copy)" % rcf, sample={"fields": [(x["name"], x["ty"][:40]) for x in a["fields"]]})
    ft = fl.fn("aiken_lang::gen_uplc::CachedConstant::fresh_term")
    dom = dominators(ft)
    dc = [i for i, b in fl.calls(ft) if (b.get("callee") or "").endswith("Constant::deep_clone")]
    rc = [b for i, b in fl.calls(ft) if b.get("decl") == "std::clone::Clone::clone" and (b.get("self_ty") or "").startswith("std::rc::Rc<")]
    rep.check(bool(dc) and all(any(d in dom.get(r, set()) for d in dc) for r in return_blocks(ft)) and not rc, "R17-FRESH", "fresh_term#deep-copy-on-every-path", GEN, "CachedConstant::fresh_term must return a deep_clone on every path and never clone an Rc (deep_clone calls at blocks %s, Rc clones %d)" % (dc, len(rc)), sample={"deep_clone_blocks": dc})
    # the cached value itself is a deep copy of the evaluated term's constant
    fj = sh.file(GEN)
    lits = [n for q, fn in all_fns(fj) if q.endswith("CodeGenerator::gen_uplc") for n in walk(fn["body"]) if n["k"] == "Struct" and last(n["p"]) == "CachedConstant"]
    okc = bool(lits) and all(any(fi["name"] == "constant" and any(c["k"] == "MethodCall" and c["m"] == "deep_clone" for c in walk(fi["e"])) for fi in l["fields"]) for l in lits)
    rep.check(okc, "R17-FRESH", "cache-fill#stores-a-deep-copy", sh.loc(GEN, lits[0]) if lits else GEN, "the ModuleConstant arm must store `constant: <evaluated>.deep_clone()` in the cache; otherwise the cache shares nodes with the program that first computed the constant")


def r_static(fl, rep):
    bad = [s for s in fl.statics if "Rc<" in s["ty"] and not s["path"].startswith("aiken::")]
    rep.check(not bad, "R17-STATIC", "no-static-Rc", "", "static item(s) hold an Rc: %s" % [(s["path"], s["ty"][:50]) for s in bad], sample={"statics_scanned": len(fl.statics)})


def r_tls(sh, rep):
    """Every program handed to a worker must own its Rc graph. A value kept in a `static` / `thread_local!` and cloned into
    the programs built on the main thread is one allocation reachable from all of them: workers then bump and drop its
    non-atomic count concurrently."""
    import re as _re
    n = 0
    for rel in sh.files():
        if not _re.match(r"crates/(uplc|aiken-lang|aiken-project)/src/", rel):
            continue
        fj = sh.file(rel)
        for it in walk(fj):
            if it.get("k") == "Static":
                n += 1
                ty = it.get("ty") or ""
                bad = _re.search(r"\bRc\s*<|\bTerm\s*<|\bType\b|\bConstant\b|\bProgram\s*<", ty if isinstance(ty, str) else "")
                rep.check(not bad, "R17-TLS", "%s#static#%s" % (rel.split("/src/")[-1], it.get("name")), sh.loc(rel, it), "static `%s: %s` holds reference-counted AST data: every program built from it shares the allocation across worker threads" % (it.get("name"), ty), sample={"type": ty})
        text = "\n".join(sh.text(rel))
        for m in _re.finditer(r"thread_local!\s*[\{\(]", text):
            depth, j = 1, m.end()
            while j < len(text) and depth:
                depth += text[j] in "{(" 
                depth -= text[j] in "})"
                j += 1
            body = text[m.end():j]
            n += 1
            line = text.count("\n", 0, m.start()) + 1
            bad = _re.search(r"\bRc\s*<|\bRc::new|\bTerm\s*<|\bType\b|\bConstant\b", body)
            rep.check(not bad, "R17-TLS", "%s#thread_local#%d" % (rel.split("/src/")[-1], line), "%s:%d" % (rel, line), "a thread_local! holds reference-counted AST data (`%s`): all programs are generated on the main thread, so every program that clones it shares the node — and workers clone and drop it concurrently" % _re.sub(r"\s+", " ", body)[:80])
    if n < 3:
        raise AnchorMissing("statics of the workspace (found %d, 7 on the pinned tree)" % n)
