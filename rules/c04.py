"""C04 — every builtin computes its specified function on its whole domain.

Decided statically: per-builtin agreement of arity / argument types between
evaluator, cost model and Aiken signature; which integer-division operation
each of the four division builtins calls (rounding family, component, zero
test first); constructor-tag range maps are mutual inverses and agree with
Data::constr; the semantics gate is total and matches the ledger's table.
Not decided: numerical results, bit numbering, padding, crypto.
"""
import re
from .lib import *

NEEDS_FLOW = True
from .btab import BuiltinTables, RT
from . import builtin_rules as br

EXPLANATION = (
    "Per-builtin sibling tables (91 rows x {arity, argument unwrappers, cost arguments, Aiken parameter types}); a 4-row division table "
    "(library operation -> rounding family and tuple component, divisor tested for zero before the operation); endpoint evaluation of the three "
    "piecewise-affine constructor-tag maps (convert_tag_to_constr, convert_constr_to_tag, Data::constr); exhaustive symbolic evaluation of "
    "BuiltinSemantics::for_language_and_protocol over 3 languages x protocol versions 7..12 against the ledger's variant table."
)
LEVEL_NOTE = "decides which operation is called and that tables agree; the arithmetic of num-bigint, blst, secp256k1 and the hash crates is trusted"

A = "crates/uplc/src/ast.rs"

# spec (Plutus builtin specification): divideInteger/modInteger round towards -inf, quotientInteger/remainderInteger towards 0
DIV_SPEC = {"DivideInteger": ("floor", 0), "ModInteger": ("floor", 1), "QuotientInteger": ("trunc", 0), "RemainderInteger": ("trunc", 1)}
# classification of num-integer operations: name -> (family, returns) ; returns: 'pair' (quotient, remainder) | 0 quotient | 1 remainder
DIV_OPS = {
    "div_mod_floor": ("floor", "pair"),
    "div_floor": ("floor", 0),
    "mod_floor": ("floor", 1),
    "div_rem": ("trunc", "pair"),
    "div_euclid": ("euclid", 0),
    "rem_euclid": ("euclid", 1),
    "div_ceil": ("ceil", 0),
}
# review table: rows where the Aiken signature (the sibling used as oracle), not the evaluator, deviates from the Plutus specification
SIG_ORACLE_WRONG = {
    "ChooseUnit#0": "the evaluator unwraps a unit as the Plutus spec says (chooseUnit : unit -> a -> a); the Aiken signature declares Data — that is a type-checker defect, reported under C06 (R06-SIG)",
}

# spec (Plutus ledger API, builtinSemanticsVariant): language x protocol major version -> variant
def gate_spec(lang, pv):
    if lang in ("PlutusV1", "PlutusV2"):
        return "A" if pv < 9 else ("B" if pv < 11 else "D")
    return "C" if pv < 11 else "E"


def run(ctx, rep):
    sh = ctx.shape
    rep.rule("R04-ARITY", "arity agrees across arity(), call arm, cost arm and Aiken signature (91 builtins)", floor=91)
    rep.rule("R04-SIG", "position by position the evaluator unwraps the type the Aiken signature declares (91 builtins)", floor=91)
    rep.rule("R04-DIVMOD", "the four division builtins call the right rounding family, take the right component and test the divisor first", floor=4)
    rep.rule("R04-TAGS", "constructor-tag range maps are mutual inverses, avoid the generic tag 102, and agree with Data::constr", floor=8)
    rep.rule("R04-GATE", "BuiltinSemantics::for_language_and_protocol is total and equals the ledger's variant table; for_language is its latest-protocol column", floor=18)
    t = None
    try:
        t = BuiltinTables(sh)
    except AnchorMissing as e:
        rep.anchor_missing("R04-ARITY", e)
    if t:
        rep.touched(RT, "DefaultFunction::call")
        rep.guarded("R04-ARITY", lambda: br.rule_arity(t, rep, "R04-ARITY"))
        from . import btab as _bt
        rep.guarded("R04-ARITY", lambda: _bt.rule_one_arm(t, rep, "R04-ARITY"))
        rep.guarded("R04-SIG", lambda: br.rule_sig(t, rep, "R04-SIG", oracle_wrong=SIG_ORACLE_WRONG))
        rep.guarded("R04-DIVMOD", lambda: r_divmod(sh, rep, t))
        rep.rule("R04-GATEFIRST", "a failure gated on the semantics variant (the argument's type is narrower under that variant) is decided before any successful return of the arm", floor=2)
        rep.guarded("R04-GATEFIRST", lambda: r_gatefirst(sh, rep, t))
        rep.rule("R04-WRAP", "consByteString: the wrapping variant reduces with mod_floor(256); the checked variant rejects both sides", floor=2)
        rep.guarded("R04-WRAP", lambda: r_wrap(sh, rep, t))
    if t:
        rep.rule("R04-GROUPSIB", "the G1 and G2 arms of each BLS builtin unwrap the same argument kinds and can fail with the same errors; multiScalarMul bounds every scalar of the whole list before pairing", floor=10)
        rep.guarded("R04-GROUPSIB", lambda: r_groupsib(sh, rep, t))
    rep.guarded("R04-TAGS", lambda: r_tags(sh, rep))
    rep.rule("R04-TAGSITE", "the constructor-tag ranges are spelled out only in the functions R04-TAGS evaluates", floor=3)
    rep.guarded("R04-TAGSITE", lambda: r_tagsites(sh, rep, "R04-TAGSITE"))
    rep.rule("R04-BIGINTSITE", "pallas' BigUInt/BigNInt representation is taken apart only in from_pallas_bigint / to_pallas_bigint", floor=2)
    rep.guarded("R04-BIGINTSITE", lambda: r_bigintsites(sh, rep, "R04-BIGINTSITE"))
    rep.guarded("R04-GATE", lambda: r_gate(sh, rep))
    rep.rule("R04-SERIAL", "serialiseData's re-encoder: one re-encoder per Data constructor; lists indefinite unless empty, maps definite, byte strings and integers through pallas' own encoders (64-byte chunking, canonical integer form)", floor=6)
    # "a builtin never crashes the evaluator": the evaluator section of C10's panic audit covers every builtin's call arm and
    # costing arm; re-run here (same review table) so that C04's verdict does not rest on C10 having been run
    from . import c10 as _c10, panic_audit as _pa
    rep.rule("R04-PANIC", "no unreviewed panic site (overflow, index, unwrap, unreachable) is reachable from the evaluator entry points — the builtins' call and costing arms included (C10's audit, re-run)", floor=30)
    _secs = {}
    rep.guarded("R04-PANIC", lambda: _secs.update(_c10.panic_sections(ctx.flow)))
    if "C10-eval" in _secs:
        rep.guarded("R04-PANIC", lambda: _pa.audit(rep, "R04-PANIC", ctx.flow, _secs["C10-eval"][0], "C10-eval", _pa.LineIndex(ctx.shape), stop=_secs["C10-eval"][1], floor_sites=600, describe="Machine::run, Program::eval*, Machine::new*, value_as_term"))
    rep.guarded("R04-SERIAL", lambda: r_serial(ctx.flow, rep))
    rep.rule("R04-BIGREPR", "Data integers: the plain CBOR form is chosen by a fallible conversion from at least 128 bits into pallas' Int; the negative bignum payload is -1-n computed on big integers in both directions", floor=5)
    rep.guarded("R04-BIGREPR", lambda: r_bigrepr(ctx.flow, rep, "R04-BIGREPR"))


def r_divmod(sh, rep, t):
    for v, (fam, comp) in DIV_SPEC.items():
        if v not in t.call:
            rep.bad("R04-DIVMOD", v + "#no-arm", RT, "no call arm")
            continue
        arm = t.call[v]
        where = sh.loc(RT, arm)
        ops = [c for c in calls_in(arm["body"]) if c["k"] == "MethodCall" and c["m"] in DIV_OPS]
        raw = [n for n in walk(arm["body"]) if n["k"] == "Binary" and n["op"] in ("/", "%")]
        if raw:
            ops_desc = "operator %s" % raw[0]["op"]
            f2, ret = ("trunc", 0 if raw[0]["op"] == "/" else 1)
            site = raw[0]
        elif len(ops) == 1:
            f2, ret = DIV_OPS[ops[0]["m"]]
            ops_desc = ops[0]["m"]
            site = ops[0]
        else:
            rep.bad("R04-DIVMOD", v + "#unclassified", where, "expected exactly one recognised integer-division operation (%s), found %r" % (sorted(DIV_OPS), [o["m"] for o in ops]))
            continue
        problems = []
        if f2 != fam:
            problems.append("uses %s (%s rounding) but the specification requires %s rounding" % (ops_desc, f2, fam))
        # which component
        got = ret
        if ret == "pair":
            got = None
            for n in walk(arm["body"]):
                if n["k"] == "Local" and n["pat"]["k"] == "PTuple" and "init" in n and any(x is site for x in walk(n["init"])):
                    el = n["pat"]["elems"]
                    if len(el) == 2:
                        kinds = [e["k"] for e in el]
                        if kinds == ["Ident", "Wild"]:
                            got = 0
                        elif kinds == ["Wild", "Ident"]:
                            got = 1
            if got is None:
                problems.append("cannot tell which component of the (quotient, remainder) pair is used")
        if got is not None and got != comp:
            problems.append("takes the %s but %s must return the %s" % (["quotient", "remainder"][got], v, ["quotient", "remainder"][comp]))
        # argument order: arg1 is the dividend (receiver), arg2 the divisor
        if site["k"] == "MethodCall":
            r = sh.nsrc(RT, site["recv"])
            a = sh.nsrc(RT, site["args"][0]) if site["args"] else ""
            if not (r == "arg1" and a == "arg2"):
                problems.append("operands are (%s, %s); the dividend must be the first builtin argument" % (r, a))
        # zero test encloses the operation
        guarded = False
        for n in walk(arm["body"]):
            if n["k"] == "If" and re.fullmatch(r"\*arg2!=0\.into\(\)|!arg2\.is_zero\(\)", sh.nsrc(RT, n["cond"])):
                if any(x is site for x in walk(n["then"])) and n.get("else") is not None and "DivideByZero" in sh.nsrc(RT, n["else"]):
                    guarded = True
        if not guarded:
            problems.append("the operation is not inside `if *arg2 != 0 {..} else {Err(DivideByZero)}`: a zero divisor reaches the division")
        if problems:
            rep.bad("R04-DIVMOD", v, where, "; ".join(problems), sample={"builtin": v, "operation": ops_desc})
        else:
            rep.ok("R04-DIVMOD", v, where, sample={"builtin": v, "operation": ops_desc, "family": f2, "component": ["quotient", "remainder"][comp]})


_PIECE_ENV = {}


def ev(e, env):
    k = e["k"]
    if k == "Lit" and e["lk"] == "int":
        return int(e["v"])
    if k == "Path":
        if e["p"] in env:
            return env[e["p"]]
        if e["p"] in _PIECE_ENV:
            return _PIECE_ENV[e["p"]]
        raise ValueError("free " + e["p"])
    if k == "Cast":
        return ev(e["e"], env)
    if k == "Binary":
        l, r = ev(e["l"], env), ev(e["r"], env)
        return {"+": l + r, "-": l - r, "*": l * r}[e["op"]]
    raise ValueError("cannot evaluate " + k)


def _file_consts(fj):
    """private integer constants of a file (resolved recursively on demand by ev)"""
    out = {}
    for _, it in items(fj):
        if it["k"] in ("Const", "Static") and it.get("e") is not None:
            try:
                out[it["name"]] = ev(it["e"], out)
            except (ValueError, KeyError):
                pass
    return out


def pieces_contains(sh, rel, fn, var):
    """[(lo, hi, expr)] from either form of a piecewise map to Option:
         if (lo..=hi).contains(&var) { Some(expr) } else if .. else { None }
         match var { lo..=hi => Some(expr), .., _ => None }
    range ends may be literals or named constants of the file; the returned expressions are evaluated with those constants bound"""
    consts = _file_consts(sh.file(rel))
    _PIECE_ENV.clear()
    _PIECE_ENV.update(consts)
    out = []
    node = None
    for st in fn["body"]["stmts"]:
        if st["k"] == "ExprStmt" and st["e"]["k"] == "If":
            node = st["e"]
    if node is None:
        for m in matches_in(fn["body"], lambda e: e["k"] == "Path" and e["p"] == var):
            for a in m["arms"]:
                p = a["pat"]
                body = a["body"]
                while body["k"] == "Block" and len(body["stmts"]) == 1 and body["stmts"][0]["k"] == "ExprStmt":
                    body = body["stmts"][0]["e"]
                if p["k"] == "PRange" and p.get("lo") is not None and p.get("hi") is not None:
                    lo, hi = ev(p["lo"], consts), ev(p["hi"], consts)
                    if not p["closed"]:
                        hi -= 1
                elif p["k"] == "PLit":
                    lo = hi = ev(p["e"], consts)
                elif is_catch_all(p):
                    continue
                else:
                    raise AnchorMissing("arm shape of %s" % fn["name"])
                if body["k"] == "Call" and call_name(body) == "Some":
                    out.append((lo, hi, body["args"][0]))
                else:
                    raise AnchorMissing("piece body of %s" % fn["name"])
            return out
        raise AnchorMissing("piecewise definition of %s (if-chain or match)" % fn["name"])
    while node is not None and node["k"] == "If":
        c = node["cond"]
        if c["k"] == "MethodCall" and c["m"] == "contains" and c["recv"]["k"] == "Range":
            lo, hi = ev(c["recv"]["lo"], consts), ev(c["recv"]["hi"], consts)
            if not c["recv"]["closed"]:
                hi -= 1
            body = node["then"]["stmts"][-1]["e"]
            if body["k"] == "Call" and call_name(body) == "Some":
                out.append((lo, hi, body["args"][0]))
            else:
                raise AnchorMissing("piece body of %s" % fn["name"])
        else:
            raise AnchorMissing("range test of %s" % fn["name"])
        node = node.get("else")
        if node is not None and node["k"] == "Block":
            break
    return out


def r_tags(sh, rep):
    rt = sh.file(RT)
    t2c = find_fn(rt, "convert_tag_to_constr")
    c2t = find_fn(rt, "convert_constr_to_tag")
    rep.touched(RT, "convert_tag_to_constr")
    rep.touched(RT, "convert_constr_to_tag")
    any_tag = None
    for _, it in items(rt):
        if it["k"] in ("Static", "Const") and it["name"] == "ANY_TAG":
            any_tag = ev(it["e"], {})
    if any_tag is None:
        raise AnchorMissing("ANY_TAG")
    vt = t2c["sig"]["inputs"][0]["pat"]["name"]
    vc = c2t["sig"]["inputs"][0]["pat"]["name"]
    P_t2c = pieces_contains(sh, RT, t2c, vt)
    P_c2t = pieces_contains(sh, RT, c2t, vc)

    def apply(P, var, x):
        for lo, hi, e in P:
            if lo <= x <= hi:
                return ev(e, {var: x})
        return None

    for lo, hi, e in P_c2t:
        okp = True
        for x in (lo, hi, (lo + hi) // 2):
            y = ev(e, {vc: x})
            back = apply(P_t2c, vt, y)
            if back != x:
                okp = False
                rep.bad("R04-TAGS", "c2t[%d..%d]#not-inverted" % (lo, hi), sh.loc(RT, c2t), "constructor %d maps to tag %d, which convert_tag_to_constr maps back to %s" % (x, y, back))
                break
        img = (ev(e, {vc: lo}), ev(e, {vc: hi}))
        if okp:
            rep.check(not (img[0] <= any_tag <= img[1]), "R04-TAGS", "c2t[%d..%d]" % (lo, hi), sh.loc(RT, c2t), "image %r contains the generic-constructor tag %d" % (img, any_tag), sample={"constr": [lo, hi], "tags": list(img)})
    for lo, hi, e in P_t2c:
        okp = True
        for x in (lo, hi, (lo + hi) // 2):
            y = ev(e, {vt: x})
            back = apply(P_c2t, vc, y)
            if back != x:
                okp = False
                rep.bad("R04-TAGS", "t2c[%d..%d]#not-inverted" % (lo, hi), sh.loc(RT, t2c), "tag %d maps to constructor %d, which convert_constr_to_tag maps back to %s" % (x, y, back))
                break
        if okp:
            rep.check(not (lo <= any_tag <= hi), "R04-TAGS", "t2c[%d..%d]" % (lo, hi), sh.loc(RT, t2c), "domain contains the generic tag %d" % any_tag, sample={"tags": [lo, hi], "constr": [ev(e, {vt: lo}), ev(e, {vt: hi})]})
    # pieces are contiguous from 0 on the constructor side
    dom = sorted((lo, hi) for lo, hi, _ in P_c2t)
    contiguous = dom and dom[0][0] == 0 and all(dom[i][1] + 1 == dom[i + 1][0] for i in range(len(dom) - 1))
    rep.check(contiguous, "R04-TAGS", "c2t#contiguous", sh.loc(RT, c2t), "constructor ranges %r are not contiguous from 0" % dom)
    # Data::constr agrees
    fa = sh.file(A)
    dc = find_method(fa, "Data", "constr")
    rep.touched(A, "Data::constr")
    var = dc["sig"]["inputs"][0]["pat"]["name"]
    pieces, generic = _constr_pieces(sh, dc, var)
    lo = 0
    for plo, hi, tag_e, any_e, node in pieces:
        okp = plo == lo and tag_e is not None and all(ev(tag_e, {var: x}) == apply(P_c2t, vc, x) for x in (plo, hi)) and any_e is not None and sh.nsrc(A, any_e) == "None"
        rep.check(okp, "R04-TAGS", "Data::constr[%d..%d]" % (plo, hi), sh.loc(A, node), "Data::constr disagrees with convert_constr_to_tag on constructors %d..%d (tags %s vs %s): a value built here is not read back by convert_tag_to_constr" % (plo, hi, [ev(tag_e, {var: x}) for x in (plo, hi)] if tag_e else None, [apply(P_c2t, vc, x) for x in (plo, hi)]), sample={"constr": [plo, hi], "tags": [ev(tag_e, {var: plo}), ev(tag_e, {var: hi})] if tag_e else None})
        lo = hi + 1
    okg = False
    if generic is not None:
        gt, ga = generic
        okg = gt is not None and ev(gt, {}) == any_tag and ga is not None and sh.nsrc(A, ga) == "Some(%s)" % var
    top = max(hi for _, hi, _ in P_c2t)
    rep.check(okg and lo == top + 1, "R04-TAGS", "Data::constr[generic]", sh.loc(A, dc), "beyond constructor %d Data::constr must use tag %d with any_constructor = Some(ix) (generic branch starts at %d)" % (top, any_tag, lo))


def _constr_pieces(sh, dc, var):
    """Data::constr as [(lo, hi, tag expr, any_constructor expr, node)] + generic (tag expr, any expr); accepts the
    `if ix < N {..} else if ..` chain and the `match ix { lo..=hi => .., _ => .. }` form (struct or (tag, any) tuple bodies)"""

    def tag_any(body):
        for s_ in walk(body):
            if s_["k"] == "Struct" and last(s_["p"]) == "Constr":
                d = {fi["name"]: fi["e"] for fi in s_["fields"]}
                if "tag" in d and "any_constructor" in d and not (d["tag"]["k"] == "Path" and d["tag"]["p"] == "tag"):
                    return d["tag"], d["any_constructor"]
        for s_ in walk(body):
            if s_["k"] == "Tuple" and len(s_["es"]) == 2:
                return s_["es"][0], s_["es"][1]
        return None, None

    pieces, generic = [], None
    ifs = [st["e"] for st in dc["body"]["stmts"] if st["k"] == "ExprStmt" and st["e"]["k"] == "If"]
    if ifs:
        node = ifs[-1]
        lo = 0
        while node is not None and node["k"] == "If":
            c = node["cond"]
            if not (c["k"] == "Binary" and c["op"] in ("<", "<=") and sh.nsrc(A, c["l"]) == var):
                raise AnchorMissing("Data::constr condition shape")
            hi = ev(c["r"], {}) - (1 if c["op"] == "<" else 0)
            t, a_ = tag_any(node["then"])
            pieces.append((lo, hi, t, a_, node))
            lo = hi + 1
            node = node.get("else")
        if node is not None:
            generic = tag_any(node)
        return pieces, generic
    for m in matches_in(dc["body"], lambda e: e["k"] == "Path" and e["p"] == var):
        for a_ in m["arms"]:
            p = a_["pat"]
            if p["k"] == "PRange" and p.get("lo") and p.get("hi"):
                lo, hi = ev(p["lo"], {}), ev(p["hi"], {})
                if not p["closed"]:
                    hi -= 1
                t, an = tag_any(a_["body"])
                pieces.append((lo, hi, t, an, a_))
            elif p["k"] == "PLit":
                v = ev(p["e"], {})
                t, an = tag_any(a_["body"])
                pieces.append((v, v, t, an, a_))
            elif is_catch_all(p):
                generic = tag_any(a_["body"])
            else:
                raise AnchorMissing("Data::constr match arm shape")
        pieces.sort(key=lambda x: x[0])
        return pieces, generic
    raise AnchorMissing("Data::constr: neither an if-chain nor a match on the constructor index")


def const_int(fj, name):
    for _, it in items(fj):
        if it["k"] in ("Const", "Static") and it["name"] == name:
            return ev(it["e"], {})
    raise AnchorMissing("const " + name)


def eval_gate(sh, fj, fn, lang, pv):
    m = next(matches_in(fn["body"]))
    for arm in m["arms"]:
        langs = [last(pat_head(a)) for a in pat_alts(arm["pat"])]
        if lang not in langs and not is_catch_all(arm["pat"]):
            continue
        if "guard" in arm:
            g = arm["guard"]
            if not (g["k"] == "Binary" and g["op"] in (">=", ">", "<", "<=", "==") and sh.nsrc(RT, g["l"]) == "protocol_major_version"):
                raise AnchorMissing("guard shape in for_language_and_protocol")
            rhs = const_int(fj, g["r"]["p"]) if g["r"]["k"] == "Path" else ev(g["r"], {})
            if not eval("%d %s %d" % (pv, g["op"], rhs)):
                continue
        ps = [last(p) for p in paths_in(arm["body"]) if "BuiltinSemantics::" in p]
        return ps[0] if ps else None
    return None


def r_gate(sh, rep):
    fj = sh.file(RT)
    f = find_method(fj, "BuiltinSemantics", "for_language_and_protocol")
    g = find_method(fj, "BuiltinSemantics", "for_language")
    rep.touched(RT, "BuiltinSemantics::for_language_and_protocol")
    produced = set()
    for lang in ("PlutusV1", "PlutusV2", "PlutusV3"):
        for pv in (7, 8, 9, 10, 11, 12):
            got = eval_gate(sh, fj, f, lang, pv)
            produced.add(got)
            want = gate_spec(lang, pv)
            rep.check(got == want, "R04-GATE", "%s@pv%d" % (lang, pv), sh.loc(RT, f), "%s at protocol %d selects variant %s; the ledger table says %s" % (lang, pv, got, want), sample={"language": lang, "protocol": pv, "variant": got})
    rep.check(produced == {"A", "B", "C", "D", "E"}, "R04-GATE", "all-variants-produced", sh.loc(RT, f), "variants produced: %s" % sorted(x for x in produced if x))
    m = next(matches_in(g["body"]))
    for arm in m["arms"]:
        ps = [last(p) for p in paths_in(arm["body"]) if "BuiltinSemantics::" in p]
        for a in pat_alts(arm["pat"]):
            lang = last(pat_head(a))
            rep.check(ps and ps[0] == gate_spec(lang, 99), "R04-GATE", "for_language#%s" % lang, sh.loc(RT, arm), "for_language(%s) gives %s, the latest-protocol variant is %s" % (lang, ps, gate_spec(lang, 99)))


# ---------------------------------------------------------------------------------------------------------
# tag-map sites: the compact-constructor tag ranges are written down in exactly the functions R04-TAGS evaluates
# ---------------------------------------------------------------------------------------------------------
TAG_LITERALS = {"121", "1280", "1400", "127"}
TAG_MAP_OWNERS = {
    ("crates/uplc/src/machine/runtime.rs", "convert_tag_to_constr"),
    ("crates/uplc/src/machine/runtime.rs", "convert_constr_to_tag"),
    ("crates/uplc/src/ast.rs", "Data::constr"),
}


TAG_SITE_REVIEWED = {
    ("crates/aiken-lang/src/test_framework.rs", "Prng::from_result"): "`121 + Prng::SEEDED/REPLAYED` with the two constant constructor indices 0 and 1 (< 7): only the first compact range, no range boundary involved",
}


def r_tagsites(sh, rep, rid):
    """who-may-write rule over the *knowledge* of the tag map: a second hand-written copy of the ranges (a printer, a
    decoder, a builder) is a place where `1280..1400` can be off by one without R04-TAGS seeing it. Every other site must
    go through the converters. Only integer literals that take part in a range, a range pattern, a comparison or +/- with a
    tag-like operand count (a bare 127 elsewhere is not a tag)."""
    found = {}
    for rel in sh.files():
        if not rel.startswith("crates/") or "/tests/" in rel or rel.endswith("tests.rs"):
            continue
        fj = sh.file(rel)
        _PIECE_ENV.clear()
        fconsts = {k: v for k, v in _file_consts(fj).items() if isinstance(v, int)}
        for q, f in all_fns(fj):
            hits = []
            for n in walk(f["body"]) if "body" in f else []:
                lits = []
                if n["k"] == "Range":
                    lits = [x for x in (n.get("lo"), n.get("hi")) if x]
                elif n["k"] == "Binary" and n["op"] in ("+", "-", "<", "<=", ">", ">=", "=="):
                    lits = [n["l"], n["r"]]
                elif n["k"] == "PRange":
                    lits = [x for x in (n.get("lo"), n.get("hi")) if x]
                vals = [x["v"] for x in lits if isinstance(x, dict) and x.get("k") == "Lit" and x.get("lk") == "int"]
                # a named constant holding one of the range ends is the same knowledge under another spelling
                vals += [str(fconsts[x["p"]]) for x in lits if isinstance(x, dict) and x.get("k") == "Path" and x["p"] in fconsts]
                if any(v in ("121", "1280", "1400") for v in vals) or (vals.count("127") and any(v in TAG_LITERALS - {"127"} for v in vals)):
                    hits.append(n)
            if hits:
                found[(rel, q)] = hits
    owners_seen = set()
    for (rel, q), hits in sorted(found.items()):
        owner = next((o for o in TAG_MAP_OWNERS if o[0] == rel and (q == o[1] or q.endswith("::" + o[1]))), None)
        if owner:
            owners_seen.add(owner)
            rep.ok(rid, "tag-map-site#%s" % owner[1], sh.loc(rel, hits[0]), why="evaluated by R04-TAGS", sample={"literal_sites": len(hits)})
        elif any(k[0] == rel and (q == k[1] or q.endswith("::" + k[1]) or q.startswith(k[1])) for k in TAG_SITE_REVIEWED) and not any(x.get("k") in ("Range", "PRange") or any(isinstance(y, dict) and y.get("k") == "Lit" and y.get("v") in ("1280", "1400") for y in (x.get("l"), x.get("r"), x.get("lo"), x.get("hi"))) for x in hits):
            why = next(v for k, v in TAG_SITE_REVIEWED.items() if k[0] == rel)
            rep.ok(rid, "tag-map-site#reviewed#%s" % q, sh.loc(rel, hits[0]), why="reviewed: " + why)
        else:
            rep.bad(rid, "tag-map-site#%s#%s" % (rel.split("/")[-1], q), sh.loc(rel, hits[0]), "%s in %s spells out the constructor-tag ranges (121.. / 1280..1400) itself instead of calling convert_tag_to_constr / convert_constr_to_tag / Data::constr: a private copy of the map that R04-TAGS does not evaluate — an off-by-one here changes which Data value is printed, decoded or built" % (q, rel))
    for o in sorted(TAG_MAP_OWNERS - owners_seen):
        # R04-TAGS evaluates the owners whatever their spelling; not finding a literal there is not an error of aiken's
        rep.info("%s: no tag-range literal found in %s any more (R04-TAGS still evaluates it)" % (rid, o[1]))
    if not owners_seen:
        rep.bad(rid, "tag-map-site#owners", "crates/uplc/src/machine/runtime.rs", "none of the functions that own the tag map spells a range end any more: the detector may be blind (anchor)")


# ---------------------------------------------------------------------------------------------------------
# R04-WRAP: consByteString without range checks wraps with a *floor* modulo 256
# ---------------------------------------------------------------------------------------------------------
def r_wrap(sh, rep, t):
    """spec (Plutus builtins, pre-Chang semantics): consByteString n bs prepends `n mod 256` with mod = floor modulo, so
    -1 becomes 0xff. Decided here: which operation reduces the integer — it must be `mod_floor` by the literal 256; the
    truncating family (`%`, rem, low byte of the magnitude) differs exactly on negative inputs."""
    arm = t.call.get("ConsByteString")
    if arm is None:
        raise AnchorMissing("call arm ConsByteString")
    rep.touched(RT, "DefaultFunction::call#ConsByteString")
    ifs = [n for n in walk(arm["body"]) if n["k"] == "If" and any(c["k"] == "MethodCall" and c["m"] == "cons_byte_string_range_checks" for c in walk(n["cond"]))]
    if not ifs or "else" not in ifs[0]:
        raise AnchorMissing("if semantics.cons_byte_string_range_checks() {..} else {..} in ConsByteString")
    els = ifs[0]["else"]
    mods = [c for c in calls_in(els) if c["k"] == "MethodCall" and c["m"] == "mod_floor"]
    lit256 = any(x["k"] == "Lit" and x.get("v") == "256" for m in mods for x in walk(m["args"][0])) if mods else False
    other = [c["m"] for c in calls_in(els) if c["k"] == "MethodCall" and c["m"] in ("to_bytes_le", "to_bytes_be", "to_u8", "rem_euclid", "div_rem", "to_u64_digits", "iter_u64_digits")] + [n["op"] for n in walk(els) if n["k"] == "Binary" and n["op"] in ("%", "&")]
    rep.check(bool(mods) and lit256 and not other, "R04-WRAP", "ConsByteString#wrap-is-floor-mod-256", sh.loc(RT, els), "the wrapping branch of consByteString must reduce the integer with mod_floor(256) (floor modulo: -1 -> 0xff); found %s%s — a truncating / magnitude-based reduction gives another byte for every negative input not divisible by 256" % ([c["m"] for c in mods] or "no mod_floor", (" and " + str(other)) if other else ""), sample={"ops": [c["m"] for c in mods]})
    # the range-checked branch rejects both sides before converting
    then = ifs[0]["then"]
    cmp_ops = {n["op"] for n in walk(then) if n["k"] == "Binary" and n["op"] in ("<", ">", "<=", ">=")}
    rep.check({"<", ">"} <= cmp_ops or {"<=", ">="} <= cmp_ops or len(cmp_ops) >= 2, "R04-WRAP", "ConsByteString#range-check-two-sided", sh.loc(RT, then), "the range-checked branch must reject both n < 0 and n > 255 (found comparisons %s)" % sorted(cmp_ops))


# ---------------------------------------------------------------------------------------------------------
# big-integer representation sites: pallas' BigUInt / BigNInt encoding is taken apart only by the two converters
# ---------------------------------------------------------------------------------------------------------
BIGINT_OWNERS = {"from_pallas_bigint", "to_pallas_bigint"}


# ---------------------------------------------------------------------------------------------------------
# R04-BIGREPR: the two owners of pallas' big-integer convention (type-resolved, MIR)
# ---------------------------------------------------------------------------------------------------------
VAL_RS = "crates/uplc/src/machine/value.rs"


def _is_one(a):
    return bool(re.match(r"^1(_[iu]\d+|_[iu]size)?$", a or ""))


def r_bigrepr(fl, rep, rid):
    """serialiseData / the flat and CBOR encoders write whatever to_pallas_bigint chose. The specification's canonical form is:
    a plain CBOR integer for every n in [-2^64, 2^64-1] (exactly the range of pallas' `Int`), a tagged bignum otherwise, the
    negative bignum carrying -1-n. Decided on MIR with resolved callees:
      (a) the plain form is selected by a *fallible conversion into pallas Int from a type of at least 128 bits* — a
          narrower intermediate (to_i64 / to_u64) pushes 64-bit values into the bignum form: same value, other bytes;
      (b) to_pallas_bigint: a big-integer `+ 1` (or `- 1`) dominates the BigNInt result and not the BigUInt one;
      (c) from_pallas_bigint: the value read with Sign::Minus is followed by a big-integer `- 1` (or `+ 1` before negation)."""
    from . import flowrun

    to = fl.fn("uplc::machine::value::to_pallas_bigint")
    fr = fl.fn("uplc::machine::value::from_pallas_bigint")
    rep.touched(VAL_RS, "to_pallas_bigint")
    rep.touched(VAL_RS, "from_pallas_bigint")
    WIDE = ("i128", "u128", "num_bigint::BigInt", "&num_bigint::BigInt")
    conv = []
    for i, b in enumerate(to["blocks"]):
        if b.get("k") == "call" and last(b.get("decl") or b.get("callee") or "") in ("try_into", "try_from") and "Int" in (b.get("targs") or ""):
            src = (b.get("at") or [""])[0]
            conv.append((i, b, src))
    wide = [c for c in conv if c[2] in WIDE]
    # the conversion may sit in a closure of the function (`.and_then(|i| i.try_into().ok())`): then it is the closure's
    # result that guards the plain form, and dominance is not expressible on the parent's blocks — its presence suffices
    in_closure = []
    for cl in fl.closures_of(to["id"]):
        for b in cl["blocks"]:
            if b.get("k") == "call" and last(b.get("decl") or b.get("callee") or "") in ("try_into", "try_from") and "Int" in (b.get("targs") or "") and (b.get("at") or [""])[0] in WIDE:
                in_closure.append((b.get("at") or [""])[0])
    aggs = {a["v"]: a["bb"] for a in to["aggs"] if a["adt"].endswith("BigInt")}
    dom = flowrun.dominators(to)
    conv = conv + [(None, None, t_) for t_ in in_closure]
    rep.check("Int" in aggs and ((bool(wide) and any(i in dom.get(aggs["Int"], ()) for i, _, _ in wide)) or bool(in_closure)), rid, "to_pallas_bigint#plain-form-from-128-bits", "%s:%s" % (VAL_RS, to["line"]), "the plain CBOR form (BigInt::Int) must be guarded by a fallible conversion from >= 128 bits into pallas Int, whose range is the CBOR integer range; found conversions from %s: values between 2^63 and 2^64 (or their negatives) would be written as bignums — equal as numbers, different bytes under serialiseData" % [c[2] for c in conv], sample={"conversions": [c[2] for c in conv]})
    narrow = [last(b.get("decl") or b.get("callee") or "") for b in to["blocks"] if b.get("k") == "call" and last(b.get("decl") or b.get("callee") or "") in ("to_i64", "to_u64", "to_i32", "to_u32", "to_isize", "to_usize")]
    rep.check(not narrow or bool(wide) or bool(in_closure), rid, "to_pallas_bigint#no-narrow-only-selector", "%s:%s" % (VAL_RS, to["line"]), "to_pallas_bigint selects the representation through %s only" % narrow, nontrivial=False)
    arith = [(i, b) for i, b in enumerate(to["blocks"]) if b.get("k") == "call" and last(b.get("decl") or "") in ("add", "sub") and "BigInt" in (b.get("self_ty") or "") and any(_is_one(a) for a in b.get("a", []))]
    okn = "BigNInt" in aggs and "BigUInt" in aggs and any(i in dom.get(aggs["BigNInt"], ()) and i not in dom.get(aggs["BigUInt"], ()) for i, _ in arith)
    rep.check(okn, rid, "to_pallas_bigint#negative-payload-is-minus-one-minus-n", "%s:%s" % (VAL_RS, to["line"]), "the BigNInt payload must be computed by big-integer arithmetic with the constant 1 on the negative branch only (found %d such operation(s)): byte-level shortcuts lose the borrow / carry at multiples of 256" % len(arith), sample={"ops": [last(b["decl"]) for _, b in arith]})
    for v in ("BigUInt", "BigNInt"):
        tb = [i for i, b in enumerate(to["blocks"]) if b.get("k") == "call" and (b.get("callee") or "").endswith("BigInt::to_bytes_be") and v in aggs and i in dom.get(aggs[v], ())]
        rep.check(bool(tb), rid, "to_pallas_bigint#%s#magnitude-from-to_bytes_be" % v, "%s:%s" % (VAL_RS, to["line"]), "the %s payload must be the big-endian magnitude (BigInt::to_bytes_be) of the big integer" % v)
    # reader
    lc = fr.get("lc") or {}
    minus_reads = [i for i, b in enumerate(fr["blocks"]) if b.get("k") == "call" and (b.get("callee") or "").endswith("BigInt::from_bytes_be") and b.get("a") and lc.get(b["a"][0].lstrip("_")) == "num_bigint::Sign::Minus"]
    plus_reads = [i for i, b in enumerate(fr["blocks"]) if b.get("k") == "call" and (b.get("callee") or "").endswith("BigInt::from_bytes_be") and b.get("a") and lc.get(b["a"][0].lstrip("_")) == "num_bigint::Sign::Plus"]
    farith = [(i, b) for i, b in enumerate(fr["blocks"]) if b.get("k") == "call" and last(b.get("decl") or "") in ("add", "sub") and "BigInt" in (b.get("self_ty") or "") and any(_is_one(a) for a in b.get("a", []))]
    fdom = flowrun.dominators(fr)
    okr = len(minus_reads) == 1 and len(plus_reads) == 1 and len(farith) == 1 and minus_reads[0] in fdom.get(farith[0][0], ()) and plus_reads[0] not in fdom.get(farith[0][0], ()) and last(farith[0][1]["decl"]) == "sub"
    rep.check(okr, rid, "from_pallas_bigint#negative-is-minus-magnitude-minus-one", "%s:%s" % (VAL_RS, fr["line"]), "BigNInt(bytes) must read as -(magnitude) - 1 and BigUInt(bytes) as the magnitude: %d Sign::Minus read(s), %d Sign::Plus read(s), %d big-integer +/-1 operation(s)" % (len(minus_reads), len(plus_reads), len(farith)), sample={"minus_reads": len(minus_reads), "ops": [last(b["decl"]) for _, b in farith]})


# ---------------------------------------------------------------------------------------------------------
# R04-GROUPSIB: sibling agreement of the G1 / G2 builtin arms
# ---------------------------------------------------------------------------------------------------------
def _err_variants(sh, node):
    out = set()
    for n in walk(node):
        if n.get("k") in ("Call", "Path", "Struct"):
            p = n["f"].get("p") if n["k"] == "Call" and n["f"].get("k") == "Path" else n.get("p")
            if p and p.startswith("Error::"):
                out.add(p.split("::")[1])
    return out


def r_groupsib(sh, rep, t):
    """Every BLS12-381 group builtin exists once per group with the same specification. The two arms are implemented
    separately (for multiScalarMul even with different algorithms), so what the specification fixes for both — which
    argument kinds are unwrapped, which errors can be raised — is cross-checked; and for multiScalarMul the clause the
    specification states explicitly: *every* scalar of the first list must lie within the 512-byte bound, also those that
    the shorter point list leaves unpaired (the bound test sits in a loop over the scalar list alone)."""
    pairs = sorted((a, a.replace("G1", "G2")) for a in t.call if "_G1_" in a)
    for a, b in pairs:
        if b not in t.call:
            rep.bad("R04-GROUPSIB", a + "#no-G2-sibling", RT, "no arm for %s" % b)
            continue
        ua = [n["m"] for n in walk(t.call[a]["body"]) if n.get("k") == "MethodCall" and n["m"].startswith("unwrap_")]
        ub = [n["m"] for n in walk(t.call[b]["body"]) if n.get("k") == "MethodCall" and n["m"].startswith("unwrap_")]
        ea, eb = _err_variants(sh, t.call[a]["body"]), _err_variants(sh, t.call[b]["body"])
        rep.check([x.replace("g1", "gX") for x in ua] == [x.replace("g2", "gX") for x in ub] and ea == eb, "R04-GROUPSIB", a + "#agrees-with-G2", sh.loc(RT, t.call[b]), "%s and %s disagree: unwraps %s vs %s, errors %s vs %s" % (a, b, ua, ub, sorted(ea), sorted(eb)), sample={"unwraps": ua, "errors": sorted(ea)})
    for v in [x for x in t.call if x.endswith("MultiScalarMul")]:
        arm = t.call[v]
        scal = None
        for n in walk(arm["body"]):
            if n.get("k") == "Local" and n.get("init") is not None and n["pat"].get("k") in ("PTuple", "Tuple") and len(n["pat"]["elems"]) == 2:
                src = sh.nsrc(RT, n["init"])
                if src.startswith("args[0].unwrap_list()"):
                    scal = n["pat"]["elems"][1].get("name")
        found = []

        def visit(node, loops):
            if isinstance(node, dict):
                if node.get("k") == "For":
                    visit(node["e"], loops)
                    visit(node["body"], loops + [node])
                    return
                if node.get("k") in ("Call", "Path") and (node["f"].get("p") if node["k"] == "Call" and node["f"].get("k") == "Path" else node.get("p")) == "Error::MsmScalarOutOfBounds":
                    found.append(list(loops))
                for x in node.values():
                    visit(x, loops)
            elif isinstance(node, list):
                for x in node:
                    visit(x, loops)

        visit(arm["body"], [])
        ok = scal is not None and bool(found)
        why = []
        for loops in found:
            if not loops:
                ok = False
                why.append("bound test outside any loop")
                continue
            it = sh.nsrc(RT, loops[-1]["e"])
            if not re.search(r"\b%s\b" % re.escape(scal or "?"), it) or re.search(r"\.(zip|take|skip|take_while|step_by)\(", it):
                ok = False
                why.append("bound test inside `for … in %s`" % it[:60])
        rep.check(ok, "R04-GROUPSIB", v + "#bounds-every-scalar", sh.loc(RT, arm), "%s must test *every* element of its scalar list `%s` against the bound (a loop over that list alone): %s — a scalar beyond 512 bytes that the shorter point list leaves unpaired must still fail the call" % (v, scal, "; ".join(why) or "no MsmScalarOutOfBounds exit found"), sample={"scalars": scal, "exits": len(found)})


# ---------------------------------------------------------------------------------------------------------
# R04-SERIAL: the canonical CBOR form written by serialiseData (type-resolved calls on the minicbor encoder)
# ---------------------------------------------------------------------------------------------------------
LIBRS = "crates/uplc/src/lib.rs"


def _enc_calls(f):
    """[(method, type-args, args)] of calls on minicbor::Encoder in a function"""
    out = []
    for b in f["blocks"]:
        m = re.search(r"minicbor::Encoder::<W>::(\w+)$", b.get("callee") or "") if b.get("k") == "call" else None
        if m:
            out.append((m.group(1), b.get("targs") or "", b.get("a") or []))
    return out


def r_serial(fl, rep):
    """The Plutus specification fixes the bytes of serialiseData: lists (and constructor fields) indefinite-length unless
    empty, maps definite-length, byte strings in 64-byte chunks when longer than 64 bytes, integers in the shortest CBOR
    form. The first two are written by hand in uplc/src/lib.rs; the last two are what pallas' Encode impls of BoundedBytes
    and BigInt do, so the re-encoder must delegate to exactly those impls (resolved type argument of Encoder::encode)."""
    fns = {n: fl.fn("uplc::reencode_plutus_" + n) for n in ("data", "constr", "map", "array", "bytes", "bigint")}
    for n, f in fns.items():
        rep.touched(LIBRS, "reencode_plutus_" + n)
    routed = sorted({(b.get("callee") or "").split("reencode_plutus_")[-1] for b in fns["data"]["blocks"] if b.get("k") == "call" and "reencode_plutus_" in (b.get("callee") or "")})
    rep.check(routed == ["array", "bigint", "bytes", "constr", "map"], "R04-SERIAL", "data#one-re-encoder-per-constructor", "%s:%s" % (LIBRS, fns["data"]["line"]), "reencode_plutus_data routes to %s; each of the five Data constructors has its own re-encoder" % routed, sample={"routes": routed})
    m = _enc_calls(fns["map"])
    rep.check([x[0] for x in m] == ["map"], "R04-SERIAL", "map#definite-length", "%s:%s" % (LIBRS, fns["map"]["line"]), "maps must be written with a definite length header only (Encoder::map); found %s" % [x[0] for x in m], sample={"encoder_calls": [x[0] for x in m]})
    a = _enc_calls(fns["array"])
    names = sorted(x[0] for x in a)
    zero = [x for x in a if x[0] == "array"]
    rep.check(names == ["array", "begin_array", "end"] and len(zero) == 1 and re.match(r"^0(_u\d+)?$", (zero[0][2] + ["", ""])[1] or ""), "R04-SERIAL", "array#indefinite-unless-empty", "%s:%s" % (LIBRS, fns["array"]["line"]), "lists must be written as array(0) when empty and begin_array … end otherwise; found %s" % [(x[0], x[2][1:]) for x in a], sample={"encoder_calls": names})
    for n, ty in (("bytes", "BoundedBytes"), ("bigint", "BigInt")):
        c = _enc_calls(fns[n])
        rep.check(len(c) == 1 and c[0][0] == "encode" and re.search(r"pallas_primitives::%s\b" % ty, c[0][1]), "R04-SERIAL", "%s#delegates-to-pallas-%s-encoder" % (n, ty), "%s:%s" % (LIBRS, fns[n]["line"]), "reencode_plutus_%s must hand the value to pallas' Encode impl of %s (found %s): that impl carries the canonical form — 64-byte chunks for long byte strings, shortest integer form — a direct Encoder::bytes / int call writes other bytes for the same value" % (n, ty, [(x[0], x[1][-60:]) for x in c]), sample={"encoder_calls": [x[0] for x in c]})
    c = _enc_calls(fns["constr"])
    fields_via_array = any("reencode_plutus_array" in (b.get("callee") or "") for b in fns["constr"]["blocks"] if b.get("k") == "call")
    rep.check("tag" in [x[0] for x in c] and fields_via_array and not {"begin_array", "end"} & {x[0] for x in c}, "R04-SERIAL", "constr#tag-then-fields-as-list", "%s:%s" % (LIBRS, fns["constr"]["line"]), "a constructor is its tag followed by its fields written by the list re-encoder; found encoder calls %s, fields via reencode_plutus_array: %s" % ([x[0] for x in c], fields_via_array), sample={"encoder_calls": [x[0] for x in c]})


def _int_pattern_sites(body):
    """(pattern node, failure continuation) for every pattern on BigInt::Int: else-block of a let-else, else-branch of an
    if-let, bodies of the catch-all arms of the enclosing match (None when there is nothing to run)."""
    out = []

    def is_int(n):
        return isinstance(n, dict) and n.get("k") in ("PPath", "PTupleStruct", "PStruct") and re.search(r"(^|::)BigInt::Int$", n.get("p") or "")

    def pats_in(p):
        return [x for x in walk(p) if is_int(x)]

    for n in walk(body):
        k = n.get("k")
        if k == "Local" and n.get("pat") is not None:
            for x in pats_in(n["pat"]):
                out.append((x, n.get("else")))
        elif k == "If" and isinstance(n.get("cond"), dict):
            for lc in walk(n["cond"]):
                if lc.get("k") == "LetCond":
                    for x in pats_in(lc["pat"]):
                        out.append((x, n.get("else")))
        elif k == "Match":
            for a in n["arms"]:
                xs = pats_in(a["pat"])
                if xs:
                    fb = [b["body"] for b in n["arms"] if b is not a and all(h is None or not re.search(r"[A-Z]", last(h)) for h in [pat_head(q_) for q_ in _flat_alts(b["pat"])])]
                    for x in xs:
                        out.append((x, {"k": "Block", "s": n["s"], "stmts": fb} if fb else None))
    return out


def _flat_alts(p):
    """alternatives of a pattern, tuples flattened to their components"""
    out = []
    for a in pat_alts(p):
        if a.get("k") in ("PTuple", "Tuple"):
            for e in a.get("elems", []):
                out.extend(_flat_alts(e))
        else:
            out.append(a)
    return out


def r_bigintsites(sh, rep, rid):
    """PlutusData integers beyond 64 bits are stored as magnitudes, negative ones as the magnitude of -1-n. Exactly two
    functions know that (machine/value.rs: from_pallas_bigint / to_pallas_bigint); every other place converts through them.
    A reducer, size measure or printer that matches on BigUInt / BigNInt itself re-implements the convention — the place
    where `-magnitude` is written for `-1-magnitude` and only integers below -2^64 show it."""
    found = {}
    intpats = []
    for rel in sh.files():
        if not rel.startswith("crates/") or "/tests/" in rel or rel.endswith("tests.rs"):
            continue
        fj = sh.file(rel)
        for q, f in all_fns(fj):
            if "body" not in f:
                continue
            hits = [n for n in walk(f["body"]) if n["k"] in ("PPath", "PTupleStruct", "PStruct", "Path", "Call") and re.search(r"(^|::)BigInt::(BigUInt|BigNInt)$", (n.get("p") or (n["f"].get("p") if n["k"] == "Call" and n["f"]["k"] == "Path" else "") or ""))]
            if hits:
                found[(rel, q)] = hits
            # a *pattern* on BigInt::Int (constructing one from a machine integer is total and fine) is a partial reader: it
            # accepts the 64-bit form only. That is sound exactly when the other case falls through to something that does
            # not abort (an optimisation that simply does not fire); a let-else / catch-all arm that panics turns every
            # integer beyond 64 bits into a crash of the compiler or evaluator.
            for pat, fail in _int_pattern_sites(f["body"]):
                boom = [x for x in (walk(fail) if fail is not None else ()) if (x["k"] == "Macro" and last(x.get("path", "")) in ("panic", "unreachable", "todo", "unimplemented")) or (x["k"] == "MethodCall" and x["m"] in ("unwrap", "expect"))]
                if not (q.split("::")[-1] in BIGINT_OWNERS and rel == "crates/uplc/src/machine/value.rs"):
                    intpats.append((rel, q, pat, boom))
    seen = set()
    for (rel, q), hits in sorted(found.items()):
        owner = q.split("::")[-1] in BIGINT_OWNERS and rel == "crates/uplc/src/machine/value.rs"
        if owner:
            seen.add(q.split("::")[-1])
        rep.check(owner, rid, "bigint-repr-site#%s#%s" % (rel.split("/")[-1], q), sh.loc(rel, hits[0]), "%s in %s takes pallas' Int / BigUInt / BigNInt representation apart itself instead of going through from_pallas_bigint / to_pallas_bigint: a private copy of the `-1 - magnitude` convention, wrong values (or sizes) only for integers beyond 64 bits" % (q, rel), why_ok="owner of the convention", sample={"sites": len(hits)})
    for i, (rel, q, pat, boom) in enumerate(intpats):
        rep.check(not boom, rid, "bigint-int-pattern#%s#%s#%d" % (rel.split("/")[-1], q, i), sh.loc(rel, pat), "%s matches only the 64-bit form BigInt::Int of a Data integer and the other case runs into `%s` (line %s): any integer beyond 64 bits reaching this place aborts the process" % (q, (boom[0].get("path") or boom[0].get("m")) if boom else "-", boom[0]["s"][0] if boom else "-"), why_ok="partial reader whose fallback does not abort", sample={"fn": q})
    if seen != BIGINT_OWNERS:
        rep.bad(rid, "bigint-repr-site#owners", "crates/uplc/src/machine/value.rs", "expected from_pallas_bigint and to_pallas_bigint to match on BigUInt / BigNInt (found %s): the detector may be blind (anchor)" % sorted(seen))


# ---------------------------------------------------------------------------------------------------------
# R04-GATEFIRST
# ---------------------------------------------------------------------------------------------------------
def r_gatefirst(sh, rep, t):
    """Under a later semantics variant some builtins take a bounded `Int` where earlier variants take an Integer (shift and
    rotate amounts). The specification's machine fails while *reading* such an argument, i.e. whatever the other arguments
    are. In the call arm that is an `if <semantics ..> && <range test> { return Err(..) }`: no successful return may come
    before it, or the failure depends on an unrelated argument (rotating the empty string by 2^63 must still fail)."""
    n = 0
    for v, arm in t.call.items():
        body = arm["body"]
        if body.get("k") != "Block":
            continue
        seen_ok = None
        for st in body["stmts"]:
            e = st.get("e") if st.get("k") == "ExprStmt" else st.get("init") if st.get("k") == "Local" else st
            if e is None:
                continue
            gated = e.get("k") == "If" and re.search(r"(?<![\w.])semantics\b", sh.nsrc(RT, e["cond"])) and any(x.get("k") == "Return" and "Err(" in sh.nsrc(RT, x) for x in walk(e["then"]))
            if gated:
                n += 1
                rep.check(seen_ok is None, "R04-GATEFIRST", "%s#gated-failure-before-any-success" % v, sh.loc(RT, e), "the %s arm can return successfully (line %s) before its semantics-gated argument check `%s`: for those arguments the application succeeds under a variant where reading the argument already fails" % (v, seen_ok["s"][0] if seen_ok else "?", sh.nsrc(RT, e["cond"])[:80]), sample={"builtin": v, "gate": sh.nsrc(RT, e["cond"])[:120]})
            oks = [x for x in walk(e) if x.get("k") == "Return" and sh.nsrc(RT, x).startswith("returnOk(")]
            if oks and seen_ok is None:
                seen_ok = oks[0]
    if n < 2:
        raise AnchorMissing("semantics-gated failure checks in DefaultFunction::call (found %d, 2 on the pinned tree: shiftByteString, rotateByteString)" % n)
