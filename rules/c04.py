"""C04 — every builtin computes its specified function on its whole domain.

Decided statically: per-builtin agreement of arity / argument types between
evaluator, cost model and Aiken signature; which integer-division operation
each of the four division builtins calls (rounding family, component, zero
test first); constructor-tag range maps are mutual inverses and agree with
Data::constr; the semantics gate is total and matches the ledger's table.
Not decided: numerical results, bit numbering, padding, crypto.
"""
import re
from .lib import *
from .btab import BuiltinTables, RT
from . import builtin_rules as br

EXPLANATION = (
    "Per-builtin sibling tables (91 rows x {arity, argument unwrappers, cost arguments, Aiken parameter types}); a 4-row division table "
    "(library operation -> rounding family and tuple component, divisor tested for zero before the operation); endpoint evaluation of the three "
    "piecewise-affine constructor-tag maps (convert_tag_to_constr, convert_constr_to_tag, Data::constr); exhaustive symbolic evaluation of "
    "BuiltinSemantics::for_language_and_protocol over 3 languages x protocol versions 7..12 against the ledger's variant table."
)
LEVEL_NOTE = "decides which operation is called and that tables agree; the arithmetic of num-bigint, blst, secp256k1 and the hash crates is trusted"

A = "crates/uplc/src/ast.rs"

# spec (Plutus builtin specification): divideInteger/modInteger round towards -inf, quotientInteger/remainderInteger towards 0
DIV_SPEC = {"DivideInteger": ("floor", 0), "ModInteger": ("floor", 1), "QuotientInteger": ("trunc", 0), "RemainderInteger": ("trunc", 1)}
# classification of num-integer operations: name -> (family, returns) ; returns: 'pair' (quotient, remainder) | 0 quotient | 1 remainder
DIV_OPS = {
    "div_mod_floor": ("floor", "pair"),
    "div_floor": ("floor", 0),
    "mod_floor": ("floor", 1),
    "div_rem": ("trunc", "pair"),
    "div_euclid": ("euclid", 0),
    "rem_euclid": ("euclid", 1),
    "div_ceil": ("ceil", 0),
}
# review table: rows where the Aiken signature (the sibling used as oracle), not the evaluator, deviates from the Plutus specification
SIG_ORACLE_WRONG = {
    "ChooseUnit#0": "the evaluator unwraps a unit as the Plutus spec says (chooseUnit : unit -> a -> a); the Aiken signature declares Data — that is a type-checker defect, reported under C06 (R06-SIG)",
}

# spec (Plutus ledger API, builtinSemanticsVariant): language x protocol major version -> variant
def gate_spec(lang, pv):
    if lang in ("PlutusV1", "PlutusV2"):
        return "A" if pv < 9 else ("B" if pv < 11 else "D")
    return "C" if pv < 11 else "E"


def run(ctx, rep):
    sh = ctx.shape
    rep.rule("R04-ARITY", "arity agrees across arity(), call arm, cost arm and Aiken signature (91 builtins)", floor=91)
    rep.rule("R04-SIG", "position by position the evaluator unwraps the type the Aiken signature declares (91 builtins)", floor=91)
    rep.rule("R04-DIVMOD", "the four division builtins call the right rounding family, take the right component and test the divisor first", floor=4)
    rep.rule("R04-TAGS", "constructor-tag range maps are mutual inverses, avoid the generic tag 102, and agree with Data::constr", floor=8)
    rep.rule("R04-GATE", "BuiltinSemantics::for_language_and_protocol is total and equals the ledger's variant table; for_language is its latest-protocol column", floor=18)
    t = None
    try:
        t = BuiltinTables(sh)
    except AnchorMissing as e:
        rep.anchor_missing("R04-ARITY", e)
    if t:
        rep.touched(RT, "DefaultFunction::call")
        rep.guarded("R04-ARITY", lambda: br.rule_arity(t, rep, "R04-ARITY"))
        rep.guarded("R04-SIG", lambda: br.rule_sig(t, rep, "R04-SIG", oracle_wrong=SIG_ORACLE_WRONG))
        rep.guarded("R04-DIVMOD", lambda: r_divmod(sh, rep, t))
        rep.rule("R04-WRAP", "consByteString: the wrapping variant reduces with mod_floor(256); the checked variant rejects both sides", floor=2)
        rep.guarded("R04-WRAP", lambda: r_wrap(sh, rep, t))
    rep.guarded("R04-TAGS", lambda: r_tags(sh, rep))
    rep.rule("R04-TAGSITE", "the constructor-tag ranges are spelled out only in the functions R04-TAGS evaluates", floor=3)
    rep.guarded("R04-TAGSITE", lambda: r_tagsites(sh, rep, "R04-TAGSITE"))
    rep.rule("R04-BIGINTSITE", "pallas' BigUInt/BigNInt representation is taken apart only in from_pallas_bigint / to_pallas_bigint", floor=2)
    rep.guarded("R04-BIGINTSITE", lambda: r_bigintsites(sh, rep, "R04-BIGINTSITE"))
    rep.guarded("R04-GATE", lambda: r_gate(sh, rep))


def r_divmod(sh, rep, t):
    for v, (fam, comp) in DIV_SPEC.items():
        if v not in t.call:
            rep.bad("R04-DIVMOD", v + "#no-arm", RT, "no call arm")
            continue
        arm = t.call[v]
        where = sh.loc(RT, arm)
        ops = [c for c in calls_in(arm["body"]) if c["k"] == "MethodCall" and c["m"] in DIV_OPS]
        raw = [n for n in walk(arm["body"]) if n["k"] == "Binary" and n["op"] in ("/", "%")]
        if raw:
            ops_desc = "operator %s" % raw[0]["op"]
            f2, ret = ("trunc", 0 if raw[0]["op"] == "/" else 1)
            site = raw[0]
        elif len(ops) == 1:
            f2, ret = DIV_OPS[ops[0]["m"]]
            ops_desc = ops[0]["m"]
            site = ops[0]
        else:
            rep.bad("R04-DIVMOD", v + "#unclassified", where, "expected exactly one recognised integer-division operation (%s), found %r" % (sorted(DIV_OPS), [o["m"] for o in ops]))
            continue
        problems = []
        if f2 != fam:
            problems.append("uses %s (%s rounding) but the specification requires %s rounding" % (ops_desc, f2, fam))
        # which component
        got = ret
        if ret == "pair":
            got = None
            for n in walk(arm["body"]):
                if n["k"] == "Local" and n["pat"]["k"] == "PTuple" and "init" in n and any(x is site for x in walk(n["init"])):
                    el = n["pat"]["elems"]
                    if len(el) == 2:
                        kinds = [e["k"] for e in el]
                        if kinds == ["Ident", "Wild"]:
                            got = 0
                        elif kinds == ["Wild", "Ident"]:
                            got = 1
            if got is None:
                problems.append("cannot tell which component of the (quotient, remainder) pair is used")
        if got is not None and got != comp:
            problems.append("takes the %s but %s must return the %s" % (["quotient", "remainder"][got], v, ["quotient", "remainder"][comp]))
        # argument order: arg1 is the dividend (receiver), arg2 the divisor
        if site["k"] == "MethodCall":
            r = sh.nsrc(RT, site["recv"])
            a = sh.nsrc(RT, site["args"][0]) if site["args"] else ""
            if not (r == "arg1" and a == "arg2"):
                problems.append("operands are (%s, %s); the dividend must be the first builtin argument" % (r, a))
        # zero test encloses the operation
        guarded = False
        for n in walk(arm["body"]):
            if n["k"] == "If" and re.fullmatch(r"\*arg2!=0\.into\(\)|!arg2\.is_zero\(\)", sh.nsrc(RT, n["cond"])):
                if any(x is site for x in walk(n["then"])) and n.get("else") is not None and "DivideByZero" in sh.nsrc(RT, n["else"]):
                    guarded = True
        if not guarded:
            problems.append("the operation is not inside `if *arg2 != 0 {..} else {Err(DivideByZero)}`: a zero divisor reaches the division")
        if problems:
            rep.bad("R04-DIVMOD", v, where, "; ".join(problems), sample={"builtin": v, "operation": ops_desc})
        else:
            rep.ok("R04-DIVMOD", v, where, sample={"builtin": v, "operation": ops_desc, "family": f2, "component": ["quotient", "remainder"][comp]})


_PIECE_ENV = {}


def ev(e, env):
    k = e["k"]
    if k == "Lit" and e["lk"] == "int":
        return int(e["v"])
    if k == "Path":
        if e["p"] in env:
            return env[e["p"]]
        if e["p"] in _PIECE_ENV:
            return _PIECE_ENV[e["p"]]
        raise ValueError("free " + e["p"])
    if k == "Cast":
        return ev(e["e"], env)
    if k == "Binary":
        l, r = ev(e["l"], env), ev(e["r"], env)
        return {"+": l + r, "-": l - r, "*": l * r}[e["op"]]
    raise ValueError("cannot evaluate " + k)


def _file_consts(fj):
    """private integer constants of a file (resolved recursively on demand by ev)"""
    out = {}
    for _, it in items(fj):
        if it["k"] in ("Const", "Static") and it.get("e") is not None:
            try:
                out[it["name"]] = ev(it["e"], out)
            except (ValueError, KeyError):
                pass
    return out


def pieces_contains(sh, rel, fn, var):
    """[(lo, hi, expr)] from either form of a piecewise map to Option:
         if (lo..=hi).contains(&var) { Some(expr) } else if .. else { None }
         match var { lo..=hi => Some(expr), .., _ => None }
    range ends may be literals or named constants of the file; the returned expressions are evaluated with those constants bound"""
    consts = _file_consts(sh.file(rel))
    _PIECE_ENV.clear()
    _PIECE_ENV.update(consts)
    out = []
    node = None
    for st in fn["body"]["stmts"]:
        if st["k"] == "ExprStmt" and st["e"]["k"] == "If":
            node = st["e"]
    if node is None:
        for m in matches_in(fn["body"], lambda e: e["k"] == "Path" and e["p"] == var):
            for a in m["arms"]:
                p = a["pat"]
                body = a["body"]
                while body["k"] == "Block" and len(body["stmts"]) == 1 and body["stmts"][0]["k"] == "ExprStmt":
                    body = body["stmts"][0]["e"]
                if p["k"] == "PRange" and p.get("lo") is not None and p.get("hi") is not None:
                    lo, hi = ev(p["lo"], consts), ev(p["hi"], consts)
                    if not p["closed"]:
                        hi -= 1
                elif p["k"] == "PLit":
                    lo = hi = ev(p["e"], consts)
                elif is_catch_all(p):
                    continue
                else:
                    raise AnchorMissing("arm shape of %s" % fn["name"])
                if body["k"] == "Call" and call_name(body) == "Some":
                    out.append((lo, hi, body["args"][0]))
                else:
                    raise AnchorMissing("piece body of %s" % fn["name"])
            return out
        raise AnchorMissing("piecewise definition of %s (if-chain or match)" % fn["name"])
    while node is not None and node["k"] == "If":
        c = node["cond"]
        if c["k"] == "MethodCall" and c["m"] == "contains" and c["recv"]["k"] == "Range":
            lo, hi = ev(c["recv"]["lo"], consts), ev(c["recv"]["hi"], consts)
            if not c["recv"]["closed"]:
                hi -= 1
            body = node["then"]["stmts"][-1]["e"]
            if body["k"] == "Call" and call_name(body) == "Some":
                out.append((lo, hi, body["args"][0]))
            else:
                raise AnchorMissing("piece body of %s" % fn["name"])
        else:
            raise AnchorMissing("range test of %s" % fn["name"])
        node = node.get("else")
        if node is not None and node["k"] == "Block":
            break
    return out


def r_tags(sh, rep):
    rt = sh.file(RT)
    t2c = find_fn(rt, "convert_tag_to_constr")
    c2t = find_fn(rt, "convert_constr_to_tag")
    rep.touched(RT, "convert_tag_to_constr")
    rep.touched(RT, "convert_constr_to_tag")
    any_tag = None
    for _, it in items(rt):
        if it["k"] in ("Static", "Const") and it["name"] == "ANY_TAG":
            any_tag = ev(it["e"], {})
    if any_tag is None:
        raise AnchorMissing("ANY_TAG")
    vt = t2c["sig"]["inputs"][0]["pat"]["name"]
    vc = c2t["sig"]["inputs"][0]["pat"]["name"]
    P_t2c = pieces_contains(sh, RT, t2c, vt)
    P_c2t = pieces_contains(sh, RT, c2t, vc)

    def apply(P, var, x):
        for lo, hi, e in P:
            if lo <= x <= hi:
                return ev(e, {var: x})
        return None

    for lo, hi, e in P_c2t:
        okp = True
        for x in (lo, hi, (lo + hi) // 2):
            y = ev(e, {vc: x})
            back = apply(P_t2c, vt, y)
            if back != x:
                okp = False
                rep.bad("R04-TAGS", "c2t[%d..%d]#not-inverted" % (lo, hi), sh.loc(RT, c2t), "constructor %d maps to tag %d, which convert_tag_to_constr maps back to %s" % (x, y, back))
                break
        img = (ev(e, {vc: lo}), ev(e, {vc: hi}))
        if okp:
            rep.check(not (img[0] <= any_tag <= img[1]), "R04-TAGS", "c2t[%d..%d]" % (lo, hi), sh.loc(RT, c2t), "image %r contains the generic-constructor tag %d" % (img, any_tag), sample={"constr": [lo, hi], "tags": list(img)})
    for lo, hi, e in P_t2c:
        okp = True
        for x in (lo, hi, (lo + hi) // 2):
            y = ev(e, {vt: x})
            back = apply(P_c2t, vc, y)
            if back != x:
                okp = False
                rep.bad("R04-TAGS", "t2c[%d..%d]#not-inverted" % (lo, hi), sh.loc(RT, t2c), "tag %d maps to constructor %d, which convert_constr_to_tag maps back to %s" % (x, y, back))
                break
        if okp:
            rep.check(not (lo <= any_tag <= hi), "R04-TAGS", "t2c[%d..%d]" % (lo, hi), sh.loc(RT, t2c), "domain contains the generic tag %d" % any_tag, sample={"tags": [lo, hi], "constr": [ev(e, {vt: lo}), ev(e, {vt: hi})]})
    # pieces are contiguous from 0 on the constructor side
    dom = sorted((lo, hi) for lo, hi, _ in P_c2t)
    contiguous = dom and dom[0][0] == 0 and all(dom[i][1] + 1 == dom[i + 1][0] for i in range(len(dom) - 1))
    rep.check(contiguous, "R04-TAGS", "c2t#contiguous", sh.loc(RT, c2t), "constructor ranges %r are not contiguous from 0" % dom)
    # Data::constr agrees
    fa = sh.file(A)
    dc = find_method(fa, "Data", "constr")
    rep.touched(A, "Data::constr")
    var = dc["sig"]["inputs"][0]["pat"]["name"]
    pieces, generic = _constr_pieces(sh, dc, var)
    lo = 0
    for plo, hi, tag_e, any_e, node in pieces:
        okp = plo == lo and tag_e is not None and all(ev(tag_e, {var: x}) == apply(P_c2t, vc, x) for x in (plo, hi)) and any_e is not None and sh.nsrc(A, any_e) == "None"
        rep.check(okp, "R04-TAGS", "Data::constr[%d..%d]" % (plo, hi), sh.loc(A, node), "Data::constr disagrees with convert_constr_to_tag on constructors %d..%d (tags %s vs %s): a value built here is not read back by convert_tag_to_constr" % (plo, hi, [ev(tag_e, {var: x}) for x in (plo, hi)] if tag_e else None, [apply(P_c2t, vc, x) for x in (plo, hi)]), sample={"constr": [plo, hi], "tags": [ev(tag_e, {var: plo}), ev(tag_e, {var: hi})] if tag_e else None})
        lo = hi + 1
    okg = False
    if generic is not None:
        gt, ga = generic
        okg = gt is not None and ev(gt, {}) == any_tag and ga is not None and sh.nsrc(A, ga) == "Some(%s)" % var
    top = max(hi for _, hi, _ in P_c2t)
    rep.check(okg and lo == top + 1, "R04-TAGS", "Data::constr[generic]", sh.loc(A, dc), "beyond constructor %d Data::constr must use tag %d with any_constructor = Some(ix) (generic branch starts at %d)" % (top, any_tag, lo))


def _constr_pieces(sh, dc, var):
    """Data::constr as [(lo, hi, tag expr, any_constructor expr, node)] + generic (tag expr, any expr); accepts the
    `if ix < N {..} else if ..` chain and the `match ix { lo..=hi => .., _ => .. }` form (struct or (tag, any) tuple bodies)"""

    def tag_any(body):
        for s_ in walk(body):
            if s_["k"] == "Struct" and last(s_["p"]) == "Constr":
                d = {fi["name"]: fi["e"] for fi in s_["fields"]}
                if "tag" in d and "any_constructor" in d and not (d["tag"]["k"] == "Path" and d["tag"]["p"] == "tag"):
                    return d["tag"], d["any_constructor"]
        for s_ in walk(body):
            if s_["k"] == "Tuple" and len(s_["es"]) == 2:
                return s_["es"][0], s_["es"][1]
        return None, None

    pieces, generic = [], None
    ifs = [st["e"] for st in dc["body"]["stmts"] if st["k"] == "ExprStmt" and st["e"]["k"] == "If"]
    if ifs:
        node = ifs[-1]
        lo = 0
        while node is not None and node["k"] == "If":
            c = node["cond"]
            if not (c["k"] == "Binary" and c["op"] in ("<", "<=") and sh.nsrc(A, c["l"]) == var):
                raise AnchorMissing("Data::constr condition shape")
            hi = ev(c["r"], {}) - (1 if c["op"] == "<" else 0)
            t, a_ = tag_any(node["then"])
            pieces.append((lo, hi, t, a_, node))
            lo = hi + 1
            node = node.get("else")
        if node is not None:
            generic = tag_any(node)
        return pieces, generic
    for m in matches_in(dc["body"], lambda e: e["k"] == "Path" and e["p"] == var):
        for a_ in m["arms"]:
            p = a_["pat"]
            if p["k"] == "PRange" and p.get("lo") and p.get("hi"):
                lo, hi = ev(p["lo"], {}), ev(p["hi"], {})
                if not p["closed"]:
                    hi -= 1
                t, an = tag_any(a_["body"])
                pieces.append((lo, hi, t, an, a_))
            elif p["k"] == "PLit":
                v = ev(p["e"], {})
                t, an = tag_any(a_["body"])
                pieces.append((v, v, t, an, a_))
            elif is_catch_all(p):
                generic = tag_any(a_["body"])
            else:
                raise AnchorMissing("Data::constr match arm shape")
        pieces.sort(key=lambda x: x[0])
        return pieces, generic
    raise AnchorMissing("Data::constr: neither an if-chain nor a match on the constructor index")


def const_int(fj, name):
    for _, it in items(fj):
        if it["k"] in ("Const", "Static") and it["name"] == name:
            return ev(it["e"], {})
    raise AnchorMissing("const " + name)


def eval_gate(sh, fj, fn, lang, pv):
    m = next(matches_in(fn["body"]))
    for arm in m["arms"]:
        langs = [last(pat_head(a)) for a in pat_alts(arm["pat"])]
        if lang not in langs and not is_catch_all(arm["pat"]):
            continue
        if "guard" in arm:
            g = arm["guard"]
            if not (g["k"] == "Binary" and g["op"] in (">=", ">", "<", "<=", "==") and sh.nsrc(RT, g["l"]) == "protocol_major_version"):
                raise AnchorMissing("guard shape in for_language_and_protocol")
            rhs = const_int(fj, g["r"]["p"]) if g["r"]["k"] == "Path" else ev(g["r"], {})
            if not eval("%d %s %d" % (pv, g["op"], rhs)):
                continue
        ps = [last(p) for p in paths_in(arm["body"]) if "BuiltinSemantics::" in p]
        return ps[0] if ps else None
    return None


def r_gate(sh, rep):
    fj = sh.file(RT)
    f = find_method(fj, "BuiltinSemantics", "for_language_and_protocol")
    g = find_method(fj, "BuiltinSemantics", "for_language")
    rep.touched(RT, "BuiltinSemantics::for_language_and_protocol")
    produced = set()
    for lang in ("PlutusV1", "PlutusV2", "PlutusV3"):
        for pv in (7, 8, 9, 10, 11, 12):
            got = eval_gate(sh, fj, f, lang, pv)
            produced.add(got)
            want = gate_spec(lang, pv)
            rep.check(got == want, "R04-GATE", "%s@pv%d" % (lang, pv), sh.loc(RT, f), "%s at protocol %d selects variant %s; the ledger table says %s" % (lang, pv, got, want), sample={"language": lang, "protocol": pv, "variant": got})
    rep.check(produced == {"A", "B", "C", "D", "E"}, "R04-GATE", "all-variants-produced", sh.loc(RT, f), "variants produced: %s" % sorted(x for x in produced if x))
    m = next(matches_in(g["body"]))
    for arm in m["arms"]:
        ps = [last(p) for p in paths_in(arm["body"]) if "BuiltinSemantics::" in p]
        for a in pat_alts(arm["pat"]):
            lang = last(pat_head(a))
            rep.check(ps and ps[0] == gate_spec(lang, 99), "R04-GATE", "for_language#%s" % lang, sh.loc(RT, arm), "for_language(%s) gives %s, the latest-protocol variant is %s" % (lang, ps, gate_spec(lang, 99)))


# ---------------------------------------------------------------------------------------------------------
# tag-map sites: the compact-constructor tag ranges are written down in exactly the functions R04-TAGS evaluates
# ---------------------------------------------------------------------------------------------------------
TAG_LITERALS = {"121", "1280", "1400", "127"}
TAG_MAP_OWNERS = {
    ("crates/uplc/src/machine/runtime.rs", "convert_tag_to_constr"),
    ("crates/uplc/src/machine/runtime.rs", "convert_constr_to_tag"),
    ("crates/uplc/src/ast.rs", "Data::constr"),
}


TAG_SITE_REVIEWED = {
    ("crates/aiken-lang/src/test_framework.rs", "Prng::from_result"): "`121 + Prng::SEEDED/REPLAYED` with the two constant constructor indices 0 and 1 (< 7): only the first compact range, no range boundary involved",
}


def r_tagsites(sh, rep, rid):
    """who-may-write rule over the *knowledge* of the tag map: a second hand-written copy of the ranges (a printer, a
    decoder, a builder) is a place where `1280..1400` can be off by one without R04-TAGS seeing it. Every other site must
    go through the converters. Only integer literals that take part in a range, a range pattern, a comparison or +/- with a
    tag-like operand count (a bare 127 elsewhere is not a tag)."""
    found = {}
    for rel in sh.files():
        if not rel.startswith("crates/") or "/tests/" in rel or rel.endswith("tests.rs"):
            continue
        fj = sh.file(rel)
        _PIECE_ENV.clear()
        fconsts = {k: v for k, v in _file_consts(fj).items() if isinstance(v, int)}
        for q, f in all_fns(fj):
            hits = []
            for n in walk(f["body"]) if "body" in f else []:
                lits = []
                if n["k"] == "Range":
                    lits = [x for x in (n.get("lo"), n.get("hi")) if x]
                elif n["k"] == "Binary" and n["op"] in ("+", "-", "<", "<=", ">", ">=", "=="):
                    lits = [n["l"], n["r"]]
                elif n["k"] == "PRange":
                    lits = [x for x in (n.get("lo"), n.get("hi")) if x]
                vals = [x["v"] for x in lits if isinstance(x, dict) and x.get("k") == "Lit" and x.get("lk") == "int"]
                # a named constant holding one of the range ends is the same knowledge under another spelling
                vals += [str(fconsts[x["p"]]) for x in lits if isinstance(x, dict) and x.get("k") == "Path" and x["p"] in fconsts]
                if any(v in ("121", "1280", "1400") for v in vals) or (vals.count("127") and any(v in TAG_LITERALS - {"127"} for v in vals)):
                    hits.append(n)
            if hits:
                found[(rel, q)] = hits
    owners_seen = set()
    for (rel, q), hits in sorted(found.items()):
        owner = next((o for o in TAG_MAP_OWNERS if o[0] == rel and (q == o[1] or q.endswith("::" + o[1]))), None)
        if owner:
            owners_seen.add(owner)
            rep.ok(rid, "tag-map-site#%s" % owner[1], sh.loc(rel, hits[0]), why="evaluated by R04-TAGS", sample={"literal_sites": len(hits)})
        elif any(k[0] == rel and (q == k[1] or q.endswith("::" + k[1]) or q.startswith(k[1])) for k in TAG_SITE_REVIEWED) and not any(x.get("k") in ("Range", "PRange") or any(isinstance(y, dict) and y.get("k") == "Lit" and y.get("v") in ("1280", "1400") for y in (x.get("l"), x.get("r"), x.get("lo"), x.get("hi"))) for x in hits):
            why = next(v for k, v in TAG_SITE_REVIEWED.items() if k[0] == rel)
            rep.ok(rid, "tag-map-site#reviewed#%s" % q, sh.loc(rel, hits[0]), why="reviewed: " + why)
        else:
            rep.bad(rid, "tag-map-site#%s#%s" % (rel.split("/")[-1], q), sh.loc(rel, hits[0]), "%s in %s spells out the constructor-tag ranges (121.. / 1280..1400) itself instead of calling convert_tag_to_constr / convert_constr_to_tag / Data::constr: a private copy of the map that R04-TAGS does not evaluate — an off-by-one here changes which Data value is printed, decoded or built" % (q, rel))
    for o in sorted(TAG_MAP_OWNERS - owners_seen):
        # R04-TAGS evaluates the owners whatever their spelling; not finding a literal there is not an error of aiken's
        rep.info("%s: no tag-range literal found in %s any more (R04-TAGS still evaluates it)" % (rid, o[1]))
    if not owners_seen:
        rep.bad(rid, "tag-map-site#owners", "crates/uplc/src/machine/runtime.rs", "none of the functions that own the tag map spells a range end any more: the detector may be blind (anchor)")


# ---------------------------------------------------------------------------------------------------------
# R04-WRAP: consByteString without range checks wraps with a *floor* modulo 256
# ---------------------------------------------------------------------------------------------------------
def r_wrap(sh, rep, t):
    """spec (Plutus builtins, pre-Chang semantics): consByteString n bs prepends `n mod 256` with mod = floor modulo, so
    -1 becomes 0xff. Decided here: which operation reduces the integer — it must be `mod_floor` by the literal 256; the
    truncating family (`%`, rem, low byte of the magnitude) differs exactly on negative inputs."""
    arm = t.call.get("ConsByteString")
    if arm is None:
        raise AnchorMissing("call arm ConsByteString")
    rep.touched(RT, "DefaultFunction::call#ConsByteString")
    ifs = [n for n in walk(arm["body"]) if n["k"] == "If" and any(c["k"] == "MethodCall" and c["m"] == "cons_byte_string_range_checks" for c in walk(n["cond"]))]
    if not ifs or "else" not in ifs[0]:
        raise AnchorMissing("if semantics.cons_byte_string_range_checks() {..} else {..} in ConsByteString")
    els = ifs[0]["else"]
    mods = [c for c in calls_in(els) if c["k"] == "MethodCall" and c["m"] == "mod_floor"]
    lit256 = any(x["k"] == "Lit" and x.get("v") == "256" for m in mods for x in walk(m["args"][0])) if mods else False
    other = [c["m"] for c in calls_in(els) if c["k"] == "MethodCall" and c["m"] in ("to_bytes_le", "to_bytes_be", "to_u8", "rem_euclid", "div_rem", "to_u64_digits", "iter_u64_digits")] + [n["op"] for n in walk(els) if n["k"] == "Binary" and n["op"] in ("%", "&")]
    rep.check(bool(mods) and lit256 and not other, "R04-WRAP", "ConsByteString#wrap-is-floor-mod-256", sh.loc(RT, els), "the wrapping branch of consByteString must reduce the integer with mod_floor(256) (floor modulo: -1 -> 0xff); found %s%s — a truncating / magnitude-based reduction gives another byte for every negative input not divisible by 256" % ([c["m"] for c in mods] or "no mod_floor", (" and " + str(other)) if other else ""), sample={"ops": [c["m"] for c in mods]})
    # the range-checked branch rejects both sides before converting
    then = ifs[0]["then"]
    cmp_ops = {n["op"] for n in walk(then) if n["k"] == "Binary" and n["op"] in ("<", ">", "<=", ">=")}
    rep.check({"<", ">"} <= cmp_ops or {"<=", ">="} <= cmp_ops or len(cmp_ops) >= 2, "R04-WRAP", "ConsByteString#range-check-two-sided", sh.loc(RT, then), "the range-checked branch must reject both n < 0 and n > 255 (found comparisons %s)" % sorted(cmp_ops))


# ---------------------------------------------------------------------------------------------------------
# big-integer representation sites: pallas' BigUInt / BigNInt encoding is taken apart only by the two converters
# ---------------------------------------------------------------------------------------------------------
BIGINT_OWNERS = {"from_pallas_bigint", "to_pallas_bigint"}


def _int_pattern_sites(body):
    """(pattern node, failure continuation) for every pattern on BigInt::Int: else-block of a let-else, else-branch of an
    if-let, bodies of the catch-all arms of the enclosing match (None when there is nothing to run)."""
    out = []

    def is_int(n):
        return isinstance(n, dict) and n.get("k") in ("PPath", "PTupleStruct", "PStruct") and re.search(r"(^|::)BigInt::Int$", n.get("p") or "")

    def pats_in(p):
        return [x for x in walk(p) if is_int(x)]

    for n in walk(body):
        k = n.get("k")
        if k == "Local" and n.get("pat") is not None:
            for x in pats_in(n["pat"]):
                out.append((x, n.get("else")))
        elif k == "If" and isinstance(n.get("cond"), dict):
            for lc in walk(n["cond"]):
                if lc.get("k") == "LetCond":
                    for x in pats_in(lc["pat"]):
                        out.append((x, n.get("else")))
        elif k == "Match":
            for a in n["arms"]:
                xs = pats_in(a["pat"])
                if xs:
                    fb = [b["body"] for b in n["arms"] if b is not a and all(h is None or not re.search(r"[A-Z]", last(h)) for h in [pat_head(q_) for q_ in _flat_alts(b["pat"])])]
                    for x in xs:
                        out.append((x, {"k": "Block", "s": n["s"], "stmts": fb} if fb else None))
    return out


def _flat_alts(p):
    """alternatives of a pattern, tuples flattened to their components"""
    out = []
    for a in pat_alts(p):
        if a.get("k") in ("PTuple", "Tuple"):
            for e in a.get("elems", []):
                out.extend(_flat_alts(e))
        else:
            out.append(a)
    return out


def r_bigintsites(sh, rep, rid):
    """PlutusData integers beyond 64 bits are stored as magnitudes, negative ones as the magnitude of -1-n. Exactly two
    functions know that (machine/value.rs: from_pallas_bigint / to_pallas_bigint); every other place converts through them.
    A reducer, size measure or printer that matches on BigUInt / BigNInt itself re-implements the convention — the place
    where `-magnitude` is written for `-1-magnitude` and only integers below -2^64 show it."""
    found = {}
    intpats = []
    for rel in sh.files():
        if not rel.startswith("crates/") or "/tests/" in rel or rel.endswith("tests.rs"):
            continue
        fj = sh.file(rel)
        for q, f in all_fns(fj):
            if "body" not in f:
                continue
            hits = [n for n in walk(f["body"]) if n["k"] in ("PPath", "PTupleStruct", "PStruct", "Path", "Call") and re.search(r"(^|::)BigInt::(BigUInt|BigNInt)$", (n.get("p") or (n["f"].get("p") if n["k"] == "Call" and n["f"]["k"] == "Path" else "") or ""))]
            if hits:
                found[(rel, q)] = hits
            # a *pattern* on BigInt::Int (constructing one from a machine integer is total and fine) is a partial reader: it
            # accepts the 64-bit form only. That is sound exactly when the other case falls through to something that does
            # not abort (an optimisation that simply does not fire); a let-else / catch-all arm that panics turns every
            # integer beyond 64 bits into a crash of the compiler or evaluator.
            for pat, fail in _int_pattern_sites(f["body"]):
                boom = [x for x in (walk(fail) if fail is not None else ()) if (x["k"] == "Macro" and last(x.get("path", "")) in ("panic", "unreachable", "todo", "unimplemented")) or (x["k"] == "MethodCall" and x["m"] in ("unwrap", "expect"))]
                if not (q.split("::")[-1] in BIGINT_OWNERS and rel == "crates/uplc/src/machine/value.rs"):
                    intpats.append((rel, q, pat, boom))
    seen = set()
    for (rel, q), hits in sorted(found.items()):
        owner = q.split("::")[-1] in BIGINT_OWNERS and rel == "crates/uplc/src/machine/value.rs"
        if owner:
            seen.add(q.split("::")[-1])
        rep.check(owner, rid, "bigint-repr-site#%s#%s" % (rel.split("/")[-1], q), sh.loc(rel, hits[0]), "%s in %s takes pallas' Int / BigUInt / BigNInt representation apart itself instead of going through from_pallas_bigint / to_pallas_bigint: a private copy of the `-1 - magnitude` convention, wrong values (or sizes) only for integers beyond 64 bits" % (q, rel), why_ok="owner of the convention", sample={"sites": len(hits)})
    for i, (rel, q, pat, boom) in enumerate(intpats):
        rep.check(not boom, rid, "bigint-int-pattern#%s#%s#%d" % (rel.split("/")[-1], q, i), sh.loc(rel, pat), "%s matches only the 64-bit form BigInt::Int of a Data integer and the other case runs into `%s` (line %s): any integer beyond 64 bits reaching this place aborts the process" % (q, (boom[0].get("path") or boom[0].get("m")) if boom else "-", boom[0]["s"][0] if boom else "-"), why_ok="partial reader whose fallback does not abort", sample={"fn": q})
    if seen != BIGINT_OWNERS:
        rep.bad(rid, "bigint-repr-site#owners", "crates/uplc/src/machine/value.rs", "expected from_pallas_bigint and to_pallas_bigint to match on BigUInt / BigNInt (found %s): the detector may be blind (anchor)" % sorted(seen))
