"""C09 — Builds are deterministic (static necessary clauses; DESIGN §3 C09)."""
import json, os, re
from .lib import *
from . import flowrun, hashorder, panic_audit
from .flowrun import dominators, return_blocks

NEEDS_FLOW = True
EXPLANATION = (
    "History independence: every field of CodeGenerator that any method mutates (MIR field-write facts, interior mutability included) is "
    "assigned a fresh value by reset(), which finalize() reaches on every path with `true` after optimising; generate/generate_raw return only "
    "through finalize. Seed independence: every iteration over a std HashMap/HashSet in the three crates is enumerated from MIR (resolved receiver "
    "types) and its iterator chain classified from the syntax tree: sorted / order-insensitive sinks are discharged, the rest must be in the "
    "reviewed table; the sort that discharges the blueprint's validator list must key on the map's own key. No hash map inside a serialised "
    "blueprint type; rayon entry points frozen."
)
LEVEL_NOTE = "absence of every conceivable nondeterminism is not a finite rule: pointer-address ordering, file-system order beyond module sequencing and the optimiser's internal maps (all IndexMap/Vec today) are not decided; review-table reasons were established by reading"

CG = "aiken_lang::gen_uplc::CodeGenerator"
GEN = "crates/aiken-lang/src/gen_uplc.rs"
KEPT_ACROSS_RESETS = {"cached_constants": "module-constant cache: kept on purpose; R09-CACHE checks that a hit replays the counters a miss consumed"}
INTERIOR = re.compile(r"\b(Atomic\w+|Cell|RefCell|Mutex|RwLock|OnceCell)\b")


def run(ctx, rep):
    fl, sh = ctx.flow, ctx.shape
    rep.rule("R09-RESET", "every CodeGenerator field mutated by any method (or interior-mutable) is assigned a fresh value in reset(); only cached_constants is kept", floor=7)
    rep.rule("R09-FINALIZE", "finalize: optimise -> reset(true) -> return on every path; generate / generate_raw return only through finalize", floor=4)
    rep.rule("R09-CACHE", "constant cache: a hit advances exactly the counters whose deltas a miss recorded; the cache is touched only in the ModuleConstant arm", floor=4)
    rep.rule("R09-HASH", "every iteration over a std HashMap/HashSet is sorted, order-insensitive, or reviewed", floor=50)
    rep.rule("R09-SORTKEY", "the sort that orders validators in the blueprint keys on the module name (the key of the hash map it came from) and the validator name", floor=1)
    rep.rule("R09-SER", "no std HashMap/HashSet inside a serialised blueprint type", floor=5)
    rep.rule("R09-PAR", "rayon entry points are the reviewed three", floor=3)
    rep.rule("R09-MERGE", "merging the per-chunk results of the parallel parse looks for common keys before it extends the map: which of two files of one module name survives must not depend on the chunking", floor=1)
    rep.rule("R09-WALKFLAG", "a flag folded over the directory walk only ever moves one way (None -> Some(false) -> Some(true)): its final value is independent of the order the files are listed in", floor=2)
    rep.rule("R09-MARK", "Definitions::register removes or completes its in-progress mark on every exit: a mark left behind by a failed build reads as a definition and depends on the visiting order", floor=1)
    rep.rule("R09-LOOPEFFECT", "inside the hash-ordered loops of Blueprint::new the definitions are only added to (Annotated::from_type): no whole-table rewrite whose result depends on how much has been added so far", floor=1)
    rep.guarded("R09-MERGE", lambda: r_merge(sh, rep))
    rep.guarded("R09-WALKFLAG", lambda: r_walkflag(sh, rep))
    rep.guarded("R09-MARK", lambda: r_mark(sh, rep))
    rep.guarded("R09-LOOPEFFECT", lambda: r_loopeffect(sh, rep))
    rep.guarded("R09-RESET", lambda: r_reset(fl, sh, rep))
    rep.guarded("R09-FINALIZE", lambda: r_finalize(fl, sh, rep))
    rep.guarded("R09-CACHE", lambda: r_cache(fl, sh, rep))
    rep.guarded("R09-HASH", lambda: r_hash(fl, sh, rep))
    rep.guarded("R09-SORTKEY", lambda: r_sortkey(sh, rep))
    rep.guarded("R09-SER", lambda: r_ser(fl, rep))
    rep.guarded("R09-PAR", lambda: r_par(fl, rep))


def _cg_methods(fl):
    return [f for f in fl.fns.values() if f["path"].startswith("aiken_lang::gen_uplc::CodeGenerator::<'a>::") or f.get("closure_of_path", "").startswith("aiken_lang::gen_uplc::CodeGenerator::<'a>::")]


def r_reset(fl, sh, rep):
    adt = fl.adts.get(CG)
    if not adt:
        raise AnchorMissing("ADT " + CG)
    fields = {x["name"]: x for x in adt["fields"]}
    reset = fl.fn("aiken_lang::gen_uplc::CodeGenerator::<'a>::reset")
    rep.touched(GEN, "MIR CodeGenerator::reset")
    dom = dominators(reset)
    rets = return_blocks(reset)
    assigned_uncond, assigned_cond = set(), set()
    for w in reset["writes"]:
        if w["adt"] == CG and w["w"] == "assign":
            if all(w["bb"] in dom.get(r, set()) for r in rets):
                assigned_uncond.add(w["f"])
            else:
                assigned_cond.add(w["f"])
    # syntax: the assigned value is a fresh one (T::new() / T::default() / literal), never derived from the old value
    rs = find_method(sh.file(GEN), "CodeGenerator", "reset")
    fresh = {}
    for n in walk(rs["body"]):
        if n["k"] == "Assign" and n["l"]["k"] == "Field" and n["l"]["e"]["k"] == "Path" and n["l"]["e"]["p"] == "self":
            r = n["r"]
            ok = r["k"] == "Call" and r["f"]["k"] == "Path" and last(r["f"]["p"]) in ("new", "default") and not r["args"]
            fresh[n["l"]["f"]] = (ok, sh.nsrc(GEN, r)[:50])
    mutated = {}
    for f in fl.fns.values():
        root = panic_audit.root_of(fl, f)["path"]
        if root.endswith("::reset") or root.endswith("::new"):
            continue
        for w in f["writes"]:
            if w["adt"] == CG and w["w"] in ("assign", "mutborrow", "rawptr"):
                mutated.setdefault(w["f"], set()).add(root.split("::")[-1])
    for name, fd in fields.items():
        # borrowed data (&'a …) is the typed AST owned by the project, not generator state
        interior = "&'a" not in fd["ty"] and (any(INTERIOR.search(a) for a in fd.get("adts", [])) or _contains_interior(fl, fd.get("adts", [])))
        if interior:
            mutated.setdefault(name, set()).add("<interior mutability: %s>" % fd["ty"][:40])
    for name in sorted(fields):
        if name not in mutated:
            rep.ok("R09-RESET", "field#%s" % name, GEN, why="never mutated after construction", nontrivial=False)
            continue
        who = sorted(mutated[name])[:6]
        if name in KEPT_ACROSS_RESETS:
            rep.ok("R09-RESET", "field#%s" % name, GEN, why="kept across resets: " + KEPT_ACROSS_RESETS[name], sample={"mutated_in": who})
            continue
        in_reset = name in assigned_uncond or name in assigned_cond
        is_fresh = fresh.get(name, (False, "<not assigned>"))
        rep.check(in_reset and is_fresh[0], "R09-RESET", "field#%s" % name, GEN, "CodeGenerator.%s is mutated by %s but reset() %s: state from one compilation leaks into the next, so a re-used generator emits different code than a fresh one for some histories" % (name, who, ("does not assign it" if not in_reset else "assigns `%s`, which is not a fresh T::new()/default()" % is_fresh[1])), sample={"mutated_in": who, "reset_value": is_fresh[1], "conditional": name in assigned_cond})
    extra = sorted(set(fresh) - set(fields))
    if extra:
        rep.info("reset assigns unknown fields %s" % extra)


def _contains_interior(fl, adts, depth=0, seen=None):
    seen = seen or set()
    for a in adts:
        if a in seen:
            continue
        seen.add(a)
        if INTERIOR.search(a):
            return True
        ad = fl.adts.get(a)
        if ad and depth < 4:
            for x in ad["fields"]:
                if INTERIOR.search(x["ty"]) or _contains_interior(fl, x.get("adts", []), depth + 1, seen):
                    return True
    return False


def r_finalize(fl, sh, rep):
    P = "aiken_lang::gen_uplc::CodeGenerator::<'a>::"
    fin = fl.fn(P + "finalize")
    rep.touched(GEN, "MIR CodeGenerator::finalize")
    dom = dominators(fin)
    rets = return_blocks(fin)
    opt = [i for i, b in fl.calls(fin) if (b.get("callee") or "").endswith("aiken_optimize_and_intern")]
    rst = [i for i, b in fl.calls(fin) if (b.get("callee") or "").endswith("::reset")]
    ok = len(opt) == 1 and len(rst) == 1 and all(rst[0] in dom.get(r, set()) for r in rets) and opt[0] in dom.get(rst[0], set())
    rep.check(ok, "R09-FINALIZE", "finalize#optimise-then-reset-on-every-path", GEN, "finalize must call aiken_optimize_and_intern and then reset on every path to its return (calls: optimise %s, reset %s)" % (opt, rst), sample={"optimise_block": opt, "reset_block": rst})
    if rst:
        b = fin["blocks"][rst[0]]
        a = b["a"][1] if len(b["a"]) > 1 else "?"
        a = fin.get("lc", {}).get(a[1:], a) if a.startswith("_") else a
        rep.check("true" in a, "R09-FINALIZE", "finalize#reset(true)", GEN, "finalize calls reset(%s): the special-function table survives into the next program unless the flag is true" % a, sample={"arg": a})
    for name in ("generate", "generate_raw"):
        g = fl.fn(P + name)
        d = dominators(g)
        fc = [i for i, b in fl.calls(g) if (b.get("callee") or "").endswith("::finalize")]
        okg = len(fc) >= 1 and all(any(c in d.get(r, set()) for c in fc) for r in return_blocks(g))
        rep.check(okg, "R09-FINALIZE", "%s#returns-through-finalize" % name, GEN, "%s can return without passing finalize (and therefore without reset)" % name, sample={"finalize_blocks": fc})
    callers = sorted({f["path"] for f, _ in fl.callers().get(fin["id"], [])})
    rep.check(set(c.split("::")[-1] for c in callers) <= {"generate", "generate_raw"}, "R09-FINALIZE", "finalize#callers", GEN, "finalize is called from %s" % callers, sample={"callers": callers})


def r_cache(fl, sh, rep):
    fj = sh.file(GEN)
    # who touches cached_constants (MIR): only gen_uplc (the Air interpreter, ModuleConstant arm)
    who = set()
    for f in fl.fns.values():
        for w in f["writes"]:
            if w["adt"] == CG and w["f"] == "cached_constants":
                who.add(panic_audit.root_of(fl, f)["path"].split("::")[-1])
    rep.check(who == {"gen_uplc"}, "R09-CACHE", "cached_constants#writers", GEN, "cached_constants is written in %s; only the ModuleConstant arm of gen_uplc may fill it" % sorted(who), sample={"writers": sorted(who)})
    st = find_struct(fj, "CachedConstant")
    deltas = sorted(f["name"] for f in st["fields"] if f["name"].endswith("_delta"))
    g = [fn for q, fn in all_fns(fj) if q.endswith("CodeGenerator::gen_uplc")]
    if not g:
        raise AnchorMissing("fn CodeGenerator::gen_uplc")
    body = g[0]["body"]
    advances = [n for n in walk(body) if n["k"] == "MethodCall" and n["m"] == "advance"]
    adv_args = sorted({x["f"] for n in advances for a in n["args"] for x in walk(a) if x["k"] == "Field" and x["f"].endswith("_delta")})
    rep.check(adv_args == deltas and len(deltas) >= 2, "R09-CACHE", "hit#replays-every-delta", sh.loc(GEN, advances[0]) if advances else GEN, "CachedConstant records %s but a cache hit advances with %s: a reused constant consumes a different number of ids than recompiling it" % (deltas, adv_args), sample={"deltas": deltas, "advanced": adv_args})
    # each advance is applied to the counter of the same name
    for n in advances:
        recv = sh.nsrc(GEN, n["recv"])
        arg = sh.nsrc(GEN, n["args"][0]) if n["args"] else ""
        stem = "interner" if "interner" in recv else "id_gen" if "id_gen" in recv else recv
        rep.check(stem in arg, "R09-CACHE", "hit#%s-advanced-by-own-delta" % stem, sh.loc(GEN, n), "`%s.advance(%s)`: the counter is advanced by another counter's delta" % (recv, arg), sample={"recv": recv, "arg": arg})
    # the miss path stores a deep copy of the evaluated constant together with both deltas
    lits = [n for n in walk(body) if n["k"] == "Struct" and last(n["p"]) == "CachedConstant"]
    rep.check(len(lits) == 1 and sorted(f["name"] for f in lits[0]["fields"] if f["name"].endswith("_delta")) == deltas, "R09-CACHE", "miss#stores-every-delta", sh.loc(GEN, lits[0]) if lits else GEN, "the miss path must build one CachedConstant carrying %s" % deltas, sample={"literals": len(lits)})
    # the cache is keyed by the constant's identity as the rest of the generator knows it: a structured (module, name)
    # key. A key flattened into one string (module + separator + name) identifies two different constants whenever the
    # separator also occurs in names; a hit then replays another constant's value.
    cg = find_struct(fj, "CodeGenerator")
    fld = [f for f in cg["fields"] if f["name"] == "cached_constants"]
    if not fld:
        raise AnchorMissing("field CodeGenerator::cached_constants")
    m = re.match(r"^(?:[\w:]*::)?(?:Hash|Index|BTree)Map<(.*),\s*CachedConstant>$", fld[0]["ty"].replace(" ", ""))
    key_ty = m.group(1) if m else None
    key_struct = None
    if key_ty and re.match(r"^[\w:]+$", key_ty):
        for rel in ("crates/aiken-lang/src/ast.rs", GEN):
            try:
                key_struct = key_struct or find_struct(sh.file(rel), last(key_ty))
            except AnchorMissing:
                pass
    parts = len(key_struct["fields"]) if key_struct else (key_ty.count(",") + 1 if key_ty and key_ty.startswith("(") else 0)
    rep.check(parts >= 2, "R09-CACHE", "cached_constants#structured-key", sh.loc(GEN, cg), "cached_constants is keyed by `%s` (%d component(s)): the key must keep module and name apart (a struct or tuple with both), not a flattened string" % (key_ty, parts), sample={"key": key_ty, "components": parts})
    if key_struct:
        klits = [n for n in walk(body) if n["k"] == "Struct" and last(n["p"]) == key_struct["name"]]
        # those literals that flow into the cache: defined in the same arm as the cached_constants accesses
        acc = [n for n in walk(body) if n["k"] == "MethodCall" and n["m"] in ("get", "insert", "entry", "contains_key") and "cached_constants" in sh.nsrc(GEN, n["recv"])]
        keyvars = {re.sub(r"^&|\.clone\(\)$", "", sh.nsrc(GEN, a["args"][0])) for a in acc if a["args"]}
        feeding = [st for st in walk(body) if st["k"] == "Local" and st["pat"]["k"] == "Ident" and st["pat"]["name"] in keyvars and st.get("init") is not None]
        ok = bool(acc) and bool(feeding)
        for st in feeding:
            lit = st["init"] if st["init"]["k"] == "Struct" else None
            if lit is None or last(lit["p"]) != key_struct["name"]:
                ok = False
                continue
            made = [x["k"] for f in lit["fields"] for x in walk(f["e"]) if x["k"] in ("Macro", "Lit", "If", "Match", "Binary")]
            ok = ok and not made and {f["name"] for f in lit["fields"]} == {f["name"] for f in key_struct["fields"]}
        rep.check(ok, "R09-CACHE", "cached_constants#key-from-module-and-name", sh.loc(GEN, feeding[0]) if feeding else GEN, "every cached_constants access must use a `%s` built field by field from the constant's module and name (no formatting, literals or conditionals): accesses %d, key definitions %d" % (key_struct["name"], len(acc), len(feeding)), sample={"accesses": len(acc), "key_vars": sorted(keyvars)})


def r_hash(fl, sh, rep):
    chains = hashorder.Chains(sh)
    table = json.load(open(os.path.join(VERIF, "rules", "reasons", "C09-hash.json")))
    reviewed = table["sites"]
    reasons = [(re.compile(r["fn"]), r["why"]) for r in table["reasons"]]
    per = {}
    for f, b, kind in hashorder.sites(fl):
        root = panic_audit.root_of(fl, f)["path"]
        if root.startswith("uplc::tx"):
            continue  # transaction simulation: C19 (R19-ORDER)
        rel = panic_audit.rel_file(f)
        ch, cx, it = chains.chain(rel, b["fl"], kind)
        verdict, why = hashorder.classify(sh, rel, ch, cx)
        where = "%s:%d" % (rel, b["l"])
        if verdict in ("free", "sorted"):
            rep.ok("R09-HASH", "%s#%s#auto" % (root, kind), where, why=why, sample={"chain": ch})
        else:
            per.setdefault((root, kind), []).append((where, ch, why))
    for (root, kind), lst in sorted(per.items()):
        n = len(lst)
        allowed = reviewed.get(root, {}).get(kind, 0)
        why_ok = next((w for fr, w in reasons if fr.search(root)), None)
        key = "%s#%s" % (root, kind)
        if n <= allowed and why_ok:
            rep.ok("R09-HASH", key, lst[0][0], why="%d site(s), %d reviewed: %s" % (n, allowed, why_ok), sample={"chains": [c for _, c, _ in lst][:3]})
        else:
            rep.bad("R09-HASH", key, lst[0][0], "%s iterates a std Hash%s with `%s` and the order reaches an ordered result (%s) — %d such site(s), %d reviewed: the per-process random hash seed decides the order, so two runs can emit different output. Sort, use a BTree/IndexMap, or review — lines %s" % (root, "Map/HashSet", kind, lst[0][2], n, allowed, ", ".join(w for w, _, _ in lst)), sample={"chains": [c for _, c, _ in lst][:3]})
    for root, kinds in sorted(reviewed.items()):
        for kind, allowed in kinds.items():
            if len(per.get((root, kind), [])) < allowed:
                rep.info("STALE-REVIEW R09-HASH %s#%s (%d reviewed, %d present)" % (root, kind, allowed, len(per.get((root, kind), []))))


def r_sortkey(sh, rep):
    rel = "crates/aiken-project/src/module.rs"
    f = find_method(sh.file(rel), "CheckedModules", "validators")
    rep.touched(rel, "CheckedModules::validators")
    sorts = [n for n in walk(f["body"]) if n["k"] == "MethodCall" and n["m"] in ("sort_by", "sort_by_key", "sort_by_cached_key", "sort_unstable_by", "sort_unstable_by_key")]
    if not sorts:
        rep.bad("R09-SORTKEY", "validators#sorted", sh.loc(rel, f), "CheckedModules::validators iterates a HashMap of modules and no longer sorts the result: blueprint order follows the hash seed")
        return
    cl = sorts[0]["args"][0]
    src = sh.nsrc(rel, cl)
    params = [n["name"] for p in cl.get("inputs", []) for n in walk(p) if n["k"] == "Ident"] if cl["k"] == "Closure" else []
    # the key must contain the module name (field `name` of tuple element 0 = the map's key) and the validator name (element 1)
    need = []
    for p in params or ["left", "right"]:
        need += ["%s.0.name" % p, "%s.1.name" % p]
    missing = [x for x in need if x not in src]
    rep.check(not missing, "R09-SORTKEY", "validators#key-is-injective", sh.loc(rel, sorts[0]), "the comparator of CheckedModules::validators does not mention %s: validators that tie on the remaining key keep the iteration order of the modules HashMap (the sort is stable), so blueprint order depends on the hash seed whenever two modules declare a validator of the same name" % missing, sample={"comparator": src[:200]})


SER_ROOTS = ["aiken_project::blueprint::Blueprint", "aiken_project::blueprint::validator::Validator", "aiken_project::blueprint::definitions::Definitions", "aiken_project::blueprint::parameter::Parameter", "aiken_project::blueprint::schema::Schema", "aiken_project::blueprint::schema::Data", "aiken_project::blueprint::schema::Annotated"]


def r_ser(fl, rep):
    seen, work = set(), [r for r in SER_ROOTS]
    missing = [r for r in SER_ROOTS if r not in fl.adts]
    if missing:
        raise AnchorMissing("ADT(s) %s" % missing)
    n = 0
    while work:
        a = work.pop()
        if a in seen or a not in fl.adts:
            continue
        seen.add(a)
        for x in fl.adts[a]["fields"]:
            n += 1
            bad = re.search(r"std::collections::(HashMap|HashSet)<", x["ty"])
            rep.check(not bad, "R09-SER", "%s.%s" % (a, x["name"]), fl.adts[a]["file"].split("crates/")[-1], "%s.%s has type %s: serde writes a std hash map in iteration order, so the blueprint JSON would depend on the hash seed" % (a, x["name"], x["ty"][:80]), nontrivial=bool(x.get("adts")))
            for y in x.get("adts", []):
                if y.startswith("aiken_project::") or y.startswith("aiken_lang::") or y.startswith("uplc::"):
                    work.append(y)
    # positive control: the detector does see hash maps where they exist
    proj = fl.adts.get("aiken_project::Project")
    ctl = proj and any(re.search(r"std::collections::HashMap<", x["ty"]) for x in proj["fields"])
    rep.check(bool(ctl), "R09-SER", "control#Project-has-HashMap-fields", "crates/aiken-project/src/lib.rs", "positive control failed: the field-type facts no longer show the HashMap fields of Project, so the rule could not see one in a blueprint type either")


PAR_REVIEWED = {
    "aiken_project::Project::<T>::parse_sources": "fold/reduce of per-file results with associative, order-insensitive merges into hash maps and error lists (diagnostics)",
    "aiken_project::Project::<T>::run_runnables": "indexed map + collect into a Vec preserves test order (C17 R17-TAKE)",
    "aiken_project::Project::<T>::with_dependencies": "independent in-place update of each module's dependency list",
}


def r_par(fl, rep):
    users = {}
    for f in fl.fns.values():
        if f["krate"] not in ("uplc", "aiken_lang", "aiken_project"):
            continue
        for i, b in fl.calls(f):
            cal, dec = b.get("callee") or "", b.get("decl") or ""
            if cal.startswith("rayon") or dec.startswith("rayon"):
                users.setdefault(panic_audit.root_of(fl, f)["path"], set()).add((dec or cal).split("::")[-1])
    for u in sorted(users):
        rep.check(u in PAR_REVIEWED, "R09-PAR", u, "", "%s uses rayon (%s) and is not one of the reviewed parallel sections: results gathered from worker threads arrive in scheduling order unless the combinator preserves indices" % (u, sorted(users[u])), why_ok=PAR_REVIEWED.get(u, ""), sample={"combinators": sorted(users[u])})


# ---------------------------------------------------------------------------------------------------------
# order-independence of the project loader (round 3)
# ---------------------------------------------------------------------------------------------------------
PL = "crates/aiken-project/src/lib.rs"


def r_merge(sh, rep):
    f = find_method(sh.file(PL), "Project", "parse_sources")
    rep.touched(PL, "Project::parse_sources")
    n = 0
    for c in walk(f["body"]):
        if c.get("k") == "MethodCall" and c["m"] == "reduce" and len(c["args"]) == 2 and c["args"][1].get("k") == "Closure":
            body = c["args"][1]["body"]
            ext = [x for x in walk(body) if x.get("k") == "MethodCall" and x["m"] in ("extend", "insert", "append") and any(y.get("k") == "MethodCall" and y["m"] in ("drain", "into_iter") for y in walk(x)) or (x.get("k") == "MethodCall" and x["m"] == "extend")]
            if not ext:
                continue
            n += 1
            first_ext = min(x["s"][0] for x in ext)
            dupcheck = [x for x in walk(body) if x.get("k") == "MethodCall" and x["m"] in ("intersection", "contains_key", "contains") and x["s"][0] < first_ext]
            rep.check(bool(dupcheck), "R09-MERGE", "parse_sources#reduce#common-keys-before-extend", sh.loc(PL, c), "the closure that merges two partial results of the parallel parse extends one module map with the other without first looking for common keys: two files of one module name are reported as duplicates only when they land in the same chunk — with more worker threads the project builds, with the later file winning")
    if not n:
        raise AnchorMissing("the reduce step of Project::parse_sources")


def r_walkflag(sh, rep):
    f = find_method(sh.file(PL), "Project", "aiken_files")
    rep.touched(PL, "Project::aiken_files")
    muts = {st["pat"]["name"] for st in f["body"]["stmts"] if st.get("k") == "Local" and st["pat"].get("k") == "Ident" and st["pat"].get("mut")}
    n = 0
    for node, anc in walk_parents(f["body"]):
        if node.get("k") != "Assign" or node["l"].get("k") != "Path" or node["l"]["p"] not in muts:
            continue
        if not any(a.get("k") == "Closure" for a in anc):
            continue
        name = node["l"]["p"]
        n += 1
        rhs = sh.nsrc(PL, node["r"])
        guarded_none = any(a.get("k") == "If" and ("%s.is_none()" % name) in sh.nsrc(PL, a["cond"]) for a in anc)
        ok = rhs in ("Some(true)", "true") or re.search(r"(?<![\w.])%s\b" % re.escape(name), rhs) is not None or (guarded_none and rhs in ("Some(false)", "false"))
        rep.check(ok, "R09-WALKFLAG", "aiken_files#%s#%d" % (name, n), sh.loc(PL, node), "inside the directory walk `%s` is overwritten with `%s`: its value after the walk is that of the last file listed, and the listing order is the file system's — the same sources build on one machine and fail (NoDefaultEnvironment) on another" % (name, rhs[:60]), sample={"rhs": rhs[:80]})
    if n < 2:
        raise AnchorMissing("assignments to the walk flag in Project::aiken_files (found %d)" % n)


def r_mark(sh, rep):
    DEF = "crates/aiken-project/src/blueprint/definitions.rs"
    f = find_method(sh.file(DEF), "Definitions", "register")
    rep.touched(DEF, "Definitions::register")
    marks = [c for c in walk(f["body"]) if c.get("k") == "MethodCall" and c["m"] == "insert" and len(c["args"]) == 2 and sh.nsrc(DEF, c["args"][1]) == "None"]
    if not marks:
        raise AnchorMissing("the in-progress mark (insert(key, None)) of Definitions::register")
    mark_line = marks[0]["s"][0]
    # an early exit (`?` / return) after the mark must be preceded, in its own branch, by a remove of the mark
    exits = []
    for node, anc in walk_parents(f["body"]):
        if node.get("k") in ("Try", "Return") and node["s"][0] > mark_line:
            scope = next((a for a in reversed(anc) if a.get("k") in ("Arm", "Block")), None)
            removed = scope is not None and any(x.get("k") == "MethodCall" and x["m"] == "remove" and x["s"][0] <= node["s"][0] for x in walk(scope))
            exits.append((node, removed))
    bad = [e for e, r in exits if not r]
    rep.check(not bad, "R09-MARK", "register#mark-removed-or-completed-on-every-exit", sh.loc(DEF, bad[0]) if bad else sh.loc(DEF, marks[0]), "Definitions::register can leave (`%s`) after inserting the in-progress mark and before completing or removing it: a caller that carries on after the error (the all-types export swallows unsupported types) publishes the mark as `null` — or the full schema, if another visiting order built the type first" % (sh.nsrc(DEF, bad[0])[:50] if bad else ""), sample={"exits_after_mark": len(exits)})


def r_loopeffect(sh, rep):
    BP = "crates/aiken-project/src/blueprint/mod.rs"
    f = find_method(sh.file(BP), "Blueprint", "new")
    rep.touched(BP, "Blueprint::new")
    loops = [n for n in walk(f["body"]) if n.get("k") == "For" and re.search(r"\.values\(\)|\.iter\(\)|\.keys\(\)", sh.nsrc(BP, n["e"]))]
    if not loops:
        raise AnchorMissing("the hash-ordered loops of Blueprint::new")
    outer = [l for l in loops if not any(l is not o and any(x is l for x in walk(o["body"])) for o in loops)]
    allowed = {"from_type"}
    for i, lp in enumerate(outer):
        uses = []
        for c in walk(lp["body"]):
            if c.get("k") == "MethodCall" and sh.nsrc(BP, c["recv"]) == "definitions":
                uses.append(c["m"])
            elif c.get("k") == "Call" and any(sh.nsrc(BP, a) in ("&mutdefinitions", "definitions") for a in c["args"]):
                uses.append(last(call_name(c) or "?"))
        extra = sorted(set(uses) - allowed)
        rep.check(not extra, "R09-LOOPEFFECT", "Blueprint::new#loop%d#definitions-only-added-to" % (i + 1), sh.loc(BP, lp), "inside a loop over a hash map, Blueprint::new applies %s to the definitions collected so far: what a whole-table operation does depends on which modules have been visited already, so the blueprint changes with the hash seed" % extra, sample={"uses": sorted(set(uses))})
