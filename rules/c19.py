"""C19 — Transaction simulation reports what the scripts cost and decide (static necessary clauses; DESIGN §3 C19)."""
import re
from .lib import *
from . import panic_audit

NEEDS_FLOW = False
EXPLANATION = (
    "Shape of the simulation pipeline, read off the syntax tree: per Plutus version the script kind, cost model, language and TxInfo builder of "
    "one arm agree; the script is applied to (datum?), redeemer, context in that order for V1/V2 and to the context only for V3; the caller's "
    "budget reaches every evaluation inside do_eval_redeemer; the redeemer loop evaluates against the remaining budget and then decrements it, "
    "in both dimensions with the right pairing, by the units of the redeemer that evaluation returned; a machine error is an Err before any "
    "result is built; every collection the ledger orders is sorted in the script context, and every place that turns a script purpose into a "
    "redeemer pointer sorts inputs by the full (transaction id, index) key; discovery loops of the lookup table never stop early."
)
LEVEL_NOTE = "the content of the script context (to_plutus_data, 1400 lines of value construction), phase-one checks beyond pointer construction, and slot arithmetic are not decided"

TX = "crates/uplc/src/tx.rs"
EV = "crates/uplc/src/tx/eval.rs"
SC = "crates/uplc/src/tx/script_context.rs"
P1 = "crates/uplc/src/tx/phase_one.rs"


def run(ctx, rep):
    sh = ctx.shape
    rep.rule("R19-VERSION", "each Plutus-version arm of eval_redeemer pairs script kind, cost model, language and TxInfo builder of the same version", floor=3)
    rep.rule("R19-APPLY", "V1/V2: (datum?) -> redeemer -> context; V3: context only", floor=2)
    rep.rule("R19-THREAD", "the caller's budget reaches every evaluation in do_eval_redeemer, and every eval_redeemer call of the loop gets &remaining_budget", floor=6)
    rep.rule("R19-BUDGET", "after each redeemer the remaining budget is decremented in both dimensions (cpu<->steps, mem<->mem) by the units of the redeemer the evaluation returned, which is also what is reported", floor=4)
    rep.rule("R19-COST", "every evaluation entry point reports cost against the budget its machine was created with", floor=3)
    rep.guarded("R19-COST", lambda: r_cost(sh, rep))
    rep.rule("R19-CERTS", "phase one and phase two agree on which certificates need a script (same Certificate variants carry a script credential)", floor=1)
    rep.guarded("R19-CERTS", lambda: r_certs(sh, rep))
    rep.rule("R19-EXTRA", "only scripts of the transaction's own witness set can be extraneous: reference scripts of resolved inputs count as available, never as surplus", floor=2)
    rep.guarded("R19-EXTRA", lambda: r_extra(sh, rep))
    rep.rule("R19-FAIL", "a machine error, and a version-aware failed verdict (V3: non-unit result), are returned as Err before a result is built", floor=2)
    rep.rule("R19-ORDER", "collections the ledger orders are sorted when the script context is built (spec table)", floor=8)
    rep.rule("R19-POINTER", "every sort of transaction inputs that yields positions keys on (transaction_id, index); reward accounts and voters use the shared comparators", floor=3)
    rep.rule("R19-LOOKUP", "DataLookupTable::from_transaction visits every witness and every resolved input and keys datums by their original hash; find_script propagates every failed lookup", floor=3)
    rep.guarded("R19-VERSION", lambda: r_version(sh, rep))
    rep.guarded("R19-APPLY", lambda: r_apply(sh, rep))
    rep.guarded("R19-THREAD", lambda: r_thread(sh, rep))
    rep.guarded("R19-BUDGET", lambda: r_budget(sh, rep))
    rep.guarded("R19-FAIL", lambda: r_fail(sh, rep))
    rep.guarded("R19-ORDER", lambda: r_order(sh, rep))
    rep.guarded("R19-POINTER", lambda: r_pointer(sh, rep))
    rep.guarded("R19-LOOKUP", lambda: r_lookup(sh, rep))


def _outer(sh):
    return find_fn(sh.file(EV), "eval_redeemer_with_optional_protocol")


def _inner(sh):
    o = _outer(sh)
    for n in walk(o["body"]):
        if n.get("k") == "Fn" and n.get("name") == "do_eval_redeemer":
            return n
    for st in o["body"]["stmts"]:
        if st.get("k") == "Item" and st.get("item", {}).get("name") == "do_eval_redeemer":
            return st["item"]
    raise AnchorMissing("fn do_eval_redeemer inside eval_redeemer_with_optional_protocol")


def r_version(sh, rep):
    o = _outer(sh)
    rep.touched(EV, "eval_redeemer_with_optional_protocol")
    ms = [m for m in matches_in(o["body"]) if any(c["k"] == "Call" and call_name(c) == "find_script" for c in walk(m["e"]))]
    if not ms:
        raise AnchorMissing("match find_script(..) in eval_redeemer_with_optional_protocol")
    for a in ms[0]["arms"]:
        src = sh.nsrc(EV, a)
        head = re.search(r"PlutusScript::V(\d)", sh.nsrc(EV, a["pat"]))
        if not head:
            rep.bad("R19-VERSION", "arm#unrecognised", sh.loc(EV, a), "arm does not match on PlutusScript::V<n>")
            continue
        v = head.group(1)
        body = a["body"]
        # diagnostics (the Language named inside CostModelNotFound) are outside the property's statement
        diag = [sh.nsrc(EV, c) for c in walk(body) if c["k"] == "Call" and (call_name(c) or "").endswith("CostModelNotFound")]
        bsrc = sh.nsrc(EV, body)
        for d in diag:
            bsrc = bsrc.replace(d, "")
            m = re.search(r"PlutusV(\d)", d)
            if m and m.group(1) != v:
                rep.info("%s: the V%s arm names PlutusV%s inside a CostModelNotFound error value (diagnostic only)" % (sh.loc(EV, a), v, m.group(1)))
        marks = {"cost model": re.findall(r"\.plutus_v(\d)", bsrc), "language": re.findall(r"Language::PlutusV(\d)", bsrc), "tx info": re.findall(r"TxInfoV(\d)::from_transaction", bsrc)}
        wrong = {k: x for k, x in marks.items() if set(x) != {v}}
        rep.check(not wrong, "R19-VERSION", "eval_redeemer#V%s" % v, sh.loc(EV, a), "the arm for a Plutus V%s script uses %s: the script would be costed / given a context of another version" % (v, {k: ["V" + i for i in x] for k, x in wrong.items()}), sample=marks)


def r_apply(sh, rep):
    f = _inner(sh)
    rep.touched(EV, "do_eval_redeemer")
    ms = [m for m in matches_in(f["body"]) if sh.nsrc(EV, m["e"]) == "script_context"]
    if not ms:
        raise AnchorMissing("match script_context in do_eval_redeemer")
    for a in ms[0]["arms"]:
        p = sh.nsrc(EV, a["pat"])
        calls = [c for c in walk(a["body"]) if c["k"] == "MethodCall" and c["m"] == "apply_data"]
        # method chains nest outermost-last: order of application = increasing depth from the receiver; sort by end position
        calls.sort(key=lambda c: (c["s"][2], c["s"][3]))
        args = [sh.nsrc(EV, c["args"][0]) for c in calls]
        if "V1V2" in p:
            roles = ["datum" if "datum" in a_ and "to_plutus_data" not in a_ and "redeemer" not in a_ else "redeemer" if "redeemer" in a_ and "to_plutus_data" not in a_ else "context" if "to_plutus_data" in a_ else "?" for a_ in args]
            rep.check(roles == ["datum", "redeemer", "context"], "R19-APPLY", "do_eval_redeemer#V1V2#datum-redeemer-context", sh.loc(EV, a), "a V1/V2 script must be applied to datum (if any), then redeemer, then script context; found %s" % args, sample={"applied": args})
        elif "V3" in p:
            rep.check(len(args) == 1 and "to_plutus_data" in args[0], "R19-APPLY", "do_eval_redeemer#V3#context-only", sh.loc(EV, a), "a V3 script takes the script context only; found %s" % args, sample={"applied": args})


def r_thread(sh, rep):
    f = _inner(sh)
    evals = [c for c in walk(f["body"]) if c["k"] == "MethodCall" and c["m"].startswith("eval") and sh.nsrc(EV, c["recv"]) == "program"]
    if len(evals) < 4:
        raise AnchorMissing("four program.eval* calls in do_eval_redeemer")
    bp = [i_["pat"]["name"] for i_ in f["sig"]["inputs"] if "ExBudget" in str(i_.get("ty", "")) and i_.get("pat", {}).get("k") == "Ident"]
    if not bp:
        raise AnchorMissing("a parameter of type ExBudget in do_eval_redeemer")
    bname = bp[0]
    for i, c in enumerate(evals):
        args = [sh.nsrc(EV, a) for a in c["args"]]
        ok = any(re.fullmatch(r"(Some\()?[&*]?%s(\.clone\(\))?\)?" % re.escape(bname), a) for a in args)
        rep.check(ok, "R19-THREAD", "do_eval_redeemer#%s#%d#budget-is-the-callers" % (c["m"], i), sh.loc(EV, c), "`program.%s(%s)` does not receive the caller's budget (the ExBudget parameter): this redeemer is evaluated against a fresh default budget, so it can succeed although the budget left by earlier redeemers (or given by the user) is exhausted, and `succeeds iff it fits the budget` fails" % (c["m"], ", ".join(args)), sample={"args": args})
    o = _outer(sh)
    for c in walk(o["body"]):
        if c["k"] == "Call" and call_name(c) == "do_eval_redeemer":
            args = [sh.nsrc(EV, a) for a in c["args"]]
            rep.check(len(args) > 1 and re.fullmatch(r"[&*]?\w+", args[1]) is not None and "ExBudget::default" not in args[1], "R19-THREAD", "eval_redeemer#passes-budget#%s" % (re.search(r"PlutusV\d", "".join(args)) or [""])[0], sh.loc(EV, c), "do_eval_redeemer must be given initial_budget as its budget argument")
    g = find_fn(sh.file(TX), "eval_phase_two_with_override_and_optional_protocol")
    for c in walk(g["body"]):
        if c["k"] == "Call" and (call_name(c) or "").startswith("eval::eval_redeemer"):
            args = [sh.nsrc(TX, a) for a in c["args"]]
            rb = [st["pat"]["name"] for st in walk(g["body"]) if st["k"] == "Local" and st["pat"]["k"] == "Ident" and st["pat"].get("mut") and st.get("init") is not None and "budget" in sh.nsrc(TX, st["init"])]
            rep.check(bool(rb) and ("&" + rb[0]) in args, "R19-THREAD", "loop#%s#gets-remaining-budget" % last(call_name(c)), sh.loc(TX, c), "%s is not evaluated against the loop's remaining budget (`&%s`)" % (call_name(c), rb[0] if rb else "?"))


def r_budget(sh, rep):
    g = find_fn(sh.file(TX), "eval_phase_two_with_override_and_optional_protocol")
    rep.touched(TX, "eval_phase_two_with_override_and_optional_protocol")
    loops = [n for n in walk(g["body"]) if n["k"] == "For" and "iter_redeemers" in sh.nsrc(TX, n["e"])]
    if len(loops) != 1:
        raise AnchorMissing("for .. in iter_redeemers(..) loop")
    body = loops[0]["body"]
    lets = [st for st in body["stmts"] if st["k"] == "Local" and st["pat"]["k"] == "PTuple" and st.get("init") is not None and "eval_redeemer" in sh.nsrc(TX, st["init"])]
    if len(lets) != 1:
        raise AnchorMissing("let (redeemer, eval_result) = <eval_redeemer…>")
    names = [n["name"] for n in walk(lets[0]["pat"]) if n["k"] == "Ident"]
    evaluated, result = names[0], names[1]
    decs = {}
    for n in walk(body):
        if n["k"] == "Binary" and n["op"] == "-=":
            decs[sh.nsrc(TX, n["l"])] = (sh.nsrc(TX, n["r"]), n)
        if n["k"] == "AssignOp" and n.get("op") == "-=":
            decs[sh.nsrc(TX, n["l"])] = (sh.nsrc(TX, n["r"]), n)
    rbs = [st["pat"]["name"] for st in walk(g["body"]) if st["k"] == "Local" and st["pat"]["k"] == "Ident" and st["pat"].get("mut") and st.get("init") is not None and "budget" in sh.nsrc(TX, st["init"])]
    if not rbs:
        raise AnchorMissing("let mut <remaining budget> = .. in the redeemer loop's function")
    rbn = rbs[0]
    want = {"%s.cpu" % rbn: "%s.ex_units.steps" % evaluated, "%s.mem" % rbn: "%s.ex_units.mem" % evaluated}
    for lhs, rhs in want.items():
        got = decs.get(lhs)
        ok = got is not None and got[0].startswith(rhs)
        rep.check(ok, "R19-BUDGET", "loop#%s-decremented-by-measured-units" % lhs.split(".")[-1], sh.loc(TX, got[1]) if got else sh.loc(TX, loops[0]), "after evaluating a redeemer, %s must be reduced by `%s` — the units measured for the redeemer that the evaluation returned (bound as `%s`); found `%s`. Subtracting the units declared in the witness set (placeholders, often 0) lets later redeemers run against budget that is already spent" % (lhs, rhs, evaluated, got[0] if got else "no decrement"), sample={"decrement": got[0] if got else None})
    # decrements come after the evaluation and before the next iteration; the reported pair is the evaluated one
    pushes = [c for c in walk(body) if c["k"] == "MethodCall" and c["m"] == "push"]
    okp = pushes and sh.nsrc(TX, pushes[0]["args"][0]) == "(%s,%s)" % (evaluated, result)
    rep.check(bool(okp), "R19-BUDGET", "loop#reports-the-evaluated-redeemer", sh.loc(TX, pushes[0]) if pushes else sh.loc(TX, loops[0]), "the loop must report (%s, %s), the pair returned by the evaluation" % (evaluated, result))
    init = [st for st in walk(g["body"]) if st["k"] == "Local" and st["pat"]["k"] == "Ident" and st["pat"]["name"] == rbn]
    rep.check(bool(init) and "initial_budget" in sh.nsrc(TX, init[0]["init"]), "R19-BUDGET", "loop#starts-from-callers-budget", sh.loc(TX, init[0]) if init else sh.loc(TX, g), "remaining_budget must start from the caller's initial_budget")


def r_fail(sh, rep):
    f = _inner(sh)
    stmts = f["body"]["stmts"]
    idx_err = idx_new = None
    for i, st in enumerate(stmts):
        s = sh.nsrc(EV, st)
        if "eval_result.result()" in s and "returnErr(" in s and idx_err is None:
            idx_err = i
        if "Redeemer{" in s and idx_new is None and "ExUnits" in s:
            idx_new = i
    rep.check(idx_err is not None and (idx_new is None or idx_err < idx_new), "R19-FAIL", "do_eval_redeemer#machine-error-is-Err", sh.loc(EV, f), "do_eval_redeemer must return Err(..) when eval_result.result() is an error, before it builds the evaluated redeemer")
    # a script can fail without a machine error: under Plutus V3 the script must evaluate to unit. EvalResult::failed(allow_bool,
    # language) is the evaluator's statement of the ledger's success condition; the simulation must consult it (strictly:
    # allow_bool = false, the `True` shortcut exists for Aiken's own tests only) with this redeemer's language, and
    # return Err before the evaluated redeemer is built.
    langs = [i["pat"].get("name") for i in f["sig"]["inputs"] if isinstance(i.get("pat"), dict) and "Language" in (i.get("ty") or "")]
    idx_failed = None
    strict = lang_ok = False
    for i, st in enumerate(stmts):
        e = st.get("e", st)
        if e.get("k") != "If" or "returnErr(" not in sh.nsrc(EV, e["then"]):
            continue
        # the verdict decides alone (or as one disjunct): a conjunction with anything else weakens it
        disj = []

        def split_or(c):
            if c.get("k") == "Binary" and c["op"] == "||":
                split_or(c["l"])
                split_or(c["r"])
            elif c.get("k") == "Paren":
                split_or(c["e"])
            else:
                disj.append(c)

        split_or(e["cond"])
        for n in disj:
            if n.get("k") == "MethodCall" and n["m"] == "failed" and sh.nsrc(EV, n["recv"]) == "eval_result":
                idx_failed = i if idx_failed is None else idx_failed
                strict = len(n["args"]) == 2 and sh.nsrc(EV, n["args"][0]) == "false"
                lang_ok = len(n["args"]) == 2 and re.sub(r"^&", "", sh.nsrc(EV, n["args"][1])) in langs
    rep.check(idx_failed is not None and strict and lang_ok and (idx_new is None or idx_failed < idx_new), "R19-FAIL", "do_eval_redeemer#version-aware-verdict", sh.loc(EV, f), "do_eval_redeemer reports a redeemer as evaluated whenever the machine did not error; it must also return Err when `eval_result.failed(false, <this redeemer's language>)` — a Plutus V3 script that evaluates to anything but unit is a failed script (found: failed() consulted %s, strict %s, language %s)" % (idx_failed is not None, strict, lang_ok), sample={"languages": langs})


# spec table (ledger: the script context presents these collections in canonical order). helper -> how the order is established
ORDERED = {
    "get_tx_in_info_v1": ["sorted"],
    "get_tx_in_info_v2": ["sorted"],
    "get_mint_info": ["sort_mint"],
    "get_outputs_info": ["sort_tx_out_value"],
    "get_withdrawals_info": ["sorted_by", "sort_reward_accounts"],
    "get_signatories_info": ["sorted"],
    "get_data_info": ["sorted"],
    "get_redeemers_info": ["sorted_by", "sort_redeemers"],
    "get_votes_info": ["sorted_by", "sort_voters", "sort_gov_action_id"],
}


def r_order(sh, rep):
    fj = sh.file(SC)
    sv = find_fn(fj, "sort_tx_out_value")
    mm = next(matches_in(sv["body"]), None)
    if mm is None:
        raise AnchorMissing("match in sort_tx_out_value")
    for a in mm["arms"]:
        vs = sorted(last(pat_head(x) or "_") for x in pat_alts(a["pat"]))
        rep.check("sort_value(" in sh.nsrc(SC, a["body"]), "R19-ORDER", "sort_tx_out_value#%s#value-sorted" % "+".join(vs), sh.loc(SC, a), "the %s arm of sort_tx_out_value does not put the output's value through sort_value: an output in that format keeps the wire order of its policies and asset names, so a script sees a different context than for the same UTxO in the other format" % "/".join(vs))
    for name, needs in ORDERED.items():
        f = find_fn(fj, name)
        rep.touched(SC, name)
        called = {last(call_name(c) or "") for c in calls_in(f["body"])} | {last(p) for p in paths_in(f["body"])}
        missing = [n for n in needs if n not in called]
        rep.check(not missing, "R19-ORDER", name, sh.loc(SC, f), "%s no longer calls %s: the script context would list this collection in transaction order instead of the ledger's canonical order, so scripts that look at positions (and redeemer pointers) disagree with the chain" % (name, missing), sample={"orders_by": needs})


def r_cost(sh, rep):
    """The units reported for a redeemer are `initial - remaining` as computed by EvalResult (cost()). Every evaluation
    entry point builds its EvalResult from the machine it ran: remaining = machine.ex_budget, initial = the very budget
    the machine was created with. Sibling rule over all Program::eval* functions: a different `initial` shifts every
    reported cost by a constant — and the simulation's budget hand-over subtracts the reported units."""
    AST = "crates/uplc/src/ast.rs"
    n = 0
    for q, f in all_fns(sh.file(AST)):
        if "body" not in f:
            continue
        mk = [c for c in walk(f["body"]) if c.get("k") == "Call" and (call_name(c) or "").startswith("Machine::new")]
        ev = [c for c in walk(f["body"]) if c.get("k") == "Call" and call_name(c) == "EvalResult::new"]
        if not mk or not ev:
            continue
        n += 1
        rep.touched(AST, q)
        margs = {sh.nsrc(AST, a) for a in mk[0]["args"]}
        e = ev[0]
        rem = sh.nsrc(AST, e["args"][1]) if len(e["args"]) > 2 else "?"
        ini = sh.nsrc(AST, e["args"][2]) if len(e["args"]) > 2 else "?"
        rep.check(rem == "machine.ex_budget" and ini in margs, "R19-COST", "%s#cost-from-the-budget-the-machine-got" % q.split("::")[-1], sh.loc(AST, e), "%s builds its result with remaining = `%s` and initial = `%s`, but the machine was created with %s: the reported execution units are off by the difference, for every script evaluated through this entry point" % (q, rem, ini, sorted(margs)), sample={"initial": ini})
    if n < 3:
        rep.bad("R19-COST", "eval-entry-points", AST, "only %d evaluation entry points pairing Machine::new* with EvalResult::new found (6 on the pinned tree; entry points may delegate to one another, fewer than 3 means the detector is blind)" % n)


def r_pointer(sh, rep):
    n_sites = 0
    for rel in (P1, SC, EV, TX):
        fj = sh.file(rel)
        for q, f in all_fns(fj):
            if "body" not in f:
                continue
            for c in walk(f["body"]):
                if c["k"] == "MethodCall" and c["m"] in ("sorted_by", "sorted_by_key", "sort_by", "sort_by_key", "sorted_unstable_by", "sorted_unstable_by_key", "sort_unstable_by", "sort_unstable_by_key", "sorted_by_cached_key") and c["args"]:
                    src = sh.nsrc(rel, c["args"][0])
                    if "transaction_id" in src or ".index" in src:
                        n_sites += 1
                        ok = "transaction_id" in src and "index" in src
                        rep.check(ok, "R19-POINTER", "%s#%s#inputs-by-txid-and-index" % (q, c["m"]), sh.loc(rel, c), "%s orders transaction inputs with `%s`, which does not compare both transaction_id and index: inputs spending two outputs of the same transaction tie, so the position used as redeemer pointer differs from the one TxInfo and find_script derive from the full order" % (q, src[:80]), sample={"comparator": src[:120]})
    # a comparator that compares a value with itself is constantly Equal: the key it was meant to add is ignored
    for rel in (P1, SC, EV, TX):
        for q, f in all_fns(sh.file(rel)):
            if "body" not in f:
                continue
            for c in walk(f["body"]):
                if c["k"] == "MethodCall" and c["m"] in ("cmp", "partial_cmp") and c["args"]:
                    l, r = sh.nsrc(rel, c["recv"]), re.sub(r"^&+", "", sh.nsrc(rel, c["args"][0]))
                    n_self = l == r
                    if "transaction_id" in l or l.endswith(".index") or n_self:
                        rep.check(not n_self, "R19-POINTER", "%s#cmp#%s" % (q, l[-40:]), sh.loc(rel, c), "`%s.cmp(&%s)` compares a value with itself: the comparator ignores this key, inputs that agree on the other keys keep their wire order, and the redeemer pointer phase one derives differs from the one the script context uses" % (l, r), nontrivial=False)
    # the derived Ord used by `.sorted()` on TransactionInput is (transaction_id, index) by field order in pallas: listed, not checked
    brk = find_fn(sh.file(P1), "build_redeemer_key")
    src = sh.nsrc(P1, brk["body"])
    rep.check("sort_reward_accounts" in src, "R19-POINTER", "build_redeemer_key#reward-accounts-shared-comparator", sh.loc(P1, brk), "reward accounts must be ordered with sort_reward_accounts, the comparator the script context uses")
    rep.check("sort_voters" in src, "R19-POINTER", "build_redeemer_key#voters-shared-comparator", sh.loc(P1, brk), "voters must be ordered with sort_voters, the comparator the script context uses")
    if n_sites < 1:
        rep.bad("R19-POINTER", "input-sort-sites", P1, "no explicit sort of transaction inputs found (anchor: build_redeemer_key)")


def _orig_hash_locals(sh, f):
    return {n["pat"]["name"] for n in walk(f["body"]) if n["k"] == "Local" and n["pat"]["k"] == "Ident" and n.get("init") is not None and any(x["k"] == "MethodCall" and x["m"] == "original_hash" for x in walk(n["init"]))}


def r_lookup(sh, rep):
    f = find_method(sh.file(SC), "DataLookupTable", "from_transaction")
    rep.touched(SC, "DataLookupTable::from_transaction")
    # witness datums are found by the hash the transaction's outputs carry, i.e. the hash of the datum's *original* bytes
    ins = [c for c in walk(f["body"]) if c["k"] == "MethodCall" and c["m"] == "insert" and sh.nsrc(SC, c["recv"]) == "datum" and c["args"]]
    okh = bool(ins) and all(any(x["k"] == "MethodCall" and x["m"] == "original_hash" for x in walk(c["args"][0])) or sh.nsrc(SC, c["args"][0]) in _orig_hash_locals(sh, f) for c in ins)
    rep.check(okh, "R19-LOOKUP", "from_transaction#datums-keyed-by-original-hash", sh.loc(SC, ins[0]) if ins else sh.loc(SC, f), "the datum table must be keyed by KeepRaw::original_hash() (hash of the bytes as they are in the transaction): a hash recomputed from the decoded value differs whenever the witness is not in the encoder's own canonical form, and a datum that is present is reported missing", sample={"inserts": len(ins)})
    # a failed lookup is an error of the simulation, for every script language
    fs = find_fn(sh.file(SC), "find_script")
    rep.touched(SC, "find_script")
    tried = {id(t["e"]) for t in walk(fs["body"]) if t["k"] == "Try"}
    calls = [c for c in walk(fs["body"]) if c["k"] == "Call" and call_name(c) in ("lookup_datum", "lookup_script")]
    # also fine: the call is the value a closure returns (`.and_then(|..| { ..; lookup_script(&hash) })`), through blocks,
    # if/else and match arms
    def tails(t):
        if t is None:
            return
        k = t.get("k")
        if k == "Block":
            if t.get("stmts"):
                lastst = t["stmts"][-1]
                if lastst.get("k") == "ExprStmt" and not lastst.get("semi"):
                    tails(lastst.get("e"))
        elif k == "If":
            tails(t["then"])
            tails(t.get("else"))
        elif k == "Match":
            for a in t["arms"]:
                tails(a["body"])
        else:
            tried.add(id(t))

    for cl in walk(fs["body"]):
        if cl["k"] == "Closure":
            tails(cl["body"])
    loose = [c for c in calls if id(c) not in tried]
    rep.check(bool(calls) and not loose, "R19-LOOKUP", "find_script#lookup-failures-propagate", sh.loc(SC, loose[0]) if loose else sh.loc(SC, fs), "the result of `%s(..)` is not propagated with `?`: a script or datum the transaction needs and does not provide must fail the simulation whatever the script's language (a V3 spend with an unresolvable datum hash would run without datum)" % (call_name(loose[0]) if loose else "-"), sample={"calls": len(calls)})
    bad = []
    for lp in walk(f["body"]):
        if lp["k"] in ("For", "While", "Loop"):
            for n in walk(lp["body"]):
                if n["k"] in ("Break", "Return"):
                    bad.append(n)
    rep.check(not bad, "R19-LOOKUP", "from_transaction#loops-run-to-completion", sh.loc(SC, bad[0]) if bad else sh.loc(SC, f), "a loop of DataLookupTable::from_transaction contains `%s` (line %s): scripts / datums listed after that element are never registered, so whether a script is found depends on the order of the resolved inputs" % (bad[0]["k"].lower() if bad else "", bad[0]["s"][0] if bad else ""), sample={"loops": sum(1 for n in walk(f["body"]) if n["k"] in ("For", "While", "Loop"))})


def r_certs(sh, rep):
    """`aiken tx simulate` runs phase one (which scripts and redeemers does the transaction need?) and phase two (find the
    script of each redeemer). Both enumerate the certificate kinds that are witnessed by their stake credential's script.
    The two lists are siblings: a kind phase two resolves and phase one does not count makes a correct transaction —
    script and Publish redeemer present — fail as `extraneous`; the other way round a needed script is never asked for."""
    def variants(rel, fn_name):
        f = find_fn(sh.file(rel), fn_name)
        out = set()
        for m in matches_in(f["body"]):
            for a in m["arms"]:
                alts = pat_alts(a["pat"])
                vs = {last(pat_head(x) or "") for x in alts if (pat_head(x) or "").startswith("Certificate::")}
                if len(vs) < 3:
                    continue
                src = sh.nsrc(rel, a["pat"]) + sh.nsrc(rel, a["body"])
                if "ScriptHash" in src or "stake_credential" in src:
                    out |= vs
        return f, out
    f1, p1 = variants(P1, "scripts_needed")
    f2, p2 = variants(SC, "find_script")
    if len(p1) < 5 or len(p2) < 5:
        raise AnchorMissing("certificate arms of scripts_needed / find_script (found %d / %d variants)" % (len(p1), len(p2)))
    rep.touched(P1, "scripts_needed")
    rep.touched(SC, "find_script")
    rep.check(p1 == p2, "R19-CERTS", "certificates#phase-one-equals-phase-two", sh.loc(P1, f1), "phase two resolves a script for %s which phase one does not count as needing one; phase one counts %s which phase two cannot resolve: the simulation rejects a transaction that supplies exactly the scripts and redeemers it needs" % (sorted(p2 - p1), sorted(p1 - p2)), sample={"phase_one": len(p1), "phase_two": len(p2)})


def r_extra(sh, rep):
    """Phase one compares the scripts a transaction needs with the scripts it has. `missing` must look at everything that is
    available (witness set and reference scripts of the resolved inputs); `extra` — which fails the transaction — only at
    what the transaction itself carries. DataLookupTable collects both kinds in one table, so feeding that table to the
    `extra` test rejects any transaction one of whose inputs happens to hold an unrelated reference script."""
    f = find_fn(sh.file(P1), "validate_missing_scripts")
    rep.touched(P1, "validate_missing_scripts")
    params = [i["pat"].get("name") for i in f["sig"]["inputs"] if isinstance(i.get("pat"), dict)]
    def pname(p):
        while p.get("k") == "PType":
            p = p["pat"]
        return p.get("name") if p.get("k") == "Ident" else None

    loc = {pname(n["pat"]): n["init"] for n in walk(f["body"]) if n["k"] == "Local" and pname(n["pat"]) and n.get("init") is not None}
    if "extra" not in loc or "missing" not in loc:
        raise AnchorMissing("locals `missing` and `extra` in validate_missing_scripts")

    def root(e):
        while e.get("k") == "MethodCall":
            e = e["recv"]
        return e.get("p") if e.get("k") == "Path" else None

    ex_root = root(loc["extra"])
    avail = {x["p"] for x in walk(loc["missing"]) if x.get("k") == "Path" and x["p"] in params} - {root(loc["missing"])}
    rep.check(ex_root in params and ex_root not in avail, "R19-EXTRA", "validate_missing_scripts#extra-ranges-over-its-own-list", sh.loc(P1, f), "`extra` is computed from `%s`, the same list `missing` uses as the set of available scripts (%s): a reference script on a resolved input that the transaction does not need is reported as extraneous and the simulation fails" % (ex_root, sorted(avail)), sample={"extra_from": ex_root, "available": sorted(avail)})
    g = find_fn(sh.file(P1), "eval_phase_one")
    calls = [c for c in walk(g["body"]) if c["k"] == "Call" and call_name(c) == "validate_missing_scripts"]
    ok = False
    if calls and ex_root in params:
        pos = params.index(ex_root)
        if pos < len(calls[0]["args"]):
            a = calls[0]["args"][pos]
            src = sh.nsrc(P1, a)
            via = ""
            if a.get("k") == "Call":
                try:
                    via = sh.nsrc(P1, find_fn(sh.file(P1), last(call_name(a)))["body"])
                except AnchorMissing:
                    via = ""
            ok = "lookup_table" not in src and "utxos" not in src and ("transaction_witness_set" in src + via)
    rep.check(ok, "R19-EXTRA", "eval_phase_one#extra-list-is-the-witness-set", sh.loc(P1, g), "the list handed to the `extra` test must be derived from tx.transaction_witness_set alone (not from the lookup table or the resolved inputs)")
