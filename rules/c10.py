"""C10 — Evaluation and compilation never crash (static necessary clauses; DESIGN §3 C10)."""
import re
from .lib import *
from . import panic_audit

NEEDS_FLOW = True
EXPLANATION = (
    "Panic-site audit over the resolved call graph (MIR): every unwrap/expect, panic!-family macro, Index call, bounds/overflow/"
    "division assert and panicking std/num-bigint/bitvec API reachable from Machine::run / Program::eval* and from "
    "aiken_optimize_and_intern is enumerated; args[k] sites are discharged by the arity table, the rest compared with a reviewed "
    "per-function table of counts. Narrowing conversions of unbounded integers in the builtin tables must be guarded."
)
LEVEL_NOTE = "termination, stack depth and panics inside dependencies (blst, secp256k1, num-bigint allocation) are not decided; the code generator's internal invariants on type-checked ASTs are outside the audited entry set"

EVAL_ENTRIES = [
    r"^uplc::machine::Machine::run$",
    r"^uplc::ast::Program::<ast::(NamedDeBruijn|DeBruijn)>::eval(_\w+)?$",
    r"^uplc::machine::Machine::new(_\w+)?$",
    r"^uplc::machine::discharge::value_as_term$",
]
OPT_ENTRIES = [r"^uplc::optimize::aiken_optimize_and_intern$"]


def roots_of(fl, pats):
    out = []
    for p in pats:
        fs = [f for f in fl.find(p) if "closure_of" not in f]
        if not fs:
            raise AnchorMissing("entry point " + p)
        out += fs
    return out


def panic_sections(fl):
    return {
        "C10-eval": (roots_of(fl, EVAL_ENTRIES), None),
        # the evaluator the constant folder calls into is audited by C10-eval: do not descend into it twice
        "C10-optimize": (roots_of(fl, OPT_ENTRIES), lambda f: f["path"].startswith("uplc::machine::") or re.match(r"^uplc::ast::Program::<ast::(NamedDeBruijn|DeBruijn)>::eval", f["path"]) is not None),
    }


def run(ctx, rep):
    fl = ctx.flow
    li = panic_audit.LineIndex(ctx.shape)
    rep.rule("R10-PANIC-EVAL", "no unreviewed panic site is reachable from the evaluator entry points (Machine::run, Program::eval*, read-back)", floor=30)
    rep.rule("R10-PANIC-OPT", "no unreviewed panic site is reachable from aiken_optimize_and_intern (optimiser + constant folder)", floor=30)
    rep.rule("R10-NARROW", "every unwrap of a narrowing conversion (BigInt -> machine integer) in a builtin's call arm is preceded by a range test with early return on the converted value or an ancestor, a bounding definition, or a cost_as_size bound in the same builtin's costing arm", floor=12)
    rep.rule("R10-COUNTER", "profiling array of the debug machine has a slot for every builtin discriminant and step kind", floor=2)
    rep.rule("R10-HOMOG", "mkCons admits an element only when its full type equals the list's element type (derived equality on Type): later arms discharge `unreachable!` on that invariant", floor=3)
    rep.guarded("R10-HOMOG", lambda: homog(ctx, rep))
    rep.guarded("R10-NARROW", lambda: narrow(ctx, rep))
    rep.guarded("R10-COUNTER", lambda: counter(ctx, rep))
    # two table rules owned by C04 / C02 discharge panic sites of this audit (the any_constructor unwrap of UnConstrData, the
    # folder's result().unwrap()); they are re-run here so that C10's verdict does not rest on another check having been run
    from . import c04, c02
    rep.rule("R04-TAGS", "constructor-tag range maps are mutual inverses and agree with Data::constr (discharges UnConstrData's any_constructor.unwrap())", floor=8)
    rep.guarded("R04-TAGS", lambda: c04.r_tags(ctx.shape, rep))
    rep.rule("R02-FOLD", "every value-dependent failure exit of a foldable builtin is excluded by a guard of is_error_safe (discharges the constant folder's result().unwrap())", floor=60)
    rep.guarded("R02-FOLD", lambda: c02.r_fold(ctx.shape, rep, btab.BuiltinTables(ctx.shape)))
    rep.rule("R10-CURRYDEF", "builtin currying emits closed definitions: discharges the optimiser's final `try_from(..).unwrap()` for hoisted partial applications (shared with C02)", floor=2)
    rep.guarded("R10-CURRYDEF", lambda: c02.r_currydef(ctx.shape, rep, "R10-CURRYDEF"))
    rep.rule("R10-FOLDOUT", "the constant folder leaves no constant the flat encoder refuses (discharges the serialiser's unwrap on compiler output; shared with C02)", floor=20)
    rep.guarded("R10-FOLDOUT", lambda: c02.r_foldout(ctx.shape, rep, btab.BuiltinTables(ctx.shape), "R10-FOLDOUT"))
    rep.rule("R10-BIGINTSITE", "no reader of a Data integer handles the 64-bit form only and aborts on the rest (shared with C04)", floor=2)
    rep.guarded("R10-BIGINTSITE", lambda: c04.r_bigintsites(ctx.shape, rep, "R10-BIGINTSITE"))
    rep.rule("R10-CONSTEVAL", "where the code generator evaluates user code at compile time (module constants, constant casts), a failing evaluation is not turned into a panic", floor=1)
    rep.guarded("R10-CONSTEVAL", lambda: r_consteval(ctx.shape, rep))
    secs = {}
    rep.guarded("R10-PANIC-EVAL", lambda: secs.update(panic_sections(fl)))
    if "C10-eval" in secs:
        rep.guarded("R10-PANIC-EVAL", lambda: panic_audit.audit(rep, "R10-PANIC-EVAL", fl, secs["C10-eval"][0], "C10-eval", li, stop=secs["C10-eval"][1], floor_sites=600, describe="Machine::run, Program::eval*, Machine::new*, value_as_term"))
        rep.guarded("R10-PANIC-OPT", lambda: panic_audit.audit(rep, "R10-PANIC-OPT", fl, secs["C10-optimize"][0], "C10-optimize", li, stop=secs["C10-optimize"][1], floor_sites=100, describe="aiken_optimize_and_intern, stopping at the evaluator"))


# ---------------------------------------------------------------------------------------------------------
# R10-HOMOG: list constants stay homogeneous — the one builtin that joins an independent element to a list compares full types
# ---------------------------------------------------------------------------------------------------------
def homog(ctx, rep):
    """A ProtoList carries one element type and the evaluator's later arms (mapData, unListData results, equalsData, the
    serialiser, the shrinker's typed_list_convert_arg) match on elements with `unreachable!` / unwrap on anything else.
    Parsing and decoding build lists from one type; mkCons is the only builtin joining an element of independent origin
    to a list, so its test is what keeps the invariant at run time: it must compare the list's element type with
    Type::from(element) by (derived, structural) equality and fail with an Err otherwise."""
    sh = ctx.shape
    t = btab.BuiltinTables(sh)
    arm = t.call.get("MkCons")
    if arm is None:
        raise AnchorMissing("MkCons arm of DefaultFunction::call")
    rep.touched(btab.RT, "DefaultFunction::call#MkCons")
    ty = find_enum(sh.file("crates/uplc/src/ast.rs"), "Type")
    der = ",".join(a for a in ty["attrs"] if a.startswith("derive("))
    manual = [i for i in find_impls(sh.file("crates/uplc/src/ast.rs"), "Type", any_trait=True) if last(i.get("trait") or "") == "PartialEq"]
    rep.check("PartialEq" in der and not manual, "R10-HOMOG", "Type#derived-equality", sh.loc("crates/uplc/src/ast.rs", ty), "uplc::ast::Type must compare structurally (derive(PartialEq), no manual impl): found %s, %d manual impl(s)" % (der, len(manual)))
    # the list's type binding: first component of the tuple bound from unwrap_list()
    lty = None
    for n in walk(arm["body"]):
        if n["k"] == "Local" and n.get("init") is not None and any(c["k"] == "MethodCall" and c["m"] == "unwrap_list" for c in walk(n["init"])):
            p = n["pat"]
            if p["k"] in ("PTuple", "Tuple") and p["elems"] and p["elems"][0]["k"] == "Ident":
                lty = p["elems"][0]["name"]
    # locals defined as Type::from(..)
    tlocals = {n["pat"]["name"] for n in walk(arm["body"]) if n["k"] == "Local" and n["pat"]["k"] == "Ident" and n.get("init") is not None and any(c["k"] == "Call" and call_name(c) in ("Type::from", "from") and "Type" in sh.nsrc(btab.RT, c) for c in walk(n["init"]))}

    def is_elem_type(e):
        return any((c["k"] == "Call" and sh.nsrc(btab.RT, c["f"]).endswith("Type::from")) or (c["k"] == "Path" and c["p"] in tlocals) for c in walk(e))

    def is_list_type(e):
        return any(c["k"] == "Path" and c["p"] == lty for c in walk(e))

    tests = []
    for n in walk(arm["body"]):
        if n["k"] == "If" and n["cond"]["k"] == "Binary" and n["cond"]["op"] in ("!=", "=="):
            c = n["cond"]
            if (is_list_type(c["l"]) and is_elem_type(c["r"])) or (is_list_type(c["r"]) and is_elem_type(c["l"])):
                shallow = [sh.nsrc(btab.RT, x["f"]) for side in (c["l"], c["r"]) for x in walk(side) if x["k"] == "Call" and not sh.nsrc(btab.RT, x["f"]).endswith("Type::from")]
                shallow += [x["m"] for side in (c["l"], c["r"]) for x in walk(side) if x["k"] == "MethodCall" and x["m"] not in ("clone", "as_ref", "borrow", "deref")]
                fail_branch = n["then"] if c["op"] == "!=" else n.get("else")
                errs = [x for x in walk(fail_branch)] if fail_branch else []
                returns_err = any(x["k"] == "Call" and call_name(x) == "Err" for x in errs)
                tests.append((n, shallow, returns_err))
    rep.check(lty is not None and len(tests) == 1, "R10-HOMOG", "MkCons#type-test-present", sh.loc(btab.RT, arm), "the MkCons arm must compare the list's element type (bound from unwrap_list) with Type::from(element): %d such test(s) found" % len(tests), sample={"list_type_binding": lty})
    for n, shallow, returns_err in tests:
        rep.check(not shallow and returns_err, "R10-HOMOG", "MkCons#full-type-equality", sh.loc(btab.RT, n), "mkCons's element/list type test must be a structural comparison of the two whole types failing with Err (projections applied before comparing: %s; Err on mismatch: %s): comparing less admits e.g. an integer list consed onto a list of data lists, and a later builtin's `unreachable!` aborts the process" % (shallow, returns_err), sample={"projections": shallow})


# ---------------------------------------------------------------------------------------------------------
# R10-NARROW: every unwrap of a narrowing conversion of a builtin argument is guarded (shape, per call arm)
# ---------------------------------------------------------------------------------------------------------
from . import btab

NARROW_METHODS = {"try_into", "to_usize", "to_u64", "to_i64", "to_u8", "to_i128", "to_u128", "to_isize", "to_u32", "to_i32"}
BOUNDING_DEFS = {"mod_floor", "div_rem", "div_mod_floor", "rem_euclid", "min", "clamp"}  # definitions that bound a value by their (machine-sized) argument
CMP_OPS = {"<", ">", "<=", ">="}
CMP_METHODS = {"lt", "gt", "le", "ge", "is_negative", "is_positive"}


def _idents(node):
    return {n["p"] for n in walk(node) if n["k"] == "Path" and "::" not in n["p"] and n["p"][:1].islower()}


def _is_narrow_unwrap(n):
    """unwrap()/expect() whose receiver is a narrowing conversion; -> converted expression or None"""
    if n["k"] != "MethodCall" or n["m"] not in ("unwrap", "expect"):
        return None
    r = n["recv"]
    if r["k"] == "MethodCall" and r["m"] in NARROW_METHODS:
        return r["recv"]
    if r["k"] == "Call" and r["f"]["k"] == "Path" and last(r["f"]["p"]) == "try_from" and r["args"]:
        return r["args"][0]
    return None


def _pat_names(p):
    return [n["name"] for n in walk(p) if n["k"] == "Ident"]


def _arm_defs(body):
    """name -> init expression for every `let` in the arm (tuple patterns: every bound name maps to the init)"""
    d = {}
    for n in walk(body):
        if n["k"] == "Local" and n.get("init") is not None:
            names = _pat_names(n["pat"])
            for j, nm in enumerate(names):
                d.setdefault(nm, []).append(n["init"])
                # (quotient, remainder) = x.div_rem(m): only the remainder is bounded by m
                if n["pat"]["k"] == "PTuple" and len(names) == 2 and j == 0 and any(c["k"] == "MethodCall" and c["m"] in ("div_rem", "div_mod_floor") for c in walk(n["init"])):
                    _QUOTIENTS.add((nm, id(n["init"])))
        if n["k"] == "For":
            for nm in _pat_names(n["pat"]):
                d.setdefault(nm, []).append(n["e"])
        if n["k"] in ("LetCond",):
            for nm in _pat_names(n["pat"]):
                d.setdefault(nm, []).append(n["e"])
    return d


_QUOTIENTS = set()


def _ancestors(names, defs):
    seen, work = set(), list(names)
    bounded = False
    while work:
        x = work.pop()
        if x in seen:
            continue
        seen.add(x)
        for init in defs.get(x, []):
            if (x, id(init)) not in _QUOTIENTS and any(c["k"] == "MethodCall" and c["m"] in BOUNDING_DEFS for c in walk(init)):
                bounded = True
            work += list(_idents(init))
    return seen, bounded


def _range_guards(body, site_line):
    """variables range-tested before the site by `if <cmp on v> { … return … }` (or by an `if` that encloses the site):
    -> (vars with an upper-bound test, vars with a lower-bound test). `v.abs()` in a comparison bounds both sides."""
    upper, lower = set(), set()
    for n in walk(body):
        if n["k"] != "If" or n["s"][0] > site_line:
            continue
        has_ret = any(x["k"] == "Return" for x in walk(n["then"]))
        encloses = n["s"][0] <= site_line <= n["s"][2]
        if not has_ret and not encloses:
            continue
        for c in walk(n["cond"]):
            if c["k"] == "Binary" and c["op"] in CMP_OPS:
                l, r = _idents(c["l"]), _idents(c["r"])
                both = {x["recv"]["p"] for x in walk(c) if x["k"] == "MethodCall" and x["m"] == "abs" and x["recv"]["k"] == "Path"}
                if c["op"] in (">", ">="):
                    upper |= l
                    lower |= r
                else:
                    upper |= r
                    lower |= l
                upper |= both
                lower |= both
            elif c["k"] == "MethodCall" and c["m"] in CMP_METHODS:
                v = _idents(c["recv"])
                if c["m"] in ("gt", "ge", "is_positive"):
                    upper |= v
                else:
                    lower |= v
    return upper, lower


def narrow(ctx, rep):
    sh = ctx.shape
    T = btab.BuiltinTables(sh)
    nsites = 0
    for v in T.variants:
        arm = T.call.get(v)
        if arm is None:
            continue
        defs = _arm_defs(arm["body"])
        # argument indices that costing bounded through cost_as_size
        costed = set()
        carm = T.cost.get(v)
        if carm is not None:
            for i, m, n in btab.arg_uses(carm["body"]):
                if m == "cost_as_size":
                    costed.add(i)
        for n in walk(arm["body"]):
            conv = _is_narrow_unwrap(n)
            if conv is None:
                continue
            names = _idents(conv)
            anc, bounded = _ancestors(names, defs)
            # only values derived from an (unbounded) builtin argument are narrowing sites of this rule
            if not any(btab.arg_uses(init) for a in anc for init in defs.get(a, [])):
                continue
            nsites += 1
            up, lo = _range_guards(arm["body"], n["s"][0])
            guards = {a for a in anc if a in up and a in lo} | (anc & up if any(a in up and b in lo for a in anc for b in anc) else set())
            by_cost = False
            for a in anc:
                for init in defs.get(a, []):
                    for i, m, _ in btab.arg_uses(init):
                        if i in costed:
                            by_cost = True
            why = None
            if anc & guards:
                why = "range-tested on both sides before the conversion: early return on comparisons of `%s`" % "`, `".join(sorted(anc & guards))
            elif bounded:
                why = "value is a remainder/minimum of a machine-sized quantity"
            elif by_cost:
                why = "argument bounded by cost_as_size in %s's costing arm, which runs first (R05F-ORDER)" % v
            key = "%s#%s" % (v, sh.nsrc(btab.RT, conv)[:40])
            rep.touched(btab.RT, "DefaultFunction::call#" + v)
            rep.check(why is not None, "R10-NARROW", key, sh.loc(btab.RT, n), "%s: `%s` is converted to a machine integer and unwrapped, but no two-sided range test on %s (early return), bounding definition or costing bound precedes it: an out-of-range argument panics the evaluator" % (v, sh.nsrc(btab.RT, n)[:80], sorted(anc)), why_ok=why or "", sample={"builtin": v, "converted": sh.nsrc(btab.RT, conv)[:60], "guarded_by": why})
    # the helper used by costing itself
    vj = sh.file("crates/uplc/src/machine/value.rs")
    cas = find_method(vj, "Value", "cost_as_size")
    for n in walk(cas["body"]):
        conv = _is_narrow_unwrap(n)
        if conv is None:
            continue
        # only the innermost conversion names a variable; chained `.unwrap().try_into().unwrap()` re-converts a bounded value
        names = _idents(conv)
        defs = _arm_defs(cas["body"])
        anc, bounded = _ancestors(names, defs)
        up, lo = _range_guards(cas["body"], n["s"][0])
        guards = up | lo
        nsites += 1
        lower = any(c["k"] == "MethodCall" and c["m"] == "is_negative" and _idents(c) & anc for c in walk(cas["body"]))
        upper = any(c["k"] == "Binary" and c["op"] in (">", ">=") and _idents(c) & anc for c in walk(cas["body"]))
        rep.check(bool(anc & guards) and lower and upper, "R10-NARROW", "cost_as_size#%s" % sh.nsrc("crates/uplc/src/machine/value.rs", conv)[:30], sh.loc("crates/uplc/src/machine/value.rs", n), "cost_as_size converts `size` without both a negative test and an upper-bound test with early return", why_ok="size tested negative and above the 8192 limit, both with early return", sample={"lower": lower, "upper": upper})
    return nsites


def counter(ctx, rep):
    """R10-COUNTER: the debug machine's profiling array has a slot for every builtin discriminant"""
    sh = ctx.shape
    mj = sh.file("crates/uplc/src/machine.rs")
    consts = {it["name"]: it for _, it in items(mj) if it["k"] == "Const"}
    for c in ("TERM_COUNT", "BUILTIN_COUNT"):
        if c not in consts:
            raise AnchorMissing("const %s in machine.rs" % c)
    def val(it):
        e = it.get("e") or it.get("expr") or it.get("init")
        if e is None or e.get("k") != "Lit":
            raise AnchorMissing("literal value of const " + it["name"])
        return int(e["v"])
    tc, bc = val(consts["TERM_COUNT"]), val(consts["BUILTIN_COUNT"])
    en = find_enum(sh.file(btab.BI), "DefaultFunction")
    discs = []
    for v in en["variants"]:
        d = v.get("disc")
        if d is None:
            raise AnchorMissing("explicit discriminant of DefaultFunction::" + v["name"])
        if isinstance(d, dict):
            if d.get("k") != "Lit":
                raise AnchorMissing("literal discriminant of DefaultFunction::" + v["name"])
            d = d["v"]
        discs.append(int(d))
    rep.check(max(discs) < bc, "R10-COUNTER", "BUILTIN_COUNT>max-discriminant", "crates/uplc/src/machine.rs", "BUILTIN_COUNT = %d but DefaultFunction has discriminant %d: eval_builtin_app indexes the profiling array with (discriminant+TERM_COUNT)*2 and would go out of bounds" % (bc, max(discs)), sample={"BUILTIN_COUNT": bc, "max_discriminant": max(discs)})
    sk = find_enum(sh.file("crates/uplc/src/machine/cost_model.rs"), "StepKind")
    kinds = [v["name"] for v in sk["variants"] if v["name"] != "StartUp"]
    rep.check(len(kinds) == tc, "R10-COUNTER", "TERM_COUNT==step-kinds", "crates/uplc/src/machine.rs", "TERM_COUNT = %d but there are %d step kinds besides StartUp" % (tc, len(kinds)), sample={"TERM_COUNT": tc, "kinds": kinds})


# ---------------------------------------------------------------------------------------------------------
# R10-CONSTEVAL: compile-time evaluation of user code
# ---------------------------------------------------------------------------------------------------------
def r_consteval(sh, rep):
    """The code generator runs the evaluator on pieces of the user's program while compiling (a module constant is evaluated
    once and cached; a cast of a constant is folded). Whether that evaluation succeeds is up to the user's code —
    `const r: Int = 1 / zero` — so its result must not be unwrapped."""
    GEN = "crates/aiken-lang/src/gen_uplc.rs"
    n = 0
    for q, f in all_fns(sh.file(GEN)):
        if "body" not in f:
            continue
        k = 0
        for node, anc in walk_parents(f["body"]):
            if node.get("k") != "MethodCall" or node["m"] != "result":
                continue
            if not any(c.get("k") == "MethodCall" and c["m"] in ("eval", "eval_version", "eval_as", "eval_version_with_protocol") for c in walk(node["recv"])):
                continue
            n += 1
            k += 1
            parent = next((a for a in reversed(anc) if a.get("k") == "MethodCall" and a.get("recv") is node), None)
            how = None
            if parent is not None and parent["m"] in ("unwrap", "expect"):
                how = parent["m"]
            elif parent is not None and parent["m"] in ("unwrap_or_else", "map_err", "or_else") and any(x.get("k") == "Macro" and last(x.get("path", "")) in ("panic", "unreachable", "todo") for x in walk(parent)):
                how = parent["m"] + "(.. panic!)"
            def cond_src(a):
                c = a["cond"]
                if c.get("k") == "Path":  # a flag computed earlier: read its definition
                    d = next((st for st in walk(f["body"]) if st.get("k") == "Local" and st["pat"].get("k") == "Ident" and st["pat"]["name"] == c["p"] and st.get("init") is not None), None)
                    if d is not None:
                        return sh.nsrc(GEN, d["init"]), d["s"][0]
                return sh.nsrc(GEN, c), c["s"][0]

            guard = None
            for a in reversed(anc):
                if a.get("k") == "If":
                    cs, cl = cond_src(a)
                    if "extract_constant(" in cs or ".arguments.is_empty()" in cs:  # second form: a constructor without arguments — constrData of a literal index and the empty list
                        guard = (a, cs, cl)
                        break
            if how is not None and guard is not None:
                ga, cs, cl = guard
                # what is evaluated is what the guard looked at: between the test and the evaluation the term may only pass through
                # a conversion *towards* Data (total); a conversion from Data, applied after the test, can fail on the constant
                np_ = next((c for c in walk(ga["then"]) if c.get("k") == "MethodCall" and c["m"] == "new_program" and c["args"] and c["s"][0] <= node["s"][0]), None)
                var = sh.nsrc(GEN, np_["args"][0]) if np_ is not None else None
                late = []
                if var and re.fullmatch(r"\w+", var):
                    for asg in walk(f["body"]):
                        if asg.get("k") == "Assign" and sh.nsrc(GEN, asg["l"]) == var and cl < asg["s"][0] <= np_["s"][0]:
                            callee = [last(call_name(c) or "") for c in walk(asg["r"]) if c.get("k") == "Call"]
                            # the conversions *from* Data are the partial ones (known_/unknown_/softcast_data_to_type: un*Data underneath)
                            if any("data_to_type" in cn or cn.startswith("un_") for cn in callee):
                                late.append(asg)
                if late:
                    rep.bad("R10-CONSTEVAL", "%s#eval-result#%d" % (q.split("::")[-1], k), sh.loc(GEN, late[0]), "%s tests that `%s` is a constant, then rewrites it with `%s` and evaluates the result with `%s`: the conversion applied after the test can fail on the constant (`expect x: Int = d` for a constant d of another shape), and the failure panics the compiler" % (q, var, sh.nsrc(GEN, late[0]["r"])[:60], how), sample={"consumed_by": how})
                    continue
                rep.ok("R10-CONSTEVAL", "%s#eval-result#%d" % (q.split("::")[-1], k), sh.loc(GEN, node), why="under `%s`: what is evaluated is a constant, alone or under a conversion towards Data (iData, bData, listData, mapData, constrData — total); for the conversion from Data the test is made on the very term that is evaluated" % cs[:70], sample={"consumed_by": how})
                continue
            what = "module-constant" if "ModuleConstant" in sh.nsrc(GEN, next((a for a in reversed(anc) if a.get("k") == "Arm"), f["body"]))[:4000] and k == 1 else "site%d" % k
            rep.check(how is None, "R10-CONSTEVAL", "%s#eval-result#%d" % (q.split("::")[-1], k), sh.loc(GEN, node), "%s evaluates part of the user's program while compiling and consumes the result with `%s`: an evaluation that fails — `const r: Int = 1 / zero`, `builtin.head_list([])` in a constant — panics the compiler instead of being reported" % (q, how), sample={"consumed_by": how})
    if n < 1:
        raise AnchorMissing("compile-time evaluations (`.eval(..).result()`) in gen_uplc.rs")
