"""C18 — Applying a parameter means applying the function (static necessary clauses; DESIGN §3 C18)."""
import re
from .lib import *
from . import panic_audit

NEEDS_FLOW = True
EXPLANATION = (
    "Shape of the application pipeline, read off the syntax tree: Validator::apply validates the head parameter against exactly the datum it then "
    "applies, consumes exactly the head, keeps every other field; Program::apply_data builds [program arg] (not swapped) and keeps the version; "
    "SerializableProgram::map preserves the Plutus version; Blueprint::apply_parameter writes program and parameters together, to exactly the "
    "validators whose key equals the applied one's; both arity checks of tuple parameters are equalities before the zip; apply_params_to_script "
    "applies in list order with the same apply_data; hash derived, never stored (R08-DERIVED); rejection is by Err, never by panic (MIR audit)."
)
LEVEL_NOTE = "behavioural equality of the applied validator on its remaining arguments follows from apply_data's shape given C03 and is not decided here; histories through files rest on C08"

V = "crates/aiken-project/src/blueprint/validator.rs"
B = "crates/aiken-project/src/blueprint/mod.rs"
PRM = "crates/aiken-project/src/blueprint/parameter.rs"
A = "crates/uplc/src/ast.rs"
TX = "crates/uplc/src/tx.rs"


def run(ctx, rep):
    sh, fl = ctx.shape, ctx.flow
    rep.rule("R18-APPLY", "Validator::apply: validate(head, same datum)? first, then program.map(apply_data(same datum)), parameters = tail, ..self; no parameters -> Err", floor=5)
    rep.rule("R18-TERM", "Program::apply_data builds Apply{function: program, argument: constant Data} and keeps the version", floor=3)
    rep.rule("R18-OVERWRITE", "Blueprint::apply_parameter overwrites program and parameters together, under an equality of the same key on both titles", floor=3)
    rep.rule("R18-ARITY", "tuple parameters: length of the datum's items equals the schema's, tested with != before the zip, in both validators", floor=2)
    rep.rule("R18-PARAMS", "apply_params_to_script applies each element of the decoded array, in order, through apply_data", floor=2)
    rep.rule("R08-VERSION", "every arm/branch mentioning Plutus version n uses version n throughout (SerializableProgram::map keeps the variant)", floor=9)
    rep.rule("R08-DERIVED", "the published hash is computed from the code in the same call; no stored hash", floor=6)
    rep.guarded("R18-APPLY", lambda: r_apply(sh, rep))
    rep.guarded("R18-TERM", lambda: r_term(sh, rep))
    rep.guarded("R18-OVERWRITE", lambda: r_overwrite(sh, rep))
    rep.guarded("R18-ARITY", lambda: r_arity(sh, rep, "R18-ARITY"))
    rep.guarded("R18-PARAMS", lambda: r_params(sh, rep))
    from . import c08
    rep.guarded("R08-VERSION", lambda: c08.r_version(sh, rep))
    rep.guarded("R08-DERIVED", lambda: c08.r_derived(sh, rep))
    rep.rule("R18-ZIP", "Parameter::validate compares the number of fields / elements wherever it walks a value and its schema in lockstep: zip stops at the shorter side", floor=1)
    rep.guarded("R18-ZIP", lambda: r_zip(sh, rep))
    rep.rule("R18-ASKINDEX", "the interactive construction of a parameter builds a constructor with the index the schema declares for the chosen alternative, not with its position in the list", floor=1)
    rep.guarded("R18-ASKINDEX", lambda: r_askindex(sh, rep))
    rep.rule("R18-TOTAL", "no unreviewed panic site reachable from Validator::apply / Parameter::validate / Blueprint::apply_parameter", floor=3)
    from . import c20
    def total():
        roots = c20._roots(fl, [r"^aiken_project::blueprint::parameter::Parameter::validate$", r"^aiken_project::blueprint::Blueprint::(apply_parameter|lookup|with_validator)$", r"^aiken_project::blueprint::validator::Validator::<uplc::ast::SerializableProgram>::apply$"])
        panic_audit.audit(rep, "R18-TOTAL", fl, roots, "C18-apply", panic_audit.LineIndex(sh), stop=c20.STOP["C20-blueprint"], describe="Validator::apply, Parameter::validate, Blueprint::apply_parameter/lookup")
    rep.guarded("R18-TOTAL", total)


def panic_sections(fl):
    from . import c20
    roots = c20._roots(fl, [r"^aiken_project::blueprint::parameter::Parameter::validate$", r"^aiken_project::blueprint::Blueprint::(apply_parameter|lookup|with_validator)$", r"^aiken_project::blueprint::validator::Validator::<uplc::ast::SerializableProgram>::apply$"])
    return {"C18-apply": (roots, c20.STOP["C20-blueprint"])}


def r_apply(sh, rep):
    f = [fn for fn in find_method(sh.file(V), "Validator", "apply", all_=True)][0]
    rep.touched(V, "Validator::apply")
    arg = f["sig"]["inputs"][-1]["pat"]["name"]
    # whatever the form: an application too many is an error, never a silent extra argument
    errs = [n for n in walk(f["body"]) if n.get("k") in ("Call", "Return", "Path") and "NoParametersToApply" in sh.nsrc(V, n)]
    rep.check(bool(errs), "R18-APPLY", "apply#an-application-too-many-is-Err", sh.loc(V, f), "Validator::apply has no exit with Error::NoParametersToApply: applied once more than it has parameters, the validator takes the argument into its code and hash with no schema consulted")
    m = next(matches_in(f["body"], lambda e: e["k"] == "MethodCall" and e["m"] == "split_first"), None)
    if m is None:
        raise AnchorMissing("`match self.parameters.split_first()` in Validator::apply")
    recv_ok = sh.nsrc(V, m["e"]) == "self.parameters.split_first()"
    rep.check(recv_ok, "R18-APPLY", "apply#splits-own-parameters", sh.loc(V, m), "apply must split self.parameters (found `%s`)" % sh.nsrc(V, m["e"])[:60])
    some = none = None
    for a in m["arms"]:
        h = pat_head(a["pat"])
        if h and last(h) == "Some":
            some = a
        elif h and last(h) == "None":
            none = a
    if some is None or none is None:
        raise AnchorMissing("Some/None arms of split_first in Validator::apply")
    rep.check("Err(" in sh.nsrc(V, none["body"]) and "NoParametersToApply" in sh.nsrc(V, none["body"]), "R18-APPLY", "apply#no-parameters-is-Err", sh.loc(V, none), "without parameters apply must return Err(NoParametersToApply)")
    names = [n["name"] for n in walk(some["pat"]) if n["k"] == "Ident"]
    if len(names) != 2:
        raise AnchorMissing("Some((head, tail)) pattern")
    head, tail = names
    stmts = some["body"]["stmts"] if some["body"]["k"] == "Block" else [{"k": "ExprStmt", "e": some["body"]}]
    first = stmts[0]["e"] if stmts and stmts[0]["k"] == "ExprStmt" else None
    ok_first = first is not None and first["k"] == "Try" and first["e"]["k"] == "MethodCall" and first["e"]["m"] == "validate" and first["e"]["recv"]["k"] == "Path" and first["e"]["recv"]["p"] == head and any(n["k"] == "Path" and n["p"] == arg for n in walk(first["e"]["args"][-1]))
    rep.check(ok_first, "R18-APPLY", "apply#validate-head-with-same-datum-first", sh.loc(V, some), "the first statement of the Some arm must be `%s.validate(definitions, <%s>)?`: the datum has to be checked against the head parameter's schema, and rejected with Err, before anything is built" % (head, arg), sample={"head": head, "arg": arg})
    lits = [n for n in walk(some["body"]) if n["k"] == "Struct" and last(n["p"]) == "Self"]
    if len(lits) != 1:
        raise AnchorMissing("one Self { .. } literal in Validator::apply")
    lit = lits[0]
    d = {fi["name"]: fi["e"] for fi in lit["fields"]}
    prog = d.get("program")
    okp = prog is not None and prog["k"] == "MethodCall" and prog["m"] == "map" and sh.nsrc(V, prog["recv"]) == "self.program" and any(c["k"] == "MethodCall" and c["m"] == "apply_data" and any(n["k"] == "Path" and n["p"] == arg for n in walk(c["args"][0])) for c in walk(prog["args"][0]))
    rep.check(okp, "R18-APPLY", "apply#program-applied-to-same-datum", sh.loc(V, lit), "program must be self.program.map(|p| p.apply_data(<%s>)) — the datum that was validated" % arg)
    par = d.get("parameters")
    okt = par is not None and any(n["k"] == "Path" and n["p"] == tail for n in walk(par)) and not any(n["k"] == "Path" and n["p"] == head for n in walk(par))
    rep.check(okt, "R18-APPLY", "apply#parameters-are-the-tail", sh.loc(V, lit), "parameters must be exactly the tail of the split (found `%s`)" % (sh.nsrc(V, par)[:50] if par else None))
    rest = lit.get("rest")
    rep.check(set(d) == {"program", "parameters"} and rest is not None and sh.nsrc(V, rest) == "self", "R18-APPLY", "apply#other-fields-unchanged", sh.loc(V, lit), "apply must change only program and parameters (`..self` for the rest); it sets %s" % sorted(d))


def r_term(sh, rep):
    f = find_method(sh.file(A), "Program", "apply_data", all_=True)[0]
    rep.touched(A, "Program::apply_data")
    p = f["sig"]["inputs"][-1]["pat"]["name"]
    app = [n for n in walk(f["body"]) if n["k"] == "Struct" and last(n["p"]) == "Apply"]
    if len(app) != 1:
        raise AnchorMissing("Term::Apply literal in apply_data")
    d = {fi["name"]: fi["e"] for fi in app[0]["fields"]}
    rep.check("self.term" in sh.nsrc(A, d["function"]) and p not in sh.nsrc(A, d["function"]), "R18-TERM", "apply_data#function-is-the-program", sh.loc(A, app[0]), "Apply.function must be the program's own term")
    rep.check(p in sh.nsrc(A, d["argument"]) and "Constant::Data" in sh.nsrc(A, d["argument"]) and "self.term" not in sh.nsrc(A, d["argument"]), "R18-TERM", "apply_data#argument-is-the-datum", sh.loc(A, app[0]), "Apply.argument must be Term::Constant(Constant::Data(<parameter>))")
    prog = [n for n in walk(f["body"]) if n["k"] == "Struct" and last(n["p"]) == "Program"]
    okv = prog and any(fi["name"] == "version" and sh.nsrc(A, fi["e"]) == "self.version" for fi in prog[0]["fields"])
    rep.check(bool(okv), "R18-TERM", "apply_data#keeps-version", sh.loc(A, f), "apply_data must keep self.version")


def r_overwrite(sh, rep):
    f = find_method(sh.file(B), "Blueprint", "apply_parameter")
    rep.touched(B, "Blueprint::apply_parameter")
    loops = [n for n in walk(f["body"]) if n["k"] == "For" and "self.validators" in sh.nsrc(B, n["e"])]
    if len(loops) != 1:
        raise AnchorMissing("`for validator in &mut self.validators` in apply_parameter")
    lp = loops[0]
    var = lp["pat"]["name"] if lp["pat"]["k"] == "Ident" else None
    ifs = [n for n in lp["body"]["stmts"] if n["k"] == "ExprStmt" and n["e"]["k"] == "If"]
    if len(ifs) != 1:
        raise AnchorMissing("single if in the overwrite loop")
    cond = ifs[0]["e"]["cond"]
    # equality of one key function applied to both titles
    okc = False
    if cond["k"] == "Binary" and cond["op"] == "==":
        l, r = cond["l"], cond["r"]
        def keyfn(e):
            if e["k"] == "Call" and e["f"]["k"] == "Path" and len(e["args"]) == 1:
                return e["f"]["p"], sh.nsrc(B, e["args"][0])
            return None, sh.nsrc(B, e)
        (fl_, al), (fr_, ar) = keyfn(l), keyfn(r)
        sides = [al.lstrip("&"), ar.lstrip("&")]
        loop_side = [x for x in sides if x == "%s.title" % var]
        other_side = [x for x in sides if x.endswith(".title") and x != "%s.title" % var]
        okc = fl_ == fr_ and len(loop_side) == 1 and len(other_side) == 1
        applied = other_side[0][: -len(".title")] if other_side else "applied_validator"
    rep.check(okc, "R18-OVERWRITE", "apply_parameter#overwrite-condition-is-key-equality", sh.loc(B, ifs[0]["e"]), "the overwrite loop must select validators by equality of the same key applied to both titles (`key(applied.title) == key(validator.title)`); found `%s` — a weaker relation (prefix, contains) also overwrites sibling validators whose names extend the target's" % sh.nsrc(B, cond)[:90], sample={"condition": sh.nsrc(B, cond)[:90]})
    assigns = {sh.nsrc(B, n["l"]): sh.nsrc(B, n["r"]) for n in walk(ifs[0]["e"]["then"]) if n["k"] == "Assign"}
    applied = locals().get("applied", "applied_validator")
    want = {"%s.program" % var: "%s.program" % applied, "%s.parameters" % var: "%s.parameters" % applied}
    okb = set(assigns) == set(want) and all(assigns[k].startswith(v) for k, v in want.items())
    rep.check(okb, "R18-OVERWRITE", "apply_parameter#program-and-parameters-together", sh.loc(B, ifs[0]["e"]), "under that condition both the program and the remaining parameters must be taken from the applied validator (found %s)" % assigns, sample={"assignments": assigns})
    # the applied validator comes from apply() on the validator that lookup selected
    okw = any(c["k"] == "MethodCall" and c["m"] == "apply" and "param" in sh.nsrc(B, c["args"][-1]) for c in calls_in(f["body"]))
    rep.check(okw, "R18-OVERWRITE", "apply_parameter#uses-Validator::apply", sh.loc(B, f), "apply_parameter must obtain the new validator through Validator::apply(definitions, param)")


def r_arity(sh, rep, rid):
    fj = sh.file(PRM)
    for name in ("validate_schema", "validate_data"):
        f = find_fn(fj, name)
        rep.touched(PRM, name)
        found = 0
        for n in walk(f["body"]):
            if n["k"] == "If" and any(x["k"] == "MethodCall" and x["m"] == "len" for x in walk(n["cond"])) and "TupleItemsMismatch" in sh.nsrc(PRM, n["then"]):
                found += 1
                c = n["cond"]
                # an inequality between the lengths of two different collections (names are free), rejecting with Err before the zip
                sides = [sh.nsrc(PRM, x["recv"]) for x in (c.get("l"), c.get("r")) if isinstance(x, dict) and x.get("k") == "MethodCall" and x.get("m") == "len"] if c["k"] == "Binary" else []
                ok = c["k"] == "Binary" and c["op"] == "!=" and len(sides) == 2 and sides[0] != sides[1] and any(x["k"] == "Return" for x in walk(n["then"]))
                rep.check(ok, rid, "%s#tuple-arity-is-equality" % name, sh.loc(PRM, n), "%s must reject a tuple whose number of items differs from the schema's (`a.len() != b.len()` -> Err) before zipping; found `%s`: zip truncates, so surplus or missing items are silently accepted and baked into the applied script" % (name, sh.nsrc(PRM, c)), sample={"cond": sh.nsrc(PRM, c)})
        if found != 1:
            rep.bad(rid, "%s#tuple-arity-check-present" % name, sh.loc(PRM, f), "%s has %d TupleItemsMismatch checks, expected 1" % (name, found))


def r_params(sh, rep):
    f = find_fn(sh.file(TX), "apply_params_to_script")
    rep.touched(TX, "apply_params_to_script")
    loops = [n for n in walk(f["body"]) if n["k"] == "For"]
    ok = len(loops) == 1 and not any(c["k"] == "MethodCall" and c["m"] in ("rev", "sorted", "skip", "take", "step_by") for c in walk(loops[0]["e"]))
    rep.check(ok, "R18-PARAMS", "apply_params_to_script#in-list-order", sh.loc(TX, f), "parameters must be applied in the order of the decoded array (one plain for loop)")
    if loops:
        var = loops[0]["pat"]["name"] if loops[0]["pat"]["k"] == "Ident" else "?"
        okb = any(c["k"] == "MethodCall" and c["m"] == "apply_data" and sh.nsrc(TX, c["args"][0]) == var for c in walk(loops[0]["body"]))
        rep.check(okb, "R18-PARAMS", "apply_params_to_script#through-apply_data", sh.loc(TX, loops[0]), "each parameter must go through Program::apply_data(param)")


def r_zip(sh, rep):
    """validate_data pairs the fields of a constructor (the items of a tuple) with their schemas by zip. zip truncates:
    without a comparison of the two lengths in the enclosing block, a value with too few or too many fields conforms."""
    PRM = "crates/aiken-project/src/blueprint/parameter.rs"
    n = 0
    for q, f in all_fns(sh.file(PRM)):
        if "body" not in f:
            continue
        for node, anc in walk_parents(f["body"]):
            is_zip = (node.get("k") == "MethodCall" and node["m"] == "zip") or (node.get("k") == "Call" and last(call_name(node) or "") == "zip")
            if not is_zip:
                continue
            n += 1
            rep.touched(PRM, q)
            ops = [sh.nsrc(PRM, a) for a in (node["args"] if node["k"] == "Call" else [node["recv"]] + node["args"])]
            names = [re.sub(r"\.(iter|into_iter|clone|as_slice)\(\)|[&*]", "", o) for o in ops]
            # nearest enclosing blocks / arms, innermost first: a length comparison naming both operands must come before the zip
            found = False
            for a in reversed(anc):
                if a.get("k") not in ("Block", "Arm", "If", "IfLet", "For"):
                    continue
                for b in walk(a):
                    if b.get("k") == "Binary" and b["op"] in ("==", "!=", "<", ">") and b["s"][0] <= node["s"][0]:
                        bs = sh.nsrc(PRM, b)
                        if ".len()" in bs and all(nm.split(".")[0].split("(")[0] in bs for nm in names if nm):
                            found = True
                if found:
                    break
            rep.check(found, "R18-ZIP", "%s#zip#%d" % (q, n), sh.loc(PRM, node), "%s walks `%s` and `%s` in lockstep without comparing their lengths first: zip stops at the shorter one, so a constructor given too few or too many fields conforms to the schema and is applied" % (q, names[0][:30], names[1][:30] if len(names) > 1 else "?"), sample={"operands": names})
    if n < 1:
        raise AnchorMissing("zip of values and schemas in blueprint/parameter.rs")


def r_askindex(sh, rep):
    """`aiken blueprint apply` without an argument asks for the parameter piece by piece. For a data-type it lets the user
    pick an alternative of the schema's `anyOf` and must build Constr <declared index> — the alternatives of a type with
    @tag decorators are not listed in index order, so the position of the choice is another constructor (or none)."""
    AP = "crates/aiken/src/cmd/blueprint/apply.rs"
    f = find_fn(sh.file(AP), "ask_schema")
    rep.touched(AP, "ask_schema")
    n = 0
    for c in walk(f["body"]):
        if c.get("k") == "Call" and last(call_name(c) or "") == "constr" and c["args"]:
            n += 1
            a0 = sh.nsrc(AP, c["args"][0])
            rep.check(".index" in a0, "R18-ASKINDEX", "ask_schema#constr#%d" % n, sh.loc(AP, c), "ask_schema builds the chosen constructor with `%s`, which is not the alternative's declared `index`: for `Mode { @tag(1) Strict  @tag(0) Lenient }` choosing Strict applies Constr 0 (Lenient) and publishes the wrong code and hash" % a0[:60], sample={"index_expr": a0[:80]})
    if n < 1:
        raise AnchorMissing("UplcData::constr in ask_schema")
