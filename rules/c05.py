"""C05 — execution budgets are exact.

Decided statically (all-paths accounting discipline): every machine step is
charged exactly once with its own kind before anything else happens in its
arm; start-up charge precedes the loop; the final flush precedes Done; a
builtin is costed, paid for and only then called; the budget is written in
one place and tested in both dimensions; the 400 cost-parameter wirings name
the right builtin / dimension / coefficient; mem and cpu are sized alike.
Not decided: values of size measures and polynomials, ledger coefficients.
"""
import re
from .lib import *
from .btab import BuiltinTables
from . import builtin_rules as br

NEEDS_FLOW = True

EXPLANATION = (
    "Families M/W/S over the CEK machine and its cost model. Shape facts (syn): the first statement of every Machine::compute arm is "
    "step_and_maybe_spend(StepKind::<same constructor>); StepKind tables (discriminants, TryFrom<u8>, MachineCosts::get, unbudgeted_steps length) agree; "
    "spend_unbudgeted_steps charges and zeroes every slot; eval_builtin_app orders to_ex_budget -> spend_budget -> call; EvalResult::new gets "
    "(remaining = machine.ex_budget, initial = the expression given to Machine::new*); every get(ParamName) inside the CostModel literal is checked "
    "against the struct path it initialises (builtin, mem/cpu, coefficient); every to_ex_budget arm reads its own cost field and sizes mem and cpu identically. "
    "Flow facts (MIR): dominance of the charges on the CFG, the set of writers of Machine.ex_budget across all crates, the callers of call/to_ex_budget."
)
LEVEL_NOTE = "decides the accounting discipline (where and how often charges happen and how parameters are wired), not the numeric value of any cost"

M = "crates/uplc/src/machine.rs"
CM = "crates/uplc/src/machine/cost_model.rs"
A = "crates/uplc/src/ast.rs"
ER = "crates/uplc/src/machine/eval_result.rs"

# spec table: Term constructor -> StepKind charged for it (Plutus CEK machine: one step per node; Error is not charged)
STEP_FOR = {"Var": "Var", "Delay": "Delay", "Lambda": "Lambda", "Apply": "Apply", "Constant": "Constant", "Force": "Force", "Builtin": "Builtin", "Constr": "Constr", "Case": "Case"}
UNCHARGED = {"Error"}

# spec table: machine cost field -> Plutus parameter stem (cost-model parameter names of the ledger)
CEK_PARAM = {"startup": "CekStartupCost", "var": "CekVarCost", "constant": "CekConstCost", "lambda": "CekLamCost", "delay": "CekDelayCost", "force": "CekForceCost", "apply": "CekApplyCost", "builtin": "CekBuiltinCost", "constr": "CekConstrCost", "case": "CekCaseCost"}

# leaf struct field <-> last segment of the parameter name (validated on all sites of the pinned tree)
LEAF_SUFFIX = {
    "intercept": "intercept", "slope": "slope", "slope1": "slope1", "slope2": "slope2", "constant": "constant", "minimum": "minimum",
    "coeff_0": "c0", "coeff_1": "c1", "coeff_2": "c2", "coeff_00": "c00", "coeff_01": "c01", "coeff_02": "c02", "coeff_10": "c10", "coeff_11": "c11", "coeff_20": "c20",
    "coefficient_00": "coefficient00", "coefficient_11": "coefficient11", "coefficient_12": "coefficient12",
}
COST_FIELD_IRREGULAR = {"exp_mod_int": "ExpModInteger"}


def stmt_exprs(block):
    """top-level statements of a block as expression nodes (let initialisers included)"""
    out = []
    for st in block["stmts"]:
        if st["k"] == "ExprStmt":
            out.append(st["e"])
        elif st["k"] == "Local" and "init" in st:
            out.append(st["init"])
        else:
            out.append(st)
    return out


def strip_try(e):
    while e["k"] == "Try":
        e = e["e"]
    return e


def run(ctx, rep):
    sh = ctx.shape
    rep.rule("R05-STEP", "each Machine::compute arm charges exactly one step, of its own kind, as its first statement; StartUp is never charged as a step", floor=10)
    rep.rule("R05-STEPKIND", "StepKind discriminants, TryFrom<u8>, MachineCosts::get and unbudgeted_steps length agree", floor=20)
    rep.rule("R05-STARTUP", "Machine::run pays the start-up cost before the first transition", floor=1)
    rep.rule("R05-FLUSH", "the final flush precedes Done; the flush charges every kind once, linearly in the count, and zeroes what it charged", floor=6)
    rep.rule("R05-BUILTIN", "eval_builtin_app: to_ex_budget -> spend_budget -> call, each before the next; call/to_ex_budget have no other caller", floor=3)
    rep.rule("R05-OWNER", "Machine.ex_budget is written only by spend_budget (and the constructors); spend_budget subtracts and tests both dimensions", floor=3)
    rep.rule("R05-RESULT", "EvalResult::new receives (machine.ex_budget as remaining, the budget given to Machine::new* as initial); cost = initial - remaining", floor=7)
    rep.rule("R05-WIRE", "every get(ParamName) in the CostModel literal names the builtin, dimension and coefficient of the field it initialises", floor=390)
    rep.rule("R05-SIZE", "each to_ex_budget arm reads only its own cost field; mem and cpu receive token-identical size arguments", floor=91)
    rep.rule("R05-VORDER", "ParamName::V1/V2/V3: no duplicates, each builtin's parameters contiguous, ascending within the builtin, and ordered identically in the three lists", floor=300)
    rep.rule("R05-MEASURE", "constants and Data leaves of the same kind are sized by the same measure function", floor=6)
    rep.rule("R05-FAMILY", "division builtins: divide/mod share the cpu model shape, quotient/remainder too; divide/quotient and mod/remainder share the memory model shape, per semantics variant", floor=20)
    rep.guarded("R05-FAMILY", lambda: r_family(sh, rep))
    rep.guarded("R05-VORDER", lambda: r_vorder(sh, rep))
    rep.guarded("R05-MEASURE", lambda: r_measure(sh, rep))
    from . import c04
    rep.rule("R19-COST", "every evaluation entry point reports cost = (the budget its machine was created with) - (what the machine has left) (shared with C19)", floor=3)

    def cost():
        from . import c19
        c19.r_cost(ctx.shape, rep)

    rep.guarded("R19-COST", cost)
    rep.rule("R05-BIGINTSITE", "no size measure decodes Data big integers by hand (shared with C04)", floor=2)
    rep.guarded("R05-BIGINTSITE", lambda: c04.r_bigintsites(sh, rep, "R05-BIGINTSITE"))
    rep.guarded("R05-STEP", lambda: r_step(sh, rep))
    rep.guarded("R05-STEPKIND", lambda: r_stepkind(sh, rep))
    rep.guarded("R05-STARTUP", lambda: r_startup(sh, rep))
    rep.guarded("R05-FLUSH", lambda: r_flush(sh, rep))
    rep.guarded("R05-BUILTIN", lambda: r_builtin(sh, rep))
    rep.rule("R05-COSTVERSION", "an evaluation entry point that is told the Plutus version prices the run with that version's cost model: the cost model handed to Machine::new* depends on the version parameter", floor=2)
    rep.guarded("R05-COSTVERSION", lambda: r_costversion(sh, rep))
    rep.rule("R05-WORDS", "the two byte-count -> word-count measures, evaluated on 0, 1, 8, 9: a byte string of n bytes weighs max(1, ceil(n / 8)) words, a literal size argument ceil(n / 8) words (0 for 0)", floor=8)
    rep.guarded("R05-WORDS", lambda: r_words(sh, rep))
    rep.guarded("R05-OWNER", lambda: r_owner(sh, rep))
    rep.guarded("R05-RESULT", lambda: r_result(sh, rep))
    rep.guarded("R05-WIRE", lambda: r_wire(sh, rep))

    def size():
        t = BuiltinTables(sh)
        rep.touched(CM, "BuiltinCosts::to_ex_budget")
        br.rule_size(t, rep, "R05-SIZE")
        one_arm_per_variant(rep, "R05-SIZE", "BuiltinCosts::to_ex_budget", sh, CM, t.cost_match)

    rep.guarded("R05-SIZE", size)
    if ctx.flow is not None:
        from . import c05_flow

        c05_flow.run(ctx, rep)


def r_step(sh, rep):
    fj = sh.file(M)
    comp = find_method(fj, "Machine", "compute")
    rep.touched(M, "Machine::compute")
    variants = [v["name"] for v in find_enum(sh.file(A), "Term")["variants"]]
    m = next(matches_in(comp["body"], lambda e: e["k"] == "Path" and e["p"] == "term"))
    rows = {}
    for v, arm, alt in arm_table(m):
        if v is None:
            rep.bad("R05-STEP", "compute#catch-all", sh.loc(M, arm), "Machine::compute has a catch-all arm: some constructor is stepped without being charged")
            continue
        rows.setdefault(v, [])
        if not any(a is arm for a in rows[v]):
            rows[v].append(arm)
    for v in variants:
        if v not in rows:
            rep.bad("R05-STEP", "compute#%s#no-arm" % v, M, "Term::%s has no explicit arm in Machine::compute" % v)
            continue
        # a constructor may be handled by several arms (guards, nested patterns): each of them is a way to take the step
        for nth, arm in enumerate(rows[v]):
            where = sh.loc(M, arm)
            v_key = v if nth == 0 else "%s#arm%d" % (v, nth + 1)
            steps = [c for c in calls_in(arm["body"]) if call_name(c) == "step_and_maybe_spend"]
            kinds = []
            for c in steps:
                a = c["args"][0] if c["args"] else None
                kinds.append(last(a["p"]) if a is not None and a["k"] == "Path" else "?")
            if v in UNCHARGED:
                rep.check(not steps, "R05-STEP", "compute#%s" % v_key, where, "Term::%s must not be charged a step (the ledger machine fails before charging)" % v, sample={"constructor": v, "charges": kinds})
                continue
            if len(steps) != 1:
                rep.bad("R05-STEP", "compute#%s#charge-count" % v_key, where, "arm charges %d steps %r; exactly one is required (a missing charge under-bills, a second one over-bills every %s node)" % (len(steps), kinds, v))
                continue
            if kinds[0] != STEP_FOR.get(v):
                rep.bad("R05-STEP", "compute#%s#wrong-kind" % v_key, where, "arm charges StepKind::%s; Term::%s must be charged StepKind::%s" % (kinds[0], v, STEP_FOR.get(v)))
                continue
            # first statement of the arm, propagated with `?`
            body = arm["body"]
            first = stmt_exprs(body)[0] if body["k"] == "Block" and body["stmts"] else body
            is_first = first["k"] == "Try" and strip_try(first) is steps[0]
            if not is_first:
                rep.bad("R05-STEP", "compute#%s#not-first" % v_key, where, "the step charge is not the first statement of the arm (or its error is not propagated with `?`): work is done before the step is paid for")
                continue
            rep.ok("R05-STEP", "compute#%s" % v_key, where, sample={"constructor": v, "charged": kinds[0], "position": "first statement, propagated with ?"})
    # StartUp never passed to step_and_maybe_spend anywhere in the crate
    n = 0
    for rel in sh.files():
        if not rel.startswith("crates/uplc/src/"):
            continue
        for q, f in all_fns(sh.file(rel)):
            if "body" not in f:
                continue
            for c in calls_in(f["body"]):
                if call_name(c) == "step_and_maybe_spend":
                    n += 1
                    a = c["args"][0] if c["args"] else None
                    if a is not None and a["k"] == "Path" and last(a["p"]) == "StartUp":
                        rep.bad("R05-STEP", "%s#StartUp-as-step" % q, sh.loc(rel, c), "StepKind::StartUp (discriminant 9) aliases the running-total slot unbudgeted_steps[9]")
    rep.check(n >= 9, "R05-STEP", "step-call-sites", M, "expected at least 9 step_and_maybe_spend call sites, found %d" % n, sample={"call_sites": n})


def r_stepkind(sh, rep):
    fj = sh.file(CM)
    en = find_enum(fj, "StepKind")
    discs = {}
    for v in en["variants"]:
        d = v["disc"]
        dv = int(d["v"]) if d and d["k"] == "Lit" else None
        where = "%s:%d" % (CM, v["l"])
        if dv is None or dv in discs.values():
            rep.bad("R05-STEPKIND", "disc#" + v["name"], where, "StepKind::%s has no unique explicit discriminant" % v["name"])
        else:
            rep.ok("R05-STEPKIND", "disc#" + v["name"], where, sample={"kind": v["name"], "disc": dv})
        discs[v["name"]] = dv
    tf = find_method(fj, "StepKind", "try_from", trait="TryFrom<u8>")
    rep.touched(CM, "TryFrom<u8> for StepKind")
    m = next(matches_in(tf["body"]))
    seen = set()
    for arm in m["arms"]:
        p = arm["pat"]
        if p["k"] == "PLit":
            n = int(p["e"]["v"])
            ks = [last(x) for x in paths_in(arm["body"]) if "StepKind::" in x]
            k = ks[0] if ks else None
            seen.add(k)
            rep.check(discs.get(k) == n, "R05-STEPKIND", "try_from#%d" % n, sh.loc(CM, arm), "TryFrom<u8> maps %d to StepKind::%s whose discriminant is %s: the flush would charge kind %s at the price of another" % (n, k, discs.get(k), k), sample={"byte": n, "kind": k})
    for k, d in discs.items():
        if k != "StartUp":
            rep.check(k in seen, "R05-STEPKIND", "try_from#covers#" + k, CM, "TryFrom<u8> never yields StepKind::%s: steps of that kind would fail to be charged" % k)
    rep.check("StartUp" not in seen, "R05-STEPKIND", "try_from#excludes-StartUp", CM, "TryFrom<u8> yields StartUp: the flush loop would charge the start-up cost per batch")
    # MachineCosts::get: StepKind::V => self.<field(V)>
    g = find_method(fj, "MachineCosts", "get")
    rep.touched(CM, "MachineCosts::get")
    field_of = {"Constant": "constant", "Var": "var", "Lambda": "lambda", "Apply": "apply", "Delay": "delay", "Force": "force", "Builtin": "builtin", "Constr": "constr", "Case": "case", "StartUp": "startup"}
    gm = next(matches_in(g["body"]))
    for v, arm, alt in arm_table(gm):
        b = arm["body"]
        f = b["f"] if b["k"] == "Field" else None
        rep.check(v in field_of and f == field_of[v], "R05-STEPKIND", "get#%s" % v, sh.loc(CM, arm), "MachineCosts::get(StepKind::%s) returns self.%s, expected self.%s" % (v, f, field_of.get(v)), sample={"kind": v, "field": f})
    # unbudgeted_steps has one slot per chargeable kind plus the running total
    mj = sh.file(M)
    ms = find_struct(mj, "Machine")
    us = [f for f in ms["fields"] if f["name"] == "unbudgeted_steps"]
    if not us:
        raise AnchorMissing("Machine.unbudgeted_steps")
    mm = re.match(r"\[u32;(\d+)\]", us[0]["ty"])
    n = int(mm.group(1)) if mm else None
    nkinds = len([k for k in discs if k != "StartUp"])
    rep.check(n == nkinds + 1 and discs.get("StartUp") == nkinds, "R05-STEPKIND", "slots", "%s:%d" % (M, us[0]["l"]), "unbudgeted_steps has %s slots for %d chargeable kinds (+1 running total at index StartUp=%s)" % (n, nkinds, discs.get("StartUp")), sample={"slots": n, "kinds": nkinds})


def r_startup(sh, rep):
    fj = sh.file(M)
    run_ = find_method(fj, "Machine", "run")
    rep.touched(M, "Machine::run")
    ex = stmt_exprs(run_["body"])
    # index of the statement paying start-up, index of the loop
    pay = loop = None
    binds = {}
    for i, e in enumerate(run_["body"]["stmts"]):
        if e["k"] == "Local" and e["pat"]["k"] == "Ident" and "init" in e:
            binds[e["pat"]["name"]] = e["init"]
    for i, e in enumerate(ex):
        if e.get("k") == "Try":
            c = strip_try(e)
            if call_name(c) == "spend_budget" and c["args"]:
                a = c["args"][0]
                src = binds.get(a["p"]) if a["k"] == "Path" else a
                if src is not None and any(x["k"] == "Path" and last(x["p"]) == "StartUp" for x in walk(src)) and any(call_name(x) == "get" for x in calls_in(src)):
                    pay = i
        if e.get("k") in ("Loop", "While"):
            loop = i if loop is None else loop
    ok = pay is not None and loop is not None and pay < loop
    rep.check(ok, "R05-STARTUP", "run#startup-before-loop", sh.loc(M, run_), "Machine::run must `self.spend_budget(costs.machine_costs.get(StepKind::StartUp))?` before entering the transition loop (pay=%s loop=%s)" % (pay, loop), sample={"pay_stmt": pay, "loop_stmt": loop})


def r_flush(sh, rep):
    fj = sh.file(M)
    rc = find_method(fj, "Machine", "return_compute")
    rep.touched(M, "Machine::return_compute")
    m = next(matches_in(rc["body"], lambda e: e["k"] == "Path" and e["p"] == "context"))
    nf = [arm for v, arm, alt in arm_table(m) if v == "NoFrame"]
    if not nf:
        raise AnchorMissing("return_compute NoFrame arm")
    arm = nf[0]
    # every Done construction in return_compute lives in the NoFrame arm, after the flush
    dones_all = [n for n in walk(rc["body"]) if n["k"] in ("Path", "Call") and (n.get("p") or call_name(n) or "").endswith("MachineState::Done")]
    dones_arm = [n for n in walk(arm["body"]) if n["k"] in ("Path", "Call") and (n.get("p") or call_name(n) or "").endswith("MachineState::Done")]
    rep.check(len(dones_all) == len(dones_arm) and dones_arm, "R05-FLUSH", "done-only-in-NoFrame", sh.loc(M, arm), "MachineState::Done is produced outside the NoFrame arm (%d of %d): a path ends the run without the final flush" % (len(dones_all) - len(dones_arm), len(dones_all)))
    body = arm["body"]
    ex = stmt_exprs(body) if body["k"] == "Block" else [body]
    flush_i = done_i = None
    for i, e in enumerate(ex):
        if any(call_name(c) == "spend_unbudgeted_steps" for c in calls_in(e)) and flush_i is None:
            # unconditional, or guarded exactly by the running total being positive
            if e["k"] == "If":
                cond = sh.nsrc(M, e["cond"])
                if re.fullmatch(r"self\.unbudgeted_steps\[9\]>0|self\.unbudgeted_steps\[9\]!=0", cond):
                    inner = stmt_exprs(e["then"])
                    if inner and inner[0]["k"] == "Try" and call_name(strip_try(inner[0])) == "spend_unbudgeted_steps":
                        flush_i = i
            elif e["k"] == "Try" and call_name(strip_try(e)) == "spend_unbudgeted_steps":
                flush_i = i
        if any((n.get("p") or call_name(n) or "").endswith("MachineState::Done") for n in walk(e) if n["k"] in ("Path", "Call")):
            done_i = i if done_i is None else done_i
    rep.check(flush_i is not None and done_i is not None and flush_i < done_i, "R05-FLUSH", "flush-before-done", sh.loc(M, arm), "in the NoFrame arm, `spend_unbudgeted_steps()?` (unconditionally or under `unbudgeted_steps[9] > 0`) must precede MachineState::Done (flush=%s done=%s)" % (flush_i, done_i), sample={"flush_stmt": flush_i, "done_stmt": done_i})
    # spend_unbudgeted_steps body
    su = find_method(fj, "Machine", "spend_unbudgeted_steps")
    rep.touched(M, "Machine::spend_unbudgeted_steps")
    loops = [n for n in walk(su["body"]) if n["k"] == "For"]
    if len(loops) != 1:
        rep.bad("R05-FLUSH", "flush#loop", sh.loc(M, su), "expected one `for i in 0..len-1` loop, found %d" % len(loops))
    else:
        lp = loops[0]
        rng = sh.nsrc(M, lp["e"])
        rep.check(rng in ("0..self.unbudgeted_steps.len()-1", "0..9"), "R05-FLUSH", "flush#range", sh.loc(M, lp), "flush loop ranges over %s; it must cover exactly the chargeable kinds 0..len-1 (the last slot is the running total)" % rng, sample={"range": rng})
        var = lp["pat"]["name"] if lp["pat"]["k"] == "Ident" else "i"
        b = lp["body"]
        src = sh.nsrc(M, b)
        occ = [c for c in calls_in(b) if c["k"] == "MethodCall" and c["m"] == "occurrences"]
        spend = [c for c in calls_in(b) if call_name(c) == "spend_budget"]
        gets = [c for c in calls_in(b) if c["k"] == "MethodCall" and c["m"] == "get"]
        okocc = len(occ) == 1 and ("self.unbudgeted_steps[%s]" % var) in sh.nsrc(M, occ[0]["args"][0])
        rep.check(okocc, "R05-FLUSH", "flush#occurrences-once", sh.loc(M, lp), "the per-kind cost must be multiplied by unbudgeted_steps[%s] exactly once per flush (found %d occurrences() calls)" % (var, len(occ)))
        okspend = len(spend) == 1 and occ and first_ident_name(spend[0]["args"][0]) == first_ident_name(occ[0]["recv"])
        rep.check(okspend, "R05-FLUSH", "flush#spend-once", sh.loc(M, lp), "the multiplied cost must be passed to spend_budget exactly once (found %d)" % len(spend))
        okget = len(gets) >= 1 and ("StepKind::try_from(%sasu8)" % var) in src
        rep.check(okget, "R05-FLUSH", "flush#kind-from-index", sh.loc(M, lp), "the cost must be fetched with get(StepKind::try_from(%s as u8)?)" % var)
        zero = ("self.unbudgeted_steps[%s]=0;" % var) in src
        rep.check(zero, "R05-FLUSH", "flush#zero-slot", sh.loc(M, lp), "the charged slot is not reset to 0: the same steps would be billed again at the next flush")
    whole = sh.nsrc(M, su["body"])
    rep.check("self.unbudgeted_steps[9]=0;" in whole, "R05-FLUSH", "flush#zero-total", sh.loc(M, su), "the running total unbudgeted_steps[9] is not reset")
    # step_and_maybe_spend increments the kind slot and the total, then compares with slippage
    ss = find_method(fj, "Machine", "step_and_maybe_spend")
    rep.touched(M, "Machine::step_and_maybe_spend")
    s = sh.nsrc(M, ss["body"])
    ok = ("self.unbudgeted_steps[indexasusize]+=1;" in s or "self.unbudgeted_steps[stepasusize]+=1;" in s) and "self.unbudgeted_steps[9]+=1;" in s and s.count("+=1") == 2
    rep.check(ok, "R05-FLUSH", "step#increments", sh.loc(M, ss), "step_and_maybe_spend must add exactly 1 to the kind's slot and 1 to the running total")
    rep.check(bool(re.search(r"ifself\.unbudgeted_steps\[9\]>=self\.slippage\{self\.spend_unbudgeted_steps\(\)\?;\}", s)), "R05-FLUSH", "step#threshold", sh.loc(M, ss), "the batch must be flushed (with `?`) when the running total reaches the slippage")
    # ExBudget::occurrences multiplies both dimensions by n
    oc = find_method(sh.file(CM), "ExBudget", "occurrences")
    rep.touched(CM, "ExBudget::occurrences")
    o = sh.nsrc(CM, oc["body"])
    rep.check("self.mem*=n;" in o and "self.cpu*=n;" in o and o.count("=") == 2, "R05-FLUSH", "occurrences#linear", sh.loc(CM, oc), "ExBudget::occurrences(n) must multiply mem and cpu by n (and nothing else): batching independence rests on linearity")


def first_ident_name(n):
    while n is not None:
        k = n["k"]
        if k == "Path":
            return n["p"]
        if k == "MethodCall":
            n = n["recv"]
        elif k in ("Field", "Try", "Unary", "Ref", "Cast", "Index"):
            n = n["e"]
        else:
            return None


def r_builtin(sh, rep):
    fj = sh.file(M)
    f = find_method(fj, "Machine", "eval_builtin_app")
    rep.touched(M, "Machine::eval_builtin_app")
    ex = stmt_exprs(f["body"])
    pos = {}
    costvar = None
    for i, st in enumerate(f["body"]["stmts"]):
        e = ex[i]
        names = [call_name(c) for c in calls_in(e, closures=False)]
        if "to_ex_budget" in names and "to_ex_budget" not in pos:
            pos["to_ex_budget"] = i
            if st["k"] == "Local" and st["pat"]["k"] == "Ident":
                costvar = st["pat"]["name"]
            rep.check(e["k"] == "Try", "R05-BUILTIN", "cost#propagated", sh.loc(M, e), "a costing failure must be propagated with `?`")
        if "spend_budget" in names and "spend_budget" not in pos:
            pos["spend_budget"] = i
            c = [c for c in calls_in(e) if call_name(c) == "spend_budget"][0]
            rep.check(e["k"] == "Try" and c["args"] and c["args"][0]["k"] == "Path" and c["args"][0]["p"] == costvar, "R05-BUILTIN", "spend#same-cost", sh.loc(M, e), "spend_budget must be given the cost just computed (%s) and propagated with `?`" % costvar)
        if "call" in names and "call" not in pos:
            pos["call"] = i
    ok = all(k in pos for k in ("to_ex_budget", "spend_budget", "call")) and pos["to_ex_budget"] < pos["spend_budget"] < pos["call"]
    rep.check(ok, "R05-BUILTIN", "order", sh.loc(M, f), "eval_builtin_app must compute the cost, pay it, and only then run the builtin (statement positions: %r)" % pos, sample=pos)
    # who calls DefaultFunction::call / BuiltinRuntime::call / to_ex_budget (syntactic over non-test uplc code; the flow rule resolves types)
    callers = {"call": set(), "to_ex_budget": set()}
    for rel in sh.files():
        if not rel.startswith("crates/") or "/tests" in rel or rel.endswith("tests.rs"):
            continue
        for q, fn in all_fns(sh.file(rel)):
            if "body" not in fn:
                continue
            for c in calls_in(fn["body"]):
                if c["k"] == "MethodCall" and c["m"] in callers and c["m"] == "to_ex_budget":
                    callers["to_ex_budget"].add(rel + "::" + q)
                if c["k"] == "MethodCall" and c["m"] == "call" and len(c["args"]) in (2, 3) and any(x["k"] == "Path" and x["p"] in ("traces", "semantics") or x["k"] == "Field" and x["f"] in ("traces", "semantics") for a in c["args"] for x in walk(a)):
                    callers["call"].add(rel + "::" + q)
    allowed = {"call": {M + "::Machine::eval_builtin_app", "crates/uplc/src/machine/runtime.rs::BuiltinRuntime::call"}, "to_ex_budget": {M + "::Machine::eval_builtin_app", "crates/uplc/src/machine/runtime.rs::BuiltinRuntime::to_ex_budget"}}
    for k in callers:
        extra = callers[k] - allowed[k]
        rep.check(not extra, "R05-BUILTIN", "who-may-call#" + k, M, "%s is also invoked from %s: a builtin could run without (or be billed twice for) its cost" % (k, sorted(extra)), sample={"callers": sorted(callers[k])})


def assigns_to(node, field):
    """assignment / compound-assignment expressions whose left side goes through .<field>"""
    for n in walk(node):
        lhs = None
        if n["k"] == "Assign":
            lhs = n["l"]
        elif n["k"] == "Binary" and re.fullmatch(r"[-+*/%&|^]=|<<=|>>=", n["op"]):
            lhs = n["l"]
        if lhs is not None and any(x["k"] == "Field" and x["f"] == field for x in walk(lhs)):
            yield n
        if n["k"] == "Ref" and n["mut"] and any(x["k"] == "Field" and x["f"] == field for x in walk(n["e"])):
            yield n


def r_owner(sh, rep):
    writers = {}
    for rel in sh.files():
        for q, fn in all_fns(sh.file(rel)):
            if "body" not in fn:
                continue
            ws = list(assigns_to(fn["body"], "ex_budget"))
            if ws:
                writers[rel + "::" + q] = ws
    allowed = {M + "::Machine::spend_budget"}
    extra = set(writers) - allowed
    rep.check(not extra and (M + "::Machine::spend_budget") in writers, "R05-OWNER", "writers#ex_budget", M, "Machine.ex_budget is assigned / mutably borrowed in %s; only spend_budget may write it" % sorted(extra), sample={"writers": sorted(writers)})
    sb = find_method(sh.file(M), "Machine", "spend_budget")
    rep.touched(M, "Machine::spend_budget")
    s = sh.nsrc(M, sb["body"])
    p = sb["sig"]["inputs"][1]["pat"]["name"]
    rep.check(("self.ex_budget.mem-=%s.mem;" % p) in s and ("self.ex_budget.cpu-=%s.cpu;" % p) in s and s.count("-=") == 2, "R05-OWNER", "spend#both-dimensions", sh.loc(M, sb), "spend_budget must subtract mem from mem and cpu from cpu, each once")
    rep.check("ifself.ex_budget.mem<0||self.ex_budget.cpu<0{Err(" in s, "R05-OWNER", "spend#both-tested", sh.loc(M, sb), "spend_budget must fail when either dimension becomes negative (`mem < 0 || cpu < 0`)")


def r_result(sh, rep):
    fa = sh.file(A)
    n = 0
    for im in find_impls(fa, "Program<NamedDeBruijn>"):
        for f in im["items"]:
            if f["k"] != "Fn" or not f["name"].startswith("eval"):
                continue
            n += 1
            q = "Program<NamedDeBruijn>::" + f["name"]
            rep.touched(A, q)
            mk = [c for c in calls_in(f["body"]) if (call_name(c) or "").startswith("Machine::new")]
            er = [c for c in calls_in(f["body"]) if call_name(c) == "EvalResult::new"]
            if not mk and not er:
                # an entry point may delegate to a sibling (`self.eval_version(initial_budget, ..)`): the budget parameter
                # must be handed over as it is
                dl = [c for c in calls_in(f["body"]) if c["k"] == "MethodCall" and c["m"].startswith("eval") and sh.nsrc(A, c["recv"]) == "self"]
                bparams = [i["pat"].get("name") for i in f["sig"]["inputs"] if isinstance(i.get("pat"), dict) and "ExBudget" in (i.get("ty") or "")]
                okd = len(dl) == 1 and bparams and any(sh.nsrc(A, a) == bparams[0] for a in dl[0]["args"])
                rep.check(bool(okd), "R05-RESULT", q + "#delegates", sh.loc(A, f), "%s neither runs a machine nor hands its budget parameter unchanged to one sibling entry point" % q, why_ok="delegates to %s with its own budget" % (dl[0]["m"] if dl else "?"))
                continue
            if len(mk) != 1 or len(er) != 1:
                rep.bad("R05-RESULT", q + "#shape", sh.loc(A, f), "expected one Machine::new* and one EvalResult::new call")
                continue
            # the budget argument of Machine::new* is the ExBudget-typed one: position -2 (before slippage)
            budget_arg = sh.nsrc(A, mk[0]["args"][-2])
            a = er[0]["args"]
            rem, ini = sh.nsrc(A, a[1]), sh.nsrc(A, a[2])
            run_ok = any(c["k"] == "MethodCall" and c["m"] == "run" for c in calls_in(f["body"]))
            ok = rem == "machine.ex_budget" and ini == budget_arg and run_ok
            rep.check(ok, "R05-RESULT", q, sh.loc(A, er[0]), "EvalResult::new(.., remaining=%s, initial=%s, ..) but the machine was started with %s: the reported cost (initial - remaining) would be wrong" % (rem, ini, budget_arg), sample={"machine_budget": budget_arg, "remaining": rem, "initial": ini})
    fe = sh.file(ER)
    c = find_method(fe, "EvalResult", "cost")
    rep.touched(ER, "EvalResult::cost")
    rep.check(sh.nsrc(ER, c["body"]) == "{self.initial_budget-self.remaining_budget}", "R05-RESULT", "cost#initial-minus-remaining", sh.loc(ER, c), "EvalResult::cost must be initial_budget - remaining_budget")
    nw = find_method(fe, "EvalResult", "new")
    params = [i["pat"]["name"] for i in nw["sig"]["inputs"]]
    lit = [n for n in walk(nw["body"]) if n["k"] == "Struct"][0]
    okn = all(fi["short"] or (fi["e"]["k"] == "Path" and fi["e"]["p"] == fi["name"]) for fi in lit["fields"]) and params[1:3] == ["remaining_budget", "initial_budget"]
    rep.check(okn, "R05-RESULT", "new#fields", sh.loc(ER, nw), "EvalResult::new must store its 2nd/3rd parameters as remaining_budget/initial_budget unchanged")
    sub = [im for im in find_impls(sh.file(CM), "ExBudget", any_trait=True) if im["trait"] and im["trait"].endswith("Sub")]
    if sub:
        s = sh.nsrc(CM, sub[0]["items"][-1]["body"])
        rep.check("mem:self.mem-rhs.mem" in s and "cpu:self.cpu-rhs.cpu" in s, "R05-RESULT", "sub#componentwise", sh.loc(CM, sub[0]), "ExBudget subtraction must be component-wise")


def r_wire(sh, rep):
    fj = sh.file(CM)
    f = find_fn(fj, "initialize_cost_model_with_semantics")
    rep.touched(CM, "initialize_cost_model_with_semantics")
    pn = {v["name"] for v in find_enum(fj, "ParamName")["variants"]}
    sites = []

    def visit(n, c):
        if isinstance(n, list):
            for x in n:
                visit(x, c)
            return
        if not isinstance(n, dict):
            return
        if n.get("k") == "Struct":
            for fi in n["fields"]:
                visit(fi["e"], c + [fi["name"]])
            if n.get("rest"):
                visit(n["rest"], c)
            return
        if n.get("k") == "Call" and n["f"]["k"] == "Path" and n["f"]["p"] == "get" and len(n["args"]) == 1 and n["args"][0]["k"] == "Path":
            sites.append((c, n["args"][0]["p"], n))
            return
        for k, v in n.items():
            if isinstance(v, (dict, list)):
                visit(v, c)

    visit(f["body"], [])
    used = set()
    for c, p, n in sites:
        where = sh.loc(CM, n)
        used.add(last(p))
        param = last(p)
        key = "%s<-%s" % (".".join(c), param)
        if param not in pn:
            rep.bad("R05-WIRE", key + "#unknown-param", where, "%s is not a ParamName variant" % param)
            continue
        if len(c) < 3:
            rep.bad("R05-WIRE", key + "#context", where, "get() outside a machine_costs/builtin_costs field initialiser")
            continue
        problems = []
        if c[0] == "machine_costs":
            stem = CEK_PARAM.get(c[1])
            dim = {"mem": "exBudgetMemory", "cpu": "exBudgetCPU"}.get(c[2])
            if stem is None or dim is None or param != "%s_%s" % (stem, dim):
                problems.append("machine_costs.%s.%s must be wired to %s_%s" % (c[1], c[2], stem, dim))
        elif c[0] == "builtin_costs":
            m = re.match(r"^(.*?)_(memory|cpu)_arguments(?:_(.*))?$", param)
            if not m:
                problems.append("parameter name does not have the form <Builtin>_(memory|cpu)_arguments[_...]")
            else:
                stem, dim, suffix = m.groups()
                wantstem = COST_FIELD_IRREGULAR.get(c[1])
                if not (br.norm_name(stem) == br.norm_name(c[1]) or stem == wantstem):
                    problems.append("field %s is initialised from a parameter of builtin %s" % (c[1], stem))
                if {"memory": "mem", "cpu": "cpu"}[dim] != c[2]:
                    problems.append("the %s half is initialised from a %s parameter" % (c[2], dim))
                leaf = c[-1] if len(c) > 3 else None
                lastseg = suffix.split("_")[-1] if suffix else None
                if leaf is None:
                    if suffix:
                        problems.append("a constant cost is initialised from coefficient parameter ..._%s" % suffix)
                else:
                    if leaf not in LEAF_SUFFIX:
                        problems.append("coefficient field %s is not in the suffix table" % leaf)
                    elif LEAF_SUFFIX[leaf] != lastseg:
                        problems.append("coefficient %s is initialised from ..._%s (expected ..._%s)" % (leaf, lastseg, LEAF_SUFFIX[leaf]))
                    # nested model: path has 'model' iff the name has model_arguments
                    if ("model" in c[3:-1]) != bool(suffix and "model_arguments" in suffix):
                        problems.append("nesting mismatch between field path %s and parameter suffix %s" % (".".join(c[3:]), suffix))
        else:
            problems.append("unexpected top-level field %s" % c[0])
        if problems:
            rep.bad("R05-WIRE", key, where, "; ".join(problems), sample={"path": c, "param": param})
        else:
            rep.ok("R05-WIRE", key, where, sample={"path": ".".join(c), "param": param})
    # every ParamName is consumed somewhere in the literal (an unused parameter is a silently ignored ledger value)
    unused = sorted(pn - used)
    rep.check(not unused, "R05-WIRE", "all-params-consumed", CM, "ParamName variant(s) never read by the cost-model literal: %s" % unused[:8], sample={"params": len(pn), "used": len(used)})


# ---------------------------------------------------------------------------------------------------------
# R05-VORDER: positional parameter lists (ParamName::V1/V2/V3) — sibling agreement and within-builtin order
# ---------------------------------------------------------------------------------------------------------
# The ledger hands cost models over as a positional vector; ParamName::V{1,2,3} say which name sits at which
# position. The three lists are independent copies of one convention: the parameters of one builtin are the
# flattened keys of its JSON object, in ascending key order. Reviewed exception (kept as found on the tree;
# the ledger's own list cannot be consulted offline):
VORDER_EXCEPTIONS = {("UnionValue", "UnionValue_cpu_arguments_c10", "UnionValue_cpu_arguments_c01"): "two-variable polynomial listed c00,c10,c01,c11 in all three lists"}


def _param_group(name):
    m = re.match(r"^(.*?)_(cpu|memory)_arguments|^(Cek\w+?Cost)_exBudget", name)
    if not m:
        return name
    return m.group(1) or m.group(3)


def r_vorder(sh, rep):
    fj = sh.file(CM)
    lists = {}
    for _, it in items(fj):
        if it["k"] == "Impl" and _ty_name(it["self_ty"]) == "ParamName" and it["trait"] is None:
            for c in it["items"]:
                if c["k"] == "Const" and re.match(r"^V\d$", c["name"]):
                    lists[c["name"]] = [last(n["p"]) for n in walk(c["e"]) if n["k"] == "Path"]
    if len(lists) < 3:
        raise AnchorMissing("ParamName::V1/V2/V3 constant lists")
    rep.touched(CM, "ParamName::V1/V2/V3")
    per = {}
    for vn, names in sorted(lists.items()):
        dup = sorted({n for n in names if names.count(n) > 1})
        rep.check(not dup, "R05-VORDER", "%s#no-duplicate" % vn, CM, "ParamName::%s lists %s twice: two positions of the ledger vector feed one parameter and another is never set" % (vn, dup), sample={"length": len(names)})
        groups = {}
        order = []
        for n in names:
            g = _param_group(n)
            if g not in groups:
                order.append(g)
            groups.setdefault(g, []).append(n)
        # contiguity: a builtin's parameters sit next to each other
        runs = []
        for n in names:
            g = _param_group(n)
            if not runs or runs[-1] != g:
                runs.append(g)
        split = sorted({g for g in runs if runs.count(g) > 1})
        rep.check(not split, "R05-VORDER", "%s#contiguous" % vn, CM, "in ParamName::%s the parameters of %s are not contiguous" % (vn, split), nontrivial=True)
        for g, ns in groups.items():
            per.setdefault(g, {})[vn] = ns
            for a, b in zip(ns, ns[1:]):
                if a > b and (g, a, b) not in VORDER_EXCEPTIONS:
                    rep.bad("R05-VORDER", "%s#%s#ascending#%s" % (vn, g, b), CM, "ParamName::%s lists %s before %s: within one builtin the ledger's positional vector follows ascending key order (349 of 350 adjacent pairs do; the one reviewed exception is UnionValue c10/c01) — two cost coefficients are transposed" % (vn, a, b), sample={"group": ns})
            rep.ok("R05-VORDER", "%s#%s#ascending" % (vn, g), CM, nontrivial=len(ns) > 1, sample={"params": ns} if len(ns) > 3 else None)
    for g, by in sorted(per.items()):
        seqs = {vn: tuple(ns) for vn, ns in by.items()}
        if len(seqs) > 1:
            ref_v, ref = sorted(seqs.items())[0]
            for vn, s in sorted(seqs.items())[1:]:
                # the costing function of a builtin may differ between versions (other parameters); what must agree is the
                # relative order of the parameters both lists have
                common = set(s) & set(ref)
                s, ref_c = tuple(x for x in s if x in common), tuple(x for x in ref if x in common)
                rep.check(s == ref_c, "R05-VORDER", "%s#same-order-as-%s#%s" % (vn, ref_v, g), CM, "the shared parameters of %s are ordered %s in ParamName::%s but %s in ParamName::%s: the same builtin is flattened differently by two versions of the list" % (g, list(s), vn, list(ref_c), ref_v), sample={"group": g})


def _ty_name(t):
    return re.sub(r"<.*$", "", t).split("::")[-1]


# ---------------------------------------------------------------------------------------------------------
# R05-MEASURE: one size measure per kind of value, shared by constants and by Data leaves
# ---------------------------------------------------------------------------------------------------------
V = "crates/uplc/src/machine/value.rs"
MEASURE_CONST = {"Integer": "integer_to_ex_mem", "ByteString": "byte_string_to_ex_mem", "String": "utf8_text_to_ex_mem", "Data": "data_to_ex_mem_inner"}
MEASURE_DATA = {"BigInt": "integer_to_ex_mem", "BoundedBytes": "byte_string_to_ex_mem"}


def r_measure(sh, rep):
    fj = sh.file(V)
    cm = find_method(fj, "Value", "constant_to_ex_mem")
    rep.touched(V, "Value::constant_to_ex_mem")
    m = find_enum_match(cm, "Constant", set(MEASURE_CONST) | {"Unit", "Bool", "ProtoList", "ProtoPair"})
    if m is None:
        raise AnchorMissing("match over Constant in constant_to_ex_mem")
    for v, arm, alt in arm_table(m):
        if v in MEASURE_CONST:
            called = {call_name(c) and last(call_name(c)) for c in calls_in(arm["body"])}
            rep.check(MEASURE_CONST[v] in called, "R05-MEASURE", "constant_to_ex_mem#%s" % v, sh.loc(V, arm), "the size of a %s constant must be measured by %s (found calls: %s)" % (v, MEASURE_CONST[v], sorted(x for x in called if x)), sample={"measure": MEASURE_CONST[v]})
    di = find_method(fj, "Value", "data_to_ex_mem_inner")
    rep.touched(V, "Value::data_to_ex_mem_inner")
    m = find_enum_match(di, "PlutusData", {"Constr", "Map", "BigInt", "BoundedBytes", "Array"})
    if m is None:
        raise AnchorMissing("match over PlutusData in data_to_ex_mem_inner")
    seen = set()
    for v, arm, alt in arm_table(m):
        if v is None:
            rep.bad("R05-MEASURE", "data_to_ex_mem_inner#catch-all", sh.loc(V, arm), "catch-all arm: some Data node is sized without its own rule")
        if v in MEASURE_DATA:
            seen.add(v)
            called = {call_name(c) and last(call_name(c)) for c in calls_in(arm["body"])}
            # the integer must be measured as the integer it denotes (conversion through from_pallas_bigint), by the same helper as Integer constants
            ok = MEASURE_DATA[v] in called and (v != "BigInt" or "from_pallas_bigint" in called)
            rep.check(ok, "R05-MEASURE", "data_to_ex_mem_inner#%s" % v, sh.loc(V, arm), "a Data %s leaf must be measured by %s%s — the same measure as the corresponding constant — but the arm calls %s: Data and constants of the same value would be billed differently" % (v, MEASURE_DATA[v], " applied to from_pallas_bigint(..)" if v == "BigInt" else "", sorted(x for x in called if x)), sample={"measure": MEASURE_DATA[v]})
    for v in MEASURE_DATA:
        if v not in seen:
            rep.bad("R05-MEASURE", "data_to_ex_mem_inner#%s#missing" % v, sh.loc(V, m), "no arm for PlutusData::%s" % v)


# ---------------------------------------------------------------------------------------------------------
# R05-FAMILY: the four integer-division builtins keep their sibling costing shapes under every semantics variant
# ---------------------------------------------------------------------------------------------------------
def _cost_shape(e):
    """constructor skeleton of a costing expression, parameters ignored"""
    if e["k"] == "Call" and e["f"]["k"] == "Path":
        if last(e["f"]["p"]) == "get":
            return ""
        inner = [_cost_shape(a) for a in e["args"]]
        return last(e["f"]["p"]) + "(" + ",".join(i for i in inner if i) + ")"
    if e["k"] == "Struct":
        inner = [_cost_shape(fi["e"]) for fi in e["fields"]]
        inner = [i for i in inner if i]
        return last(e["p"]) + ("{" + ",".join(inner) + "}" if inner else "")
    if e["k"] == "Block" and len(e["stmts"]) == 1 and e["stmts"][0]["k"] == "ExprStmt":
        return _cost_shape(e["stmts"][0]["e"])
    return ""


def r_family(sh, rep):
    """Plutus costs divideInteger and modInteger with one cpu model and quotientInteger / remainderInteger with another; the
    memory model is shared by the two quotient-like and by the two remainder-like builtins. The wiring is written out four
    times per semantics variant; the copies must keep the same shape (which constructor, which nested model)."""
    fj = sh.file(CM)
    f = [fn for q, fn in all_fns(fj) if q.endswith("initialize_cost_model_with_semantics")]
    if not f:
        raise AnchorMissing("fn initialize_cost_model_with_semantics")
    sem = [v["name"] for v in find_enum(sh.file("crates/uplc/src/machine/runtime.rs"), "BuiltinSemantics")["variants"]]
    tab = {}
    for n in walk(f[0]["body"]):
        if n["k"] == "FieldInit" and n["name"] in ("divide_integer", "mod_integer", "quotient_integer", "remainder_integer") and n["e"]["k"] == "Struct":
            d = {fi["name"]: fi["e"] for fi in n["e"]["fields"]}
            for dim in ("mem", "cpu"):
                e = d.get(dim)
                if e is None:
                    continue
                if e["k"] == "Match":
                    for a in e["arms"]:
                        for alt in pat_alts(a["pat"]):
                            h = pat_head(alt)
                            for s_ in (sem if h is None else [last(h)]):
                                tab.setdefault((n["name"], dim, s_), _cost_shape(a["body"]))
                else:
                    for s_ in sem:
                        tab[(n["name"], dim, s_)] = _cost_shape(e)
    pairs = [("cpu", "divide_integer", "mod_integer"), ("cpu", "quotient_integer", "remainder_integer"), ("mem", "divide_integer", "quotient_integer"), ("mem", "mod_integer", "remainder_integer")]
    for dim, a, b in pairs:
        for s_ in sem:
            sa, sb = tab.get((a, dim, s_)), tab.get((b, dim, s_))
            if sa is None or sb is None:
                rep.bad("R05-FAMILY", "%s/%s#%s#%s#missing" % (a, b, dim, s_), CM, "no %s costing found for %s or %s under semantics %s" % (dim, a, b, s_))
                continue
            rep.check(sa == sb, "R05-FAMILY", "%s=%s#%s#%s" % (a, b, dim, s_), CM, "under semantics %s the %s costing of %s has shape %s but its sibling %s has %s: the ledger uses one model for both, so one of the two is billed by the wrong function for some argument sizes" % (s_, dim, a, sa, b, sb), sample={"shape": sa})


def r_costversion(sh, rep):
    """V1, V2 and V3 scripts are priced by different parameter vectors *and* different costing-function shapes (division is
    linear before V3 and quadratic from V3 on). An entry point that receives the script's language and builds its machine
    with a fixed cost model reports another version's units."""
    AST = "crates/uplc/src/ast.rs"
    n = 0
    for q, f in all_fns(sh.file(AST)):
        if "body" not in f:
            continue
        vers = [i["pat"]["name"] for i in f["sig"]["inputs"] if isinstance(i.get("pat"), dict) and i["pat"].get("k") == "Ident" and isinstance(i.get("ty"), str) and "Language" in i["ty"]]
        mk = [c for c in walk(f["body"]) if c.get("k") == "Call" and (call_name(c) or "").startswith("Machine::new")]
        if not vers or not mk:
            continue
        n += 1
        rep.touched(AST, q)
        v = vers[0]
        c = mk[0]
        cost = c["args"][2] if (call_name(c) or "").endswith("with_protocol") and len(c["args"]) > 2 else (c["args"][1] if len(c["args"]) > 1 else None)
        src = sh.src(AST, cost) if cost is not None else ""
        dep = re.search(r"(?<![\w.])%s\b" % re.escape(v), src) is not None
        if not dep and cost is not None and cost.get("k") == "Path":
            for st in walk(f["body"]):
                if st.get("k") == "Local" and st["pat"].get("k") == "Ident" and st["pat"]["name"] == cost["p"] and st.get("init") is not None:
                    dep = re.search(r"(?<![\w.])%s\b" % re.escape(v), sh.src(AST, st["init"])) is not None
        rep.check(dep, "R05-COSTVERSION", "%s#cost-model-of-the-given-version" % q.split("::")[-1], sh.loc(AST, c), "%s is given the script's language (`%s`) and builds its machine with `%s`, which does not depend on it: a V1 / V2 script is charged with another version's parameters and costing functions (divideInteger 2^200 3: 221324 cpu instead of 309053)" % (q, v, src[:60]), sample={"cost_model": src[:80]})
    if n < 2:
        raise AnchorMissing("evaluation entry points taking a Language and building a machine (found %d, 3 on the pinned tree)" % n)


# ---------------------------------------------------------------------------------------------------------
# R05-WORDS: the two rounding functions of the size measures, evaluated on a handful of points
# ---------------------------------------------------------------------------------------------------------
class _NoEval(Exception):
    pass


def _iev(sh, rel, e, env, fns, depth=0):
    """integer / boolean value of a pure arithmetic expression; a byte slice is modelled by its length"""
    k = e.get("k")
    if k == "Lit" and e.get("lk") == "int":
        return int(str(e["v"]).replace("_", ""))
    if k == "Lit" and e.get("lk") == "bool":
        return e["v"] in (True, "true")
    if k in ("Paren", "Cast", "Reference", "Try"):
        return _iev(sh, rel, e["e"], env, fns, depth)
    if k == "Unary" and e["op"] in ("*", "&"):
        return _iev(sh, rel, e["e"], env, fns, depth)
    if k == "Unary" and e["op"] == "!":
        return not _iev(sh, rel, e["e"], env, fns, depth)
    if k == "Unary" and e["op"] == "-":
        return -_iev(sh, rel, e["e"], env, fns, depth)
    if k == "Path":
        if e["p"] in env:
            return env[e["p"]]
        raise _NoEval("name " + e["p"])
    if k == "Binary":
        l, r = _iev(sh, rel, e["l"], env, fns, depth), _iev(sh, rel, e["r"], env, fns, depth)
        op = e["op"]
        if op == "/":
            q = abs(l) // abs(r)
            return q if (l >= 0) == (r >= 0) else -q  # Rust integer division truncates
        return {"+": lambda: l + r, "-": lambda: l - r, "*": lambda: l * r, "==": lambda: l == r, "!=": lambda: l != r, "<": lambda: l < r, ">": lambda: l > r, "<=": lambda: l <= r, ">=": lambda: l >= r, "&&": lambda: l and r, "||": lambda: l or r, "%": lambda: abs(l) % abs(r) * (1 if l >= 0 else -1)}[op]()
    if k == "MethodCall" and not e["args"] and e["m"] in ("len", "is_empty", "clone", "into", "unwrap", "try_into", "abs"):
        v = _iev(sh, rel, e["recv"], env, fns, depth)
        return (v == 0) if e["m"] == "is_empty" else abs(v) if e["m"] == "abs" else v
    if k == "MethodCall" and e["m"] in ("max", "min") and len(e["args"]) == 1:
        a, b = _iev(sh, rel, e["recv"], env, fns, depth), _iev(sh, rel, e["args"][0], env, fns, depth)
        return max(a, b) if e["m"] == "max" else min(a, b)
    if k == "If" and e.get("else") is not None:
        return _iev(sh, rel, e["then"] if _iev(sh, rel, e["cond"], env, fns, depth) else e["else"], env, fns, depth)
    if k == "Block":
        env = dict(env)
        for st in e["stmts"]:
            p_ = st.get("pat") if st["k"] == "Local" else None
            while isinstance(p_, dict) and p_.get("k") != "Ident" and isinstance(p_.get("pat"), dict):
                p_ = p_["pat"]
            if st["k"] == "Local" and isinstance(p_, dict) and p_.get("k") == "Ident" and st.get("init") is not None:
                env[p_["name"]] = _iev(sh, rel, st["init"], env, fns, depth)
            elif st["k"] == "ExprStmt" and not st.get("semi"):
                return _iev(sh, rel, st["e"], env, fns, depth)
            elif st["k"] == "ExprStmt" and st["e"].get("k") == "Return":
                return _iev(sh, rel, st["e"]["e"], env, fns, depth)
            else:
                raise _NoEval("statement " + st["k"])
        raise _NoEval("block without value")
    if k == "Call":
        nm = last(call_name(e) or "")
        if nm in ("Ok", "Some", "from") and len(e["args"]) == 1:
            return _iev(sh, rel, e["args"][0], env, fns, depth)
        g = fns.get(nm)
        if g is not None and depth < 4:
            params = [i["pat"]["name"] for i in g["sig"]["inputs"] if isinstance(i.get("pat"), dict) and i["pat"].get("k") == "Ident"]
            if len(params) == len(e["args"]):
                return _iev(sh, rel, g["body"], dict(zip(params, [_iev(sh, rel, a, env, fns, depth) for a in e["args"]])), fns, depth + 1)
        raise _NoEval("call " + nm)
    raise _NoEval("expression " + str(k))


def r_words(sh, rep):
    VF = "crates/uplc/src/machine/value.rs"
    fj = sh.file(VF)
    fns = dict((q.split("::")[-1], f) for q, f in all_fns(fj) if "body" in f)
    rep.touched(VF, "Value::byte_string_to_ex_mem")
    rep.touched(VF, "Value::cost_as_size")
    bs = fns.get("byte_string_to_ex_mem")
    cs = fns.get("cost_as_size")
    if bs is None or cs is None:
        raise AnchorMissing("Value::byte_string_to_ex_mem / Value::cost_as_size")
    bparam = [i["pat"]["name"] for i in bs["sig"]["inputs"] if isinstance(i.get("pat"), dict) and i["pat"].get("k") == "Ident"][0]
    # cost_as_size: the part after the range checks — from the statement that brings the size into a machine integer
    stmts = cs["body"]["stmts"]
    def pname(p):
        while isinstance(p, dict) and p.get("k") != "Ident" and isinstance(p.get("pat"), dict):
            p = p["pat"]
        return p.get("name") if isinstance(p, dict) and p.get("k") == "Ident" else None

    start = next((i for i, st in enumerate(stmts) if st["k"] == "Local" and st.get("init") is not None and pname(st["pat"]) and "try_from(size)" in sh.nsrc(VF, st["init"])), None)
    if start is None:
        raise AnchorMissing("the conversion of the size argument in cost_as_size")
    var = pname(stmts[start]["pat"])
    tail = {"k": "Block", "stmts": stmts[start + 1:]}
    for n, want_bytes, want_lit in ((0, 1, 0), (1, 1, 1), (8, 1, 1), (9, 2, 2), (16, 2, 2), (17, 3, 3)):
        for what, want, run in (("byte_string_to_ex_mem", want_bytes, lambda: _iev(sh, VF, bs["body"], {bparam: n}, fns)), ("cost_as_size", want_lit, lambda: _iev(sh, VF, tail, {var: n}, fns))):
            try:
                got, why = run(), ""
            except (_NoEval, KeyError, ZeroDivisionError) as e:
                got, why = None, " (not evaluable: %s)" % e
            rep.check(got == want, "R05-WORDS", "%s#%d" % (what, n), sh.loc(VF, fns[what]), "%s(%d) evaluates to %s%s; the measure is %d words — %s" % (what, n, got, why, want, "a size *argument* of 0 costs 0 words, only a byte string weighs at least one" if what == "cost_as_size" else "a byte string weighs max(1, ceil(n / 8)) words"), sample={"n": n, "words": got})
