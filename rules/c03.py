"""C03 — the evaluator implements UPLC's operational semantics.

Decided statically: transition tables are total (one arm per Term / Context /
Value constructor), frames pushed for a constructor are the ones consumed for
it, the apply frames pass (function, argument) in that order, result read-back
visits every constructor with sub-terms, arity / force tables agree with the
call arms, the cost arms and the Aiken signatures, and case-on-constant is
gated by the semantics variant with a consistent tag table.
Not decided: that transitions compute the specified value.
"""
import re
from .lib import *
from .btab import BuiltinTables, RT
from . import builtin_rules as br

EXPLANATION = (
    "Totality and pairing of the CEK machine's transition tables read from Machine::compute / return_compute / force_evaluate / apply_evaluate "
    "(family S), traversal completeness of discharge::value_as_term / with_env (family T: a catch-all may not swallow a constructor that has sub-terms), "
    "four-way agreement of arity / force_count with DefaultFunction::call, BuiltinCosts::to_ex_budget and the Aiken signatures for all 91 builtins, "
    "and the 7-row case-on-constant table. Each row is a rule instance; a swallowed constructor or a drifting row is reported by name."
)
LEVEL_NOTE = "structure of the transition relation only; environment indexing and value computation are not decided"

M = "crates/uplc/src/machine.rs"
D = "crates/uplc/src/machine/discharge.rs"
V = "crates/uplc/src/machine/value.rs"
A = "crates/uplc/src/ast.rs"

# spec: which frame Machine::compute pushes for a constructor, and what return_compute does with it (CEK machine of the Plutus Core spec)
FRAME_FOR = {"Apply": "FrameAwaitFunTerm", "Force": "FrameForce", "Constr": "FrameConstr", "Case": "FrameCases"}
# spec: case on a built-in constant (Plutus Core spec 1.1.0, semantics variant E): constant pattern -> (tag, #fields, max branches)
CASE_CONST = {
    "Constant::Unit": (0, 0, 1),
    "Constant::Bool(false)": (0, 0, 2),
    "Constant::Bool(true)": (1, 0, 2),
    "Constant::ProtoList(_,items)ifitems.is_empty()": (1, 0, 2),
    "Constant::ProtoList(item_type,items)": (0, 2, 2),
    "Constant::ProtoPair(_,_,first,second)": (0, 2, 1),
}


def run(ctx, rep):
    sh = ctx.shape
    rep.rule("R03-FRAMES", "compute / return_compute / force_evaluate / apply_evaluate are total; frames pair up; apply frames keep (function, argument) order", floor=25)
    rep.rule("R03-DISCHARGE", "value_as_term has an arm per Value constructor; with_env visits every Term constructor that has sub-terms", floor=15)
    rep.rule("R03-ARITY", "arity = call-arm arguments = cost-arm size arguments = Aiken arity; force_count = Aiken type variables (91 builtins)", floor=91)
    rep.rule("R03-CASECONST", "case on a constant is gated by semantics E and its tag / field / branch-count table matches the specification", floor=7)
    rep.rule("R03-TYPEOF", "the type of a constant (Type::from(&Constant), what mkCons and the type errors compare) names the constant's own kind, and carries the type components of lists and pairs in their own positions", floor=11)
    rep.guarded("R03-TYPEOF", lambda: r_typeof(sh, rep))
    rep.guarded("R03-FRAMES", lambda: r_frames(sh, rep))
    rep.guarded("R03-DISCHARGE", lambda: r_discharge(sh, rep))

    def ar():
        t = BuiltinTables(sh)
        rep.touched(RT, "DefaultFunction::arity")
        rep.touched(RT, "DefaultFunction::force_count")
        rep.touched(RT, "DefaultFunction::call")
        br.rule_arity(t, rep, "R03-ARITY")
        one_arm_per_variant(rep, "R03-ARITY", "DefaultFunction::call", sh, RT, t.call_match)
        # the three tables are total (no catch-all)
        for name in ("arity", "force_count", "arg_is_unit"):
            f = find_method(sh.file(RT), "DefaultFunction", name)
            m = next(matches_in(f["body"]))
            ca = [a for a in m["arms"] if is_catch_all(a["pat"])]
            rep.check(not ca, "R03-ARITY", "%s#total" % name, sh.loc(RT, f), "DefaultFunction::%s has a catch-all arm: a new builtin would silently inherit a default" % name, nontrivial=False)

    rep.guarded("R03-ARITY", ar)
    rep.guarded("R03-CASECONST", lambda: r_caseconst(sh, rep))
    rep.rule("R03-DEPTH", "read-back (with_env) passes the binder depth to every recursive call: unchanged, +1 under Lambda; value_as_term enters at its own binder count", floor=10)
    rep.rule("R03-PUSH", "BuiltinRuntime::push appends the argument and cannot fail", floor=1)
    rep.guarded("R03-DEPTH", lambda: r_depth(sh, rep))
    rep.guarded("R03-PUSH", lambda: r_push(sh, rep))


def ctor_of(e):
    """constructor path of a value expression `Ctx::X(..)` / `Ctx::X {..}` / `Ctx::X`"""
    if e["k"] == "Call" and e["f"]["k"] == "Path":
        return e["f"]["p"]
    if e["k"] in ("Struct", "Path"):
        return e["p"]
    return None


def r_frames(sh, rep):
    fj = sh.file(M)
    terms = [v["name"] for v in find_enum(sh.file(A), "Term")["variants"]]
    ctxs = [v["name"] for v in find_enum(fj, "Context")["variants"]]
    vals = [v["name"] for v in find_enum(sh.file(V), "Value")["variants"]]
    comp = find_method(fj, "Machine", "compute")
    rc = find_method(fj, "Machine", "return_compute")
    rep.touched(M, "Machine::compute")
    rep.touched(M, "Machine::return_compute")
    cm = next(matches_in(comp["body"], lambda e: e["k"] == "Path" and e["p"] == "term"))
    one_arm_per_variant(rep, "R03-FRAMES", "compute", sh, M, cm)
    crow = {}
    for v, arm, alt in arm_table(cm):
        if v is None:
            rep.bad("R03-FRAMES", "compute#catch-all", sh.loc(M, arm), "Machine::compute has a catch-all arm")
        else:
            crow[v] = arm
    for v in terms:
        if v not in crow:
            rep.bad("R03-FRAMES", "compute#%s#no-arm" % v, M, "Term::%s has no explicit arm in compute" % v)
            continue
        arm = crow[v]
        pushed = sorted({last(ctor_of(n)) for n in walk(arm["body"]) if n["k"] in ("Call", "Struct", "Path") and ctor_of(n) and ctor_of(n).startswith("Context::")})
        want = FRAME_FOR.get(v)
        if want:
            rep.check(pushed == [want], "R03-FRAMES", "compute#%s#frame" % v, sh.loc(M, arm), "compute(Term::%s) pushes %s; the machine must push exactly %s" % (v, pushed, want), sample={"constructor": v, "pushes": pushed})
        else:
            rep.check(not pushed, "R03-FRAMES", "compute#%s#frame" % v, sh.loc(M, arm), "compute(Term::%s) pushes %s but this constructor needs no frame" % (v, pushed), sample={"constructor": v, "pushes": pushed})
    rm = next(matches_in(rc["body"], lambda e: e["k"] == "Path" and e["p"] == "context"))
    one_arm_per_variant(rep, "R03-FRAMES", "return_compute", sh, M, rm)
    rrow = {}
    for v, arm, alt in arm_table(rm):
        if v is None:
            rep.bad("R03-FRAMES", "return_compute#catch-all", sh.loc(M, arm), "return_compute has a catch-all arm: some frame is dropped silently")
        else:
            rrow[v] = (arm, alt)
    for c in ctxs:
        rep.check(c in rrow, "R03-FRAMES", "return_compute#%s" % c, sh.loc(M, rrow[c][0]) if c in rrow else M, "Context::%s has no explicit arm in return_compute" % c, nontrivial=False)
    # FrameConstr rebuilds a Value::Constr; FrameCases selects branches.get(tag)
    if "FrameConstr" in rrow:
        arm = rrow["FrameConstr"][0]
        built = {last(ctor_of(n)) for n in walk(arm["body"]) if n["k"] in ("Call", "Struct") and ctor_of(n) and ctor_of(n).startswith("Value::")}
        repush = {last(ctor_of(n)) for n in walk(arm["body"]) if n["k"] in ("Call", "Struct") and ctor_of(n) and ctor_of(n).startswith("Context::")}
        rep.check(built == {"Constr"} and repush == {"FrameConstr"}, "R03-FRAMES", "return_compute#FrameConstr#rebuild", sh.loc(M, arm), "the FrameConstr arm must either continue with FrameConstr or return Value::Constr (builds %s, pushes %s)" % (sorted(built), sorted(repush)))
        # fields are evaluated left to right: compute reverses then pops; return pops from the same vector and pushes results in order
        src_c = sh.nsrc(M, crow["Constr"]["body"]) if "Constr" in crow else ""
        src_r = sh.nsrc(M, arm["body"])
        rep.check("fields.reverse();" in src_c and "fields.pop()" in src_c and "fields.pop()" in src_r and "resolved_fields.push(value);" in src_r, "R03-FRAMES", "constr#left-to-right", sh.loc(M, arm), "constructor fields must be evaluated left to right (reverse once, pop, push results in order)")
    for frame, order, why in (("FrameAwaitArg", ("bound0", "value"), "the frame holds the function value: apply_evaluate(ctx, function=held, argument=returned value)"), ("FrameAwaitFunValue", ("value", "bound0"), "the frame holds the argument: apply_evaluate(ctx, function=returned value, argument=held)")):
        if frame not in rrow:
            continue
        arm, alt = rrow[frame]
        held = alt["elems"][0]["name"] if alt["k"] == "PTupleStruct" and alt["elems"][0]["k"] == "Ident" else None
        call = [c for c in calls_in(arm["body"]) if call_name(c) == "apply_evaluate"]
        if len(call) != 1 or held is None:
            rep.bad("R03-FRAMES", "return_compute#%s#shape" % frame, sh.loc(M, arm), "expected one apply_evaluate call over the held value")
            continue
        a = [sh.nsrc(M, x) for x in call[0]["args"]]
        want = [held if o == "bound0" else "value" for o in order]
        rep.check(a[1:3] == want, "R03-FRAMES", "return_compute#%s#arg-order" % frame, sh.loc(M, arm), "apply_evaluate is called with (function=%s, argument=%s); %s" % (a[1], a[2], why), sample={"frame": frame, "function": a[1], "argument": a[2]})
    # FrameAwaitFunTerm: evaluate the argument next, remembering the function value
    if "FrameAwaitFunTerm" in rrow:
        arm, alt = rrow["FrameAwaitFunTerm"]
        names = [e["name"] for e in alt["elems"] if e["k"] == "Ident"]
        pushed = [n for n in walk(arm["body"]) if n["k"] == "Call" and ctor_of(n) == "Context::FrameAwaitArg"]
        ok = len(pushed) == 1 and sh.nsrc(M, pushed[0]["args"][0]) == "value"
        comp_call = [n for n in walk(arm["body"]) if n["k"] == "Call" and ctor_of(n) == "MachineState::Compute"]
        ok = ok and len(comp_call) == 1 and len(names) == 3 and [sh.nsrc(M, x) for x in comp_call[0]["args"][1:]] == names[:2]
        rep.check(ok, "R03-FRAMES", "return_compute#FrameAwaitFunTerm", sh.loc(M, arm), "after the function is evaluated, the machine must compute the held argument term in the held environment under FrameAwaitArg(function value)")
    # the Apply arm evaluates the function first, holding the argument
    if "Apply" in crow:
        arm = crow["Apply"]
        pushed = [n for n in walk(arm["body"]) if n["k"] == "Call" and ctor_of(n) == "Context::FrameAwaitFunTerm"]
        comp_call = [n for n in walk(arm["body"]) if n["k"] == "Call" and ctor_of(n) == "MachineState::Compute"]
        ok = len(pushed) == 1 and "argument" in sh.nsrc(M, pushed[0]["args"][1]) and len(comp_call) == 1 and "function" in sh.nsrc(M, comp_call[0]["args"][2]) and "argument" not in sh.nsrc(M, comp_call[0]["args"][2])
        rep.check(ok, "R03-FRAMES", "compute#Apply#function-first", sh.loc(M, arm), "Apply must evaluate the function first while holding the argument term in FrameAwaitFunTerm")
    # force_evaluate / apply_evaluate: explicit arms for Delay|Builtin / Lambda|Builtin, everything else is an error
    for fn, good, err in (("force_evaluate", {"Delay", "Builtin"}, "NonPolymorphicInstantiation"), ("apply_evaluate", {"Lambda", "Builtin"}, "NonFunctionalApplication")):
        f = find_method(fj, "Machine", fn)
        rep.touched(M, "Machine::" + fn)
        m = next(matches_in(f["body"]))
        heads = {v for v, arm, alt in arm_table(m) if v}
        catch = [arm for v, arm, alt in arm_table(m) if v is None]
        ok = heads == good and len(catch) == 1 and any(last(p) == err for p in paths_in(catch[0]["body"])) and ctor_of(catch[0]["body"]) == "Err"
        rep.check(ok, "R03-FRAMES", fn + "#other-values-fail", sh.loc(M, f), "%s must handle exactly %s and fail with %s on every other value (handles %s)" % (fn, sorted(good), err, sorted(heads)), sample={"handles": sorted(heads)})
    # builtin force discipline: force only when needs_force; apply only when is_arrow && !needs_force
    fe = sh.nsrc(M, find_method(fj, "Machine", "force_evaluate")["body"])
    ae = sh.nsrc(M, find_method(fj, "Machine", "apply_evaluate")["body"])
    rep.check("ifruntime.needs_force(){runtime.consume_force();" in fe and "}else{" in fe and "BuiltinTermArgumentExpected" in fe, "R03-FRAMES", "force_evaluate#builtin-discipline", M, "forcing a builtin must consume a force only when one is still needed and fail otherwise")
    rep.check("ifruntime.is_arrow()&&!runtime.needs_force(){" in ae and "UnexpectedBuiltinTermArgument" in ae, "R03-FRAMES", "apply_evaluate#builtin-discipline", M, "applying a builtin must require that all forces were given and an argument is still expected")
    for src, nm in ((fe, "force_evaluate"), (ae, "apply_evaluate")):
        rep.check("ifruntime.is_ready(){self.eval_builtin_app(runtime)?}else{Value::Builtin{fun,runtime}}" in src, "R03-FRAMES", nm + "#saturation", M, "a builtin runs exactly when it is saturated (is_ready), otherwise the partial application is returned")


def r_discharge(sh, rep):
    fd = sh.file(D)
    val = find_enum(sh.file(V), "Value")
    term = find_enum(sh.file(A), "Term")
    vt = find_fn(fd, "value_as_term")
    m = next(matches_in(vt["body"], lambda e: e["k"] == "Path" and e["p"] == "value"), None)
    if m is None:
        # the entry point may delegate to a worker in the same file: follow one call
        for c in calls_in(vt["body"]):
            try:
                cand = find_fn(fd, last(call_name(c) or ""))
            except AnchorMissing:
                continue
            m = next(matches_in(cand["body"], lambda e: e["k"] == "Path" and e["p"] == "value"), None)
            if m is not None:
                vt = cand
                break
    if m is None:
        raise AnchorMissing("the match on the value in value_as_term (or the worker it calls)")
    # read-back is a function of (binder depth, environment, term): state threaded through it (a memo table, a counter)
    # outlives the environment it was computed in — every captured value brings its own environment
    stateful = []
    for q, fn_ in all_fns(fd):
        for i in fn_.get("sig", {}).get("inputs", []):
            ty = i.get("ty")
            tsrc = re.sub(r"\s+", "", ty) if isinstance(ty, str) else (sh.nsrc(D, ty) if isinstance(ty, dict) and "s" in ty else "")
            if tsrc.startswith("&mut") or re.match(r"^&'\w+mut", tsrc):
                stateful.append((q, tsrc))
    rep.check(not stateful, "R03-DISCHARGE", "read-back#no-state-across-environments", sh.loc(D, vt), "read-back threads mutable state (%s) through value_as_term / with_env: whatever it remembers about one closure's environment (a slot already read back, say) is consulted again inside another closure's environment, where the same slot holds another value" % ", ".join("%s: %s" % x for x in stateful[:3]), sample={"functions": len(list(all_fns(fd)))})
    heads = {v for v, arm, alt in arm_table(m)}
    for v in val["variants"]:
        rep.check(v["name"] in heads, "R03-DISCHARGE", "value_as_term#%s" % v["name"], sh.loc(D, vt), "Value::%s has no explicit arm in value_as_term" % v["name"], nontrivial=False)
    rep.check(None not in heads, "R03-DISCHARGE", "value_as_term#no-catch-all", sh.loc(D, vt), "value_as_term has a catch-all arm")
    # values with an environment go through with_env; Constr fields and builtin args are read back recursively
    rows = {v: arm for v, arm, alt in arm_table(m)}
    for v, need in (("Delay", "with_env"), ("Lambda", "with_env"), ("Constr", "value_as_term"), ("Builtin", "value_as_term")):
        if v in rows:
            names = {call_name(c) for c in calls_in(rows[v]["body"])} | set(paths_in(rows[v]["body"]))
            rep.check(need in names, "R03-DISCHARGE", "value_as_term#%s#%s" % (v, need), sh.loc(D, rows[v]), "the %s arm must read back its contents through %s" % (v, need))
    we = find_fn(fd, "with_env")
    traversal_check(rep, "R03-DISCHARGE", sh, D, "with_env", we, term, ["Term"], require_recursion={"with_env"})
    # under a binder the depth grows by one; nowhere else
    src = sh.nsrc(D, we["body"])
    rep.check(src.count("lam_cnt+1") == 1 and "Term::Lambda{parameter_name,body,}=>{letbody=with_env(lam_cnt+1" in src, "R03-DISCHARGE", "with_env#binder-depth", sh.loc(D, we), "with_env must increase the binder depth exactly under Lambda")


def _variants_of_matches(mac):
    """variant names accepted by a `matches!(x, A | B)` node"""
    if mac.get("k") != "Macro" or last(mac.get("path", "")) != "matches" or "pat" not in mac or "guard" in mac:
        return None
    out = set()
    for alt in pat_alts(mac["pat"]):
        h = pat_head(alt)
        if not h:
            return None
        out.add(last(h))
    return out


def _admitted_variants(sh, cond):
    """semantics variants for which `cond` (the refusal condition) is false, i.e. case-on-constant proceeds.
    Recognised: `!matches!(self.semantics, P)` and `!self.semantics.<helper>()` with `fn helper(&self) -> bool { matches!(self, P) }`"""
    if cond["k"] != "Unary" or cond["op"] != "!":
        return None
    e = cond["e"]
    if e["k"] == "Macro":
        return _variants_of_matches(e)
    if e["k"] == "MethodCall" and not e["args"] and "semantics" in sh.nsrc(M, e["recv"]):
        for rel in ("crates/uplc/src/machine/runtime.rs", M):
            try:
                h = find_method(sh.file(rel), "BuiltinSemantics", e["m"])
            except AnchorMissing:
                continue
            st = h["body"].get("stmts", [])
            if len(st) == 1 and st[0]["k"] == "ExprStmt":
                return _variants_of_matches(st[0]["e"])
    return None


def r_caseconst(sh, rep):
    fj = sh.file(M)
    rc = find_method(fj, "Machine", "return_compute")
    rm = next(matches_in(rc["body"], lambda e: e["k"] == "Path" and e["p"] == "context"))
    fc = [arm for v, arm, alt in arm_table(rm) if v == "FrameCases"]
    if not fc:
        raise AnchorMissing("FrameCases arm")
    vm = next(matches_in(fc[0]["body"], lambda e: e["k"] == "Path" and e["p"] == "value"))
    con = [arm for v, arm, alt in arm_table(vm) if v == "Con"]
    if not con:
        raise AnchorMissing("FrameCases / Value::Con arm")
    arm = con[0]
    body = arm["body"]
    first = body["stmts"][0]["e"] if body["k"] == "Block" and body["stmts"] and body["stmts"][0]["k"] == "ExprStmt" else None
    admitted = None
    if first is not None and first["k"] == "If" and any(n["k"] == "Return" for n in walk(first["then"])) and "NonConstrScrutinized" in sh.nsrc(M, first["then"]):
        admitted = _admitted_variants(sh, first["cond"])
    gate = admitted == {"E"}
    rep.check(gate, "R03-CASECONST", "gate#semantics-E-first", sh.loc(M, arm), "case on a constant must be refused (NonConstrScrutinized) unless the semantics variant is E, before anything else in the arm; the gate admits %s — under the other variants (PlutusV3 before protocol 11, V1/V2) the ledger fails such a script" % (sorted(admitted) if admitted is not None else "an unrecognised condition"), sample={"admitted": sorted(admitted) if admitted else None})
    tm = [m for m in matches_in(body) if "constant" in sh.nsrc(M, m["e"])]
    if not tm:
        raise AnchorMissing("constant table match")
    seen = set()
    for a in tm[0]["arms"]:
        pat = sh.nsrc(M, a["pat"]) + ("if" + sh.nsrc(M, a["guard"]) if "guard" in a else "")
        b = a["body"]
        if pat in CASE_CONST:
            seen.add(pat)
            want = CASE_CONST[pat]
            tup = b if b["k"] == "Tuple" else None
            if tup is None and b["k"] == "Block":
                lastst = b["stmts"][-1]
                tup = lastst["e"] if lastst["k"] == "ExprStmt" and lastst["e"]["k"] == "Tuple" else None
            if tup is None or len(tup["es"]) != 3:
                rep.bad("R03-CASECONST", pat + "#shape", sh.loc(M, a), "expected a (tag, fields, max_branches) tuple")
                continue
            tag = int(tup["es"][0]["v"]) if tup["es"][0]["k"] == "Lit" else None
            fields = tup["es"][1]
            nf = len(fields.get("args", [])) if fields["k"] == "Macro" and fields["path"] == "vec" else None
            mb = int(tup["es"][2]["v"]) if tup["es"][2]["k"] == "Lit" else None
            rep.check((tag, nf, mb) == want, "R03-CASECONST", pat, sh.loc(M, a), "case on %s selects branch %s with %s field(s), at most %s branches; the specification says branch %d, %d field(s), at most %d" % (pat, tag, nf, mb, want[0], want[1], want[2]), sample={"pattern": pat, "tag": tag, "fields": nf, "max_branches": mb})
        elif pat.startswith("Constant::Integer"):
            seen.add("int")
            s = sh.nsrc(M, b)
            rep.check("integer.to_usize()" in s and "MissingCaseBranch" in s and "usize::MAX" in s, "R03-CASECONST", "Constant::Integer", sh.loc(M, a), "an integer scrutinee selects branch n (fallible to_usize; a negative / huge n is a missing branch, not a crash)")
        elif pat == "_":
            rep.check("NonConstrScrutinized" in sh.nsrc(M, b), "R03-CASECONST", "other-constants-fail", sh.loc(M, a), "other constants cannot be scrutinised")
        else:
            rep.bad("R03-CASECONST", pat + "#unreviewed-row", sh.loc(M, a), "constant pattern %s is not in the specification table for case-on-constant" % pat)
    for k in CASE_CONST:
        rep.check(k in seen, "R03-CASECONST", k + "#present", sh.loc(M, arm), "the row for %s is missing" % k, nontrivial=False)
    s = sh.nsrc(M, body)
    rep.check("ifbranches.len()>max_branches{returnErr(Error::MissingCaseBranch" in s, "R03-CASECONST", "max-branches-enforced", sh.loc(M, arm), "supplying more branches than the constant's type has constructors must fail")
    rep.check("matchbranches.get(tag){Some(t)=>" in s and "None=>Err(Error::MissingCaseBranch" in s, "R03-CASECONST", "branch-selection-checked", sh.loc(M, arm), "branch selection must be a checked lookup (branches.get(tag))")


# ---------------------------------------------------------------------------------------------------------
# R03-DEPTH: read-back threads the binder depth through every recursive call
# ---------------------------------------------------------------------------------------------------------
DIS = "crates/uplc/src/machine/discharge.rs"


def r_depth(sh, rep):
    """with_env(lam_cnt, env, term) substitutes captured variables in a closure body; `lam_cnt` counts the binders crossed
    so far. Every recursive call must pass the depth on — unchanged, or +1 exactly in the Lambda arm. A literal (or any
    other expression) at one call site resets the depth for that sub-term only: indices inside are then resolved against
    the wrong environment slot."""
    f = find_fn(sh.file(DIS), "with_env")
    rep.touched(DIS, "discharge::with_env")
    depth = f["sig"]["inputs"][0]["pat"]["name"]
    term = find_enum(sh.file("crates/uplc/src/ast.rs"), "Term")
    m = find_enum_match(f, "Term", {v["name"] for v in term["variants"]})
    if m is None:
        raise AnchorMissing("match over Term in with_env")
    n = 0
    for v, arm, alt in arm_table(m):
        for c in calls_in(arm["body"]):
            if c["k"] == "Call" and call_name(c) == "with_env" and c["args"]:
                n += 1
                a = sh.nsrc(DIS, c["args"][0])
                want = "%s+1" % depth if v == "Lambda" else depth
                rep.check(a == want, "R03-DEPTH", "with_env#%s#depth-arg#%d" % (v, n), sh.loc(DIS, c), "the recursive call in the %s arm passes `%s` as binder depth, expected `%s`: variables under this sub-term are looked up %s binders off" % (v, a, want, "some"), sample={"arm": v, "passed": a})
    if n < 8:
        rep.bad("R03-DEPTH", "with_env#recursive-calls", sh.loc(DIS, f), "only %d recursive calls found in with_env (anchor)" % n)
    # entry calls: value_as_term starts the read-back of a closure. The depth it passes must equal the number of Lambda
    # binders it builds itself around the call (0 when it hands the whole binder term to with_env, 1 when it wraps the
    # result of with_env(.., body) in Term::Lambda): anything else shifts every captured variable of that closure.
    g = find_fn(sh.file(DIS), "value_as_term")
    rep.touched(DIS, "discharge::value_as_term")
    entries = []

    def visit(node, lambdas):
        if isinstance(node, dict):
            if node.get("k") == "Struct" and last(node.get("p", "")) == "Lambda":
                lambdas += 1
            if node.get("k") == "Call" and call_name(node) == "with_env" and node.get("args"):
                entries.append((node, lambdas))
            for v in node.values():
                visit(v, lambdas)
        elif isinstance(node, list):
            for v in node:
                visit(v, lambdas)

    visit(g["body"], 0)
    for i, (c, lambdas) in enumerate(entries):
        a = sh.nsrc(DIS, c["args"][0])
        rep.check(a == str(lambdas), "R03-DEPTH", "value_as_term#entry-depth#%d" % i, sh.loc(DIS, c), "value_as_term starts a read-back with binder depth `%s` under %d Lambda binder(s) of its own: every captured variable of the closure is resolved one environment slot off" % (a, lambdas), sample={"passed": a, "own_binders": lambdas})
    if len(entries) < 2:
        rep.bad("R03-DEPTH", "value_as_term#entry-calls", sh.loc(DIS, g), "only %d with_env entry calls found in value_as_term (anchor: Delay and Lambda closures)" % len(entries))


# ---------------------------------------------------------------------------------------------------------
# R03-PUSH: supplying an argument to a builtin cannot fail; type errors surface when the builtin is saturated
# ---------------------------------------------------------------------------------------------------------
def r_push(sh, rep):
    """UPLC semantics: `[(builtin f) v]` with f unsaturated is a value whatever v is (ill-typed arguments are only
    detected when the builtin runs). BuiltinRuntime::push is that transition: it must append and return Ok on every path."""
    f = find_method(sh.file(RT), "BuiltinRuntime", "push")
    rep.touched(RT, "BuiltinRuntime::push")
    exits = [n for n in walk(f["body"]) if n["k"] in ("Return", "Try") or (n["k"] == "Call" and call_name(n) == "Err") or (n["k"] == "Macro" and last(n.get("path", "")) in ("panic", "unreachable", "todo"))]
    pushes = [n for n in walk(f["body"]) if n["k"] == "MethodCall" and n["m"] == "push"]
    rep.check(not exits and len(pushes) == 1, "R03-PUSH", "BuiltinRuntime::push#total", sh.loc(RT, exits[0]) if exits else sh.loc(RT, f), "BuiltinRuntime::push can fail or leave early (%s at line %s): a partial application of a builtin to an arbitrary value must itself be a value — rejecting it changes the result of programs that build such a closure and never saturate it" % (exits[0]["k"] if exits else "-", exits[0]["s"][0] if exits else "-"), sample={"statements": len(f["body"].get("stmts", []))})


def r_typeof(sh, rep):
    ims = [im for im in find_impls(sh.file(M), "Type", any_trait=True) if "From" in (im.get("trait") or "") and "Constant" in (im.get("trait") or "")]
    if not ims:
        raise AnchorMissing("impl From<&Constant> for Type")
    f = next(it for it in ims[0]["items"] if it["k"] == "Fn" and it["name"] == "from")
    rep.touched(M, "<Type as From<&Constant>>::from")
    m = next(matches_in(f["body"]), None)
    if m is None:
        raise AnchorMissing("match in Type::from(&Constant)")
    KIND = {"ProtoList": "List", "ProtoPair": "Pair"}
    for v, arm, alt in arm_table(m):
        if v is None:
            rep.bad("R03-TYPEOF", "from#catch-all", sh.loc(M, arm), "Type::from(&Constant) has a catch-all arm")
            continue
        built = [x for x in walk(arm["body"]) if x.get("k") in ("Path", "Call") and (x.get("p") or call_name(x) or "").startswith("Type::")]
        head = last((built[0].get("p") or call_name(built[0]))) if built else None
        want = KIND.get(v, v)
        ok = head == want
        detail = ""
        if ok and v in KIND:
            binds = [e.get("name") for e in alt.get("elems", []) if e.get("k") == "Ident"]
            call = next((x for x in walk(arm["body"]) if x.get("k") == "Call" and (call_name(x) or "").endswith("Type::" + want)), None)
            nty = 1 if v == "ProtoList" else 2
            if call is None or len(binds) < nty or len(call["args"]) != nty:
                ok, detail = False, "shape not recognised"
            else:
                for i in range(nty):
                    names = {y["p"] for y in walk(call["args"][i]) if y.get("k") == "Path"}
                    if binds[i] not in names or any(b in names for j, b in enumerate(binds[:nty]) if j != i):
                        ok, detail = False, "component %d of Type::%s is built from %s, not from the constant's component %d (`%s`)" % (i + 1, want, sorted(names & set(binds)), i + 1, binds[i])
        rep.check(ok, "R03-TYPEOF", "from#%s" % v, sh.loc(M, arm), "the type of a %s constant must be Type::%s with its type components in place (%s): mkCons compares this type with the list's element type, so a pair of two different types can no longer be consed — and one with the components swapped can" % (v, want, detail or "found %s" % head), sample={"constant": v, "type": head})
