"""C06 — well-typed programs cannot go wrong.

Decided statically (thin but exact): the type the checker gives each builtin
is the type the evaluator unwraps (so a well-typed builtin call cannot raise a
structural type mismatch because of table drift); the number of `force`s the
code generator and the term builder put on a builtin is the evaluator's
force_count; checker-level types and generator-level Data representations
agree per type kind (shared with C01/C12).
Not decided: soundness of inference, unification, opaque erasure,
monomorphisation — the actual theorem.
"""
import re
from .lib import *
from .btab import BuiltinTables, RT, AB
from . import builtin_rules as br
from . import cast_rules

EXPLANATION = (
    "Sibling tables between the type checker and the evaluator: for each of the 91 builtins the Aiken signature (aiken_lang::builtins::from_default_function) "
    "is compared argument by argument with the unwrappers of DefaultFunction::call, and arity / force_count with the signature's arity and number of type "
    "variables; every builder chain rooted at Term::Builtin(DefaultFunction::X) in the workspace is checked to carry exactly force_count(X) forces before its first "
    "application; every call of apply_builtin_forces passes force_count(); the type-kind -> Data representation tables of the code generator agree (R01-CAST)."
)
LEVEL_NOTE = "necessary conditions only: rules out 'goes wrong because two tables disagree', not 'goes wrong because inference is unsound'"

UB = "crates/uplc/src/builder.rs"


def run(ctx, rep):
    sh = ctx.shape
    rep.rule("R06-SIG", "the checker's builtin signature equals what the evaluator unwraps, argument by argument (91 builtins)", floor=91)
    rep.rule("R06-ARITY", "arity and force_count agree with the Aiken signature's arity and type variables (91 builtins)", floor=91)
    rep.rule("R06-FORCE", "every Term::Builtin(X) builder chain carries force_count(X) forces before its first apply; apply_builtin_forces is fed force_count()", floor=60)
    rep.rule("R06-REPR", "per type kind, to-Data and from-Data conversions of the code generator use inverse builtins of the same Data class", floor=30)
    t = None
    try:
        t = BuiltinTables(sh)
    except AnchorMissing as e:
        rep.anchor_missing("R06-SIG", e)
    if t:
        rep.touched(AB, "from_default_function")
        rep.touched(RT, "DefaultFunction::call")
        rep.guarded("R06-SIG", lambda: br.rule_sig(t, rep, "R06-SIG"))
        rep.guarded("R06-ARITY", lambda: br.rule_arity(t, rep, "R06-ARITY"))
        rep.guarded("R06-FORCE", lambda: r_force(sh, rep, t))
    rep.guarded("R06-REPR", lambda: cast_rules.rule_cast(sh, rep, "R06-REPR"))
    rep.rule("R06-ZIP", "type equality and unification compare the lengths of argument lists wherever they zip them", floor=3)
    rep.rule("R06-OPAQUE", "convert_opaque_type (opaque erasure) recurses into every component of every type constructor", floor=5)
    rep.rule("R06-CASTDIR", "the allow_cast flag of unify depends on the expected type only (casts go towards Data)", floor=3)
    rep.guarded("R06-ZIP", lambda: r_zip(sh, rep))
    rep.guarded("R06-OPAQUE", lambda: r_opaque(sh, rep))
    rep.guarded("R06-CASTDIR", lambda: r_castdir(sh, rep))
    rep.rule("R06-VARIANTKEY", "the key under which a generic function's instantiations are compiled separates every run-time representation: one distinct suffix per UplcType constructor, and association lists (unMapData) apart from plain lists (unListData)", floor=10)
    rep.guarded("R06-VARIANTKEY", lambda: r_variantkey(sh, rep))
    rep.rule("R01-HELDTYPES", "AirTree::mut_held_types exposes every type a node carries: specialisation to type arguments and opaque erasure rewrite exactly what it hands out (shared with C01)", floor=20)

    def heldtypes():
        TREE = "crates/aiken-lang/src/gen_uplc/tree.rs"
        fj = sh.file(TREE)
        traversal_check(rep, "R01-HELDTYPES", sh, TREE, "AirTree::mut_held_types", find_method(fj, "AirTree", "mut_held_types"), find_enum(fj, "AirTree"), ["Type"])

    rep.guarded("R01-HELDTYPES", heldtypes)
    rep.rule("R06-SCOPE", "type-variable and value scopes: close_scope assigns back exactly what open_new_scope saved (no merging)", floor=3)
    rep.guarded("R06-SCOPE", lambda: r_scope(sh, rep))
    rep.rule("R06-UPCAST", "every way the code generator lowers a call wraps a non-Data argument passed to a Data parameter in cast_to_data (the checker accepts that implicit upcast everywhere)", floor=4)
    rep.guarded("R06-UPCAST", lambda: r_upcast(sh, rep))


def builtin_chains(fn_body):
    """outermost method chains rooted at Term::Builtin(DefaultFunction::X): yields (X, [method names], node)"""
    inner = set()
    for n in walk(fn_body):
        if n["k"] != "MethodCall" or id(n) in inner:
            continue
        chain = []
        cur = n
        while cur["k"] == "MethodCall":
            chain.append(cur)
            inner.add(id(cur))
            cur = cur["recv"]
        root = cur
        if root["k"] == "Call" and call_name(root) == "Term::Builtin" and root["args"] and root["args"][0]["k"] == "Path" and "DefaultFunction::" in root["args"][0]["p"]:
            yield last(root["args"][0]["p"]), [c["m"] for c in reversed(chain)], n


_CALLED = {}


def _called_term_helpers(sh):
    """names of Term::<helper>() / Self::<helper>() calls anywhere outside tests"""
    if "v" not in _CALLED:
        out = set()
        for rel2 in sh.files():
            if "/tests" in rel2 or rel2.endswith("tests.rs"):
                continue
            for _, g in all_fns(sh.file(rel2)):
                if "body" not in g:
                    continue
                for c in calls_in(g["body"]):
                    nm = call_name(c)
                    if c["k"] == "Call" and nm and nm.split("::")[0] in ("Term", "Self") and "::" in nm:
                        out.add(last(nm))
        _CALLED["v"] = out
    return _CALLED["v"]


def r_force(sh, rep, t):
    n_chain = 0
    for rel in sh.files():
        if "/tests" in rel or rel.endswith("tests.rs") or not (rel.startswith("crates/uplc/src") or rel.startswith("crates/aiken-lang/src") or rel.startswith("crates/aiken-project/src")):
            continue
        fj = sh.file(rel)
        for q, f in all_fns(fj):
            if "body" not in f:
                continue
            for x, ms, node in builtin_chains(f["body"]):
                if x not in t.force:
                    continue
                lead = 0
                for mname in ms:
                    if mname == "force":
                        lead += 1
                    else:
                        break
                rest = ms[lead:]
                if not rest or rest[0] != "apply":
                    # chain does not apply the builtin (e.g. .force().lambda(..)) — only the leading forces matter
                    pass
                n_chain += 1
                applies = 0
                for mname in rest:
                    if mname == "apply":
                        applies += 1
                    else:
                        break
                want = t.force[x][0]
                key = "%s::%s#%s@%d" % (rel.split("/")[-1], q, x, n_chain)
                key = "%s::%s#%s" % (rel.split("/")[-1], q, x)
                problems = []
                if lead != want:
                    problems.append("%d force(s) before the first application, force_count(%s) is %d" % (lead, x, want))
                if applies > t.arity[x][0]:
                    problems.append("%d applications, arity is %d" % (applies, t.arity[x][0]))
                if problems:
                    rep.bad("R06-FORCE", key, sh.loc(rel, node), "; ".join(problems) + ": the machine would fail with a force/apply discipline error", sample={"builtin": x, "chain": ms[:8]})
                else:
                    rep.ok("R06-FORCE", key, sh.loc(rel, node), sample={"builtin": x, "forces": lead, "applies": applies})
        # bare Term::Builtin(X) returned by a zero-argument helper of the term builder must need no force
        if rel == UB:
            for q, f in all_fns(fj):
                if "body" not in f or f["sig"]["inputs"]:
                    continue
                st = f["body"]["stmts"]
                if len(st) == 1 and st[0]["k"] == "ExprStmt":
                    e = st[0]["e"]
                    if e["k"] == "Call" and call_name(e) == "Term::Builtin" and e["args"][0]["k"] == "Path":
                        x = last(e["args"][0]["p"])
                        used = f["name"] in _called_term_helpers(sh)
                        if x in t.force and not used and t.force[x][0] != 0:
                            rep.info("%s: helper Term::%s returns the bare builtin %s (needs %d force) but is not called anywhere outside tests — latent, not a violation" % (sh.loc(rel, e), f["name"], x, t.force[x][0]))
                        elif x in t.force:
                            rep.check(t.force[x][0] == 0, "R06-FORCE", "builder.rs::%s#%s#bare" % (q, x), sh.loc(rel, e), "helper returns the bare builtin %s, which needs %d force(s)" % (x, t.force[x][0]), sample={"builtin": x, "forces": 0})
    # apply_builtin_forces(term, <expr>.force_count())
    for rel in sh.files():
        if not rel.startswith("crates/aiken-lang/src") or "/tests" in rel:
            continue
        for q, f in all_fns(sh.file(rel)):
            if "body" not in f:
                continue
            for c in calls_in(f["body"]):
                nm = call_name(c)
                if nm and last(nm) == "apply_builtin_forces" and c["k"] == "Call":
                    a = c["args"][1] if len(c["args"]) > 1 else None
                    ok = a is not None and a["k"] == "MethodCall" and a["m"] == "force_count"
                    rep.check(ok, "R06-FORCE", "%s::%s#apply_builtin_forces" % (rel.split("/")[-1], q), sh.loc(rel, c), "apply_builtin_forces must be given <builtin>.force_count(), not %s" % (sh.nsrc(rel, a) if a else None))


# ---------------------------------------------------------------------------------------------------------
# Three clauses of the checker itself (answers to seeded changes; each is a necessary condition of soundness)
# ---------------------------------------------------------------------------------------------------------
TP = "crates/aiken-lang/src/tipo.rs"
ENVF = "crates/aiken-lang/src/tipo/environment.rs"


def _idents(sh, rel, e):
    out = set()
    for n in walk(e):
        if n["k"] == "Path" and "::" not in n["p"] and n["p"] not in ("self", "Some", "None", "Ok", "Err"):
            out.add(n["p"])
        if n["k"] == "Field" and isinstance(n.get("f"), str):
            out.add(n["f"])
    return out


def r_zip(sh, rep):
    """type equality / unification over argument lists: a `zip` compares only the common prefix, so each zip of two
    argument lists must sit next to an equality of their lengths"""
    n = 0
    targets = []
    for im in find_impls(sh.file(TP), "Type", trait="PartialEq"):
        for f in im["items"]:
            if f["k"] == "Fn" and f["name"] == "eq":
                targets.append((TP, "<Type as PartialEq>::eq", f))
    try:
        targets.append((ENVF, "Environment::unify", find_method(sh.file(ENVF), "Environment", "unify")))
    except AnchorMissing:
        pass
    if not targets:
        raise AnchorMissing("impl PartialEq for Type")
    for rel, q, f in targets:
        rep.touched(rel, q)
        for m in matches_in(f["body"]):
            for a in m["arms"]:
                zips = [c for c in walk(a["body"]) if c["k"] == "MethodCall" and c["m"] == "zip"]
                for z in zips:
                    n += 1
                    scope = [a["body"]] + ([a["guard"]] if "guard" in a else [])
                    lens = [b for sc in scope for b in walk(sc) if b["k"] == "Binary" and b["op"] in ("==", "!=") and all(isinstance(x, dict) and x.get("k") == "MethodCall" and x.get("m") == "len" for x in (b["l"], b["r"]))]
                    # two array literals of the same fixed length need no test
                    def arr_len(e):
                        while e["k"] == "MethodCall" and e["m"] in ("into_iter", "iter"):
                            e = e["recv"]
                        return len(e["es"]) if e["k"] == "Array" else None
                    la, lb = arr_len(z["recv"]), arr_len(z["args"][0]) if z["args"] else None
                    if la is not None and la == lb:
                        rep.ok("R06-ZIP", "%s#%s#fixed-size-zip#%d" % (q, sh.nsrc(rel, a["pat"])[:30], n), sh.loc(rel, z), why="two array literals of length %d" % la, nontrivial=False)
                        continue
                    rep.check(bool(lens), "R06-ZIP", "%s#%s#zip-with-length-test#%d" % (q, sh.nsrc(rel, a["pat"])[:30], n), sh.loc(rel, z), "%s compares two argument lists with zip() in the arm `%s` without comparing their lengths: zip stops at the shorter list, so a function (or type application) is equal to / unifies with one of another arity whenever one list is a prefix of the other — a callback of the wrong arity is accepted and fails at run time" % (q, sh.nsrc(rel, a["pat"])[:50]))
    return n


def r_opaque(sh, rep):
    """opaque erasure must reach every component of every type constructor"""
    fj = sh.file(TP)
    f = find_fn(fj, "convert_opaque_type")
    ten = find_enum(fj, "Type")
    traversal_check(rep, "R06-OPAQUE", sh, TP, "convert_opaque_type", f, ten, ["Type"], require_recursion={"convert_opaque_type"}, exceptions={"Var": "follows the link inside the RefCell"})


def r_castdir(sh, rep):
    """unify(expected, given, location, allow_cast): the implicit cast is *to* Data, inserted by the code generator on the
    given value; whether it is allowed may depend on the expected side only"""
    n = 0
    for rel in sh.files():
        if not rel.startswith("crates/aiken-lang/src/tipo/") or "/tests" in rel:
            continue
        fj = sh.file(rel)
        for q, f in all_fns(fj):
            if "body" not in f:
                continue
            for c in walk(f["body"]):
                if c["k"] == "MethodCall" and c["m"] == "unify" and len(c["args"]) == 4 and c["args"][3]["k"] != "Lit":
                    flag = c["args"][3]
                    if not any(x["k"] == "MethodCall" and x["m"] == "is_data" for x in walk(flag)):
                        continue
                    n += 1
                    exp_ids, giv_ids, flag_ids = _idents(sh, rel, c["args"][0]), _idents(sh, rel, c["args"][1]), set()
                    for x in walk(flag):
                        if x["k"] == "MethodCall" and x["m"] == "is_data":
                            flag_ids |= _idents(sh, rel, x["recv"])
                    only_given = (flag_ids & giv_ids) - exp_ids
                    rep.check(not only_given, "R06-CASTDIR", "%s#unify#%d" % (q, n), sh.loc(rel, c), "%s allows the implicit Data cast depending on `%s`, which belongs to the *given* type (%s), not the expected one: the checker then accepts a Data value where a concrete type is expected, but the code generator only inserts casts towards Data — the callee receives raw Data and fails with a structural type mismatch" % (q, sorted(only_given), sh.nsrc(rel, c["args"][1])[:60]), sample={"flag": sh.nsrc(rel, flag)[:80]})
    return n


# ---------------------------------------------------------------------------------------------------------
# R06-SCOPE: save / restore pairing of the checker's scopes
# ---------------------------------------------------------------------------------------------------------
HYD = "crates/aiken-lang/src/tipo/hydrator.rs"


def r_scope(sh, rep):
    """A type-variable name introduced by an annotation is rigid inside its scope and unknown outside. open_new_scope saves
    the name table and the rigid table; close_scope must put both back as they were. If one of them is merged instead of
    restored, a name from a closed scope stays resolvable while its rigidity is gone: a later annotation reusing the name
    denotes a variable that unifies with anything, and `fn(y: t) { y + 1 }` is accepted as polymorphic."""
    n = 0
    for rel, ty in ((HYD, "Hydrator"), ("crates/aiken-lang/src/tipo/environment.rs", "Environment")):
        fj = sh.file(rel)
        op, cl = find_method(fj, ty, "open_new_scope"), find_method(fj, ty, "close_scope")
        rep.touched(rel, ty + "::open_new_scope")
        rep.touched(rel, ty + "::close_scope")
        saved = find_struct(fj, "ScopeResetData")
        lit = [x for x in walk(op["body"]) if x.get("k") == "Struct" and last(x["p"]) == "ScopeResetData"]
        if not lit:
            raise AnchorMissing("ScopeResetData literal in %s::open_new_scope" % ty)
        locals_ = {x["pat"]["name"]: x["init"] for x in walk(op["body"]) if x.get("k") == "Local" and x["pat"].get("k") == "Ident" and x.get("init") is not None}
        # how close_scope names the saved value of field F: `<param>.F`, or the binding of F when the parameter is
        # destructured in the signature (`ScopeResetData { f, g }: ScopeResetData`) or by a `let` in the body
        dpar = [i["pat"] for i in cl["sig"]["inputs"] if isinstance(i.get("pat"), dict) and "ScopeResetData" in (i.get("ty") or "")]
        dname = dpar[0].get("name") if dpar and dpar[0].get("k") == "Ident" else None
        destructured = {}
        pats = [p_ for p_ in dpar if p_.get("k") == "PStruct"] + [n["pat"] for n in walk(cl["body"]) if n.get("k") == "Local" and n["pat"].get("k") == "PStruct" and last(n["pat"].get("p", "")) == "ScopeResetData"]
        for p_ in pats:
            for fp in p_.get("fields", []):
                sub = fp.get("pat") or {}
                destructured[fp.get("name")] = sub.get("name") or fp.get("name")
        for fld in saved["fields"]:
            init = [fi["e"] for fi in lit[0]["fields"] if fi["name"] == fld["name"]]
            src = init[0] if init else None
            if src is not None and src.get("k") == "Path" and src["p"] in locals_:
                src = locals_[src["p"]]
            origin = None
            if src is not None:
                mm = re.match(r"^self\.(\w+)\.clone\(\)$", sh.nsrc(rel, src))
                origin = mm.group(1) if mm else None
            saved_as = {"%s.%s" % (dname, fld["name"])} if dname else set()
            if fld["name"] in destructured:
                saved_as.add(destructured[fld["name"]])
            back = [a for a in walk(cl["body"]) if a.get("k") == "Assign" and sh.nsrc(rel, a["l"]) == "self.%s" % origin and sh.nsrc(rel, a["r"]) in saved_as]
            n += 1
            rep.check(origin is not None and len(back) == 1, "R06-SCOPE", "%s#%s#restored-by-assignment" % (ty, fld["name"]), sh.loc(rel, cl), "%s::open_new_scope saves `self.%s` as ScopeResetData.%s but close_scope does not assign it back (`self.%s = <saved %s>` not found): entries created inside the scope survive it" % (ty, origin, fld["name"], origin, fld["name"]), sample={"saved_from": origin})
    if n < 3:
        rep.bad("R06-SCOPE", "sites", "", "only %d saved fields found (anchor: 2 in Hydrator, 1 in Environment)" % n)


# ---------------------------------------------------------------------------------------------------------
# R06-UPCAST: sibling agreement of the call lowerings
# ---------------------------------------------------------------------------------------------------------
GENU = "crates/aiken-lang/src/gen_uplc.rs"


def r_upcast(sh, rep):
    """The checker lets any value be passed where Data is expected. The generated code represents Int, ByteArray, lists …
    differently from Data, so each lowering of a call must wrap such an argument in cast_to_data. CodeGenerator::build has
    several Call arms (constructor, module function, builtin, any other callee); they are siblings: each place that builds
    the argument list from `arg.value` must contain the is_data()-guarded cast_to_data."""
    f = [fn for q, fn in all_fns(sh.file(GENU)) if q.endswith("CodeGenerator::build")]
    if not f:
        raise AnchorMissing("CodeGenerator::build")
    rep.touched(GENU, "CodeGenerator::build")
    en = find_enum(sh.file("crates/aiken-lang/src/expr.rs"), "TypedExpr")
    m = find_enum_match(f[0], "TypedExpr", {v["name"] for v in en["variants"]}, min_hits=3)
    arms = [arm for v, arm, alt in arm_table(m) if v == "Call"] if m else []
    if not arms:
        raise AnchorMissing("TypedExpr::Call arm of CodeGenerator::build")
    sites = []
    for c in walk(arms[0]["body"]):
        if c.get("k") == "Closure":
            src = sh.nsrc(GENU, c["body"])
            if re.search(r"self\.build\(&\w+\.value", src) and not any(x is not c and x.get("k") == "Closure" and re.search(r"self\.build\(&\w+\.value", sh.nsrc(GENU, x["body"])) for x in walk(c["body"])):
                sites.append((c, src))
    for i, (c, src) in enumerate(sites):
        rep.check("cast_to_data(" in src and "is_data()" in src, "R06-UPCAST", "build#Call#argument-list#%d" % i, sh.loc(GENU, c), "this lowering of a call builds its arguments without the is_data()-guarded AirTree::cast_to_data its %d sibling(s) have: a function value with a Data parameter then receives a raw Int / ByteArray / list and the builtin it applies fails with a structural type mismatch" % (len(sites) - 1), sample={"siblings": len(sites)})
    if len(sites) < 4:
        rep.bad("R06-UPCAST", "build#Call#sites", sh.loc(GENU, arms[0]), "only %d argument-list sites found in the Call arm, 4 confirmed by hand (anchor)" % len(sites))


# ---------------------------------------------------------------------------------------------------------
# R06-VARIANTKEY
# ---------------------------------------------------------------------------------------------------------
def r_variantkey(sh, rep):
    """Each instantiation of a generic function is compiled once per key returned by get_generic_variant_name; two
    instantiations with the same key share one body. The body moves values of the type parameter to and from Data with the
    conversion of *its* representation, so two representations under one key run the wrong conversion for one of them."""
    BLD = "crates/aiken-lang/src/gen_uplc/builder.rs"
    f = find_fn(sh.file(BLD), "get_generic_variant_name")
    rep.touched(BLD, "get_generic_variant_name")
    m = next(matches_in(f["body"]), None)
    if m is None:
        raise AnchorMissing("match in get_generic_variant_name")
    rows = []  # (uplc constructor or None, guard source, suffix)
    for a in m["arms"]:
        lits = [x["v"] for x in walk(a["body"]) if x.get("k") == "Lit" and x.get("lk") == "str"]
        guard = sh.nsrc(BLD, a["guard"]) if "guard" in a else ""
        for alt in pat_alts(a["pat"]):
            ctor = next((last(x.get("p")) for x in walk(alt) if x.get("k") in ("PTupleStruct", "PPath", "PStruct") and "UplcType::" in (x.get("p") or "")), None)
            rows.append((ctor, guard, lits[0] if lits and not any(y.get("k") == "Macro" for y in walk(a["body"])) else None, a))
    ut = find_enum(sh.file("crates/aiken-lang/src/gen_uplc/builder.rs"), "UplcType") if False else None
    by_suffix = {}
    for ctor, guard, suf, a in rows:
        if suf is not None:
            by_suffix.setdefault(suf, set()).add((ctor, guard))
    for suf, who in sorted(by_suffix.items()):
        ctors = {c for c, g in who}
        ok = len(ctors - {None, "Data"}) <= 1 and not (ctors - {None, "Data"} and ({None, "Data"} & ctors))
        rep.check(ok, "R06-VARIANTKEY", "suffix#%s" % suf, sh.loc(BLD, f), "representations %s share the variant key `%s`: one compiled body serves instantiations whose values are converted to and from Data differently" % (sorted(str(c) for c in ctors), suf), sample={"rows": sorted("%s if %s" % (c, g) if g else str(c) for c, g in who)})
    lists = [(g, s_) for c, g, s_, a in rows if c == "List"]
    mapped = [s_ for g, s_ in lists if "is_map()" in g]
    plain = [s_ for g, s_ in lists if not g]
    first_guarded = bool(lists) and "is_map()" in lists[0][0]
    rep.check(bool(mapped) and bool(plain) and mapped[0] != plain[0] and first_guarded, "R06-VARIANTKEY", "List#association-lists-apart", sh.loc(BLD, f), "a list of pairs is an association list (mapData / unMapData), any other list a plain one (listData / unListData): get_generic_variant_name must give `t.is_map()` its own key before the plain List row (found rows %s) — otherwise a generic function used at List<_> and at Pairs<_, _> runs one conversion for both" % lists, sample={"list_rows": lists})
