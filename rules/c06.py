"""C06 — well-typed programs cannot go wrong.

Decided statically (thin but exact): the type the checker gives each builtin
is the type the evaluator unwraps (so a well-typed builtin call cannot raise a
structural type mismatch because of table drift); the number of `force`s the
code generator and the term builder put on a builtin is the evaluator's
force_count; checker-level types and generator-level Data representations
agree per type kind (shared with C01/C12).
Not decided: soundness of inference, unification, opaque erasure,
monomorphisation — the actual theorem.
"""
import re
from .lib import *
from .btab import BuiltinTables, RT, AB
from . import builtin_rules as br
from . import cast_rules

EXPLANATION = (
    "Sibling tables between the type checker and the evaluator: for each of the 91 builtins the Aiken signature (aiken_lang::builtins::from_default_function) "
    "is compared argument by argument with the unwrappers of DefaultFunction::call, and arity / force_count with the signature's arity and number of type "
    "variables; every builder chain rooted at Term::Builtin(DefaultFunction::X) in the workspace is checked to carry exactly force_count(X) forces before its first "
    "application; every call of apply_builtin_forces passes force_count(); the type-kind -> Data representation tables of the code generator agree (R01-CAST)."
)
LEVEL_NOTE = "necessary conditions only: rules out 'goes wrong because two tables disagree', not 'goes wrong because inference is unsound'"

UB = "crates/uplc/src/builder.rs"


def run(ctx, rep):
    sh = ctx.shape
    rep.rule("R06-SIG", "the checker's builtin signature equals what the evaluator unwraps, argument by argument (91 builtins)", floor=91)
    rep.rule("R06-ARITY", "arity and force_count agree with the Aiken signature's arity and type variables (91 builtins)", floor=91)
    rep.rule("R06-FORCE", "every Term::Builtin(X) builder chain carries force_count(X) forces before its first apply; apply_builtin_forces is fed force_count()", floor=60)
    rep.rule("R06-REPR", "per type kind, to-Data and from-Data conversions of the code generator use inverse builtins of the same Data class", floor=30)
    t = None
    try:
        t = BuiltinTables(sh)
    except AnchorMissing as e:
        rep.anchor_missing("R06-SIG", e)
    if t:
        rep.touched(AB, "from_default_function")
        rep.touched(RT, "DefaultFunction::call")
        rep.guarded("R06-SIG", lambda: br.rule_sig(t, rep, "R06-SIG"))
        rep.guarded("R06-ARITY", lambda: br.rule_arity(t, rep, "R06-ARITY"))
        rep.guarded("R06-FORCE", lambda: r_force(sh, rep, t))
    rep.guarded("R06-REPR", lambda: cast_rules.rule_cast(sh, rep, "R06-REPR"))


def builtin_chains(fn_body):
    """outermost method chains rooted at Term::Builtin(DefaultFunction::X): yields (X, [method names], node)"""
    inner = set()
    for n in walk(fn_body):
        if n["k"] != "MethodCall" or id(n) in inner:
            continue
        chain = []
        cur = n
        while cur["k"] == "MethodCall":
            chain.append(cur)
            inner.add(id(cur))
            cur = cur["recv"]
        root = cur
        if root["k"] == "Call" and call_name(root) == "Term::Builtin" and root["args"] and root["args"][0]["k"] == "Path" and "DefaultFunction::" in root["args"][0]["p"]:
            yield last(root["args"][0]["p"]), [c["m"] for c in reversed(chain)], n


_CALLED = {}


def _called_term_helpers(sh):
    """names of Term::<helper>() / Self::<helper>() calls anywhere outside tests"""
    if "v" not in _CALLED:
        out = set()
        for rel2 in sh.files():
            if "/tests" in rel2 or rel2.endswith("tests.rs"):
                continue
            for _, g in all_fns(sh.file(rel2)):
                if "body" not in g:
                    continue
                for c in calls_in(g["body"]):
                    nm = call_name(c)
                    if c["k"] == "Call" and nm and nm.split("::")[0] in ("Term", "Self") and "::" in nm:
                        out.add(last(nm))
        _CALLED["v"] = out
    return _CALLED["v"]


def r_force(sh, rep, t):
    n_chain = 0
    for rel in sh.files():
        if "/tests" in rel or rel.endswith("tests.rs") or not (rel.startswith("crates/uplc/src") or rel.startswith("crates/aiken-lang/src") or rel.startswith("crates/aiken-project/src")):
            continue
        fj = sh.file(rel)
        for q, f in all_fns(fj):
            if "body" not in f:
                continue
            for x, ms, node in builtin_chains(f["body"]):
                if x not in t.force:
                    continue
                lead = 0
                for mname in ms:
                    if mname == "force":
                        lead += 1
                    else:
                        break
                rest = ms[lead:]
                if not rest or rest[0] != "apply":
                    # chain does not apply the builtin (e.g. .force().lambda(..)) — only the leading forces matter
                    pass
                n_chain += 1
                applies = 0
                for mname in rest:
                    if mname == "apply":
                        applies += 1
                    else:
                        break
                want = t.force[x][0]
                key = "%s::%s#%s@%d" % (rel.split("/")[-1], q, x, n_chain)
                key = "%s::%s#%s" % (rel.split("/")[-1], q, x)
                problems = []
                if lead != want:
                    problems.append("%d force(s) before the first application, force_count(%s) is %d" % (lead, x, want))
                if applies > t.arity[x][0]:
                    problems.append("%d applications, arity is %d" % (applies, t.arity[x][0]))
                if problems:
                    rep.bad("R06-FORCE", key, sh.loc(rel, node), "; ".join(problems) + ": the machine would fail with a force/apply discipline error", sample={"builtin": x, "chain": ms[:8]})
                else:
                    rep.ok("R06-FORCE", key, sh.loc(rel, node), sample={"builtin": x, "forces": lead, "applies": applies})
        # bare Term::Builtin(X) returned by a zero-argument helper of the term builder must need no force
        if rel == UB:
            for q, f in all_fns(fj):
                if "body" not in f or f["sig"]["inputs"]:
                    continue
                st = f["body"]["stmts"]
                if len(st) == 1 and st[0]["k"] == "ExprStmt":
                    e = st[0]["e"]
                    if e["k"] == "Call" and call_name(e) == "Term::Builtin" and e["args"][0]["k"] == "Path":
                        x = last(e["args"][0]["p"])
                        used = f["name"] in _called_term_helpers(sh)
                        if x in t.force and not used and t.force[x][0] != 0:
                            rep.info("%s: helper Term::%s returns the bare builtin %s (needs %d force) but is not called anywhere outside tests — latent, not a violation" % (sh.loc(rel, e), f["name"], x, t.force[x][0]))
                        elif x in t.force:
                            rep.check(t.force[x][0] == 0, "R06-FORCE", "builder.rs::%s#%s#bare" % (q, x), sh.loc(rel, e), "helper returns the bare builtin %s, which needs %d force(s)" % (x, t.force[x][0]), sample={"builtin": x, "forces": 0})
    # apply_builtin_forces(term, <expr>.force_count())
    for rel in sh.files():
        if not rel.startswith("crates/aiken-lang/src") or "/tests" in rel:
            continue
        for q, f in all_fns(sh.file(rel)):
            if "body" not in f:
                continue
            for c in calls_in(f["body"]):
                nm = call_name(c)
                if nm and last(nm) == "apply_builtin_forces" and c["k"] == "Call":
                    a = c["args"][1] if len(c["args"]) > 1 else None
                    ok = a is not None and a["k"] == "MethodCall" and a["m"] == "force_count"
                    rep.check(ok, "R06-FORCE", "%s::%s#apply_builtin_forces" % (rel.split("/")[-1], q), sh.loc(rel, c), "apply_builtin_forces must be given <builtin>.force_count(), not %s" % (sh.nsrc(rel, a) if a else None))
