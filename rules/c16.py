"""C16 — Property tests are reproducible and their counterexamples are real (static necessary clauses; DESIGN §3 C16)."""
import re
from .lib import *
from . import panic_audit

NEEDS_FLOW = True
EXPLANATION = (
    "Decision tables: what counts as a counterexample for each OnTestFailure mode is decided twice in PropertyTest::run_once (when a run is "
    "first kept, and inside the shrinker's replay cache); both tables are extracted and must agree row by row, and complement TestResult's "
    "success table. Ownership: Counterexample.value / choices are written only in `consider`, together, under Status::Keep with the choices just "
    "replayed. Seed discipline: every runnable receives the run's seed unchanged. Effects: no clock / RNG / environment call in the test "
    "framework outside the reviewed display-only site. Guards: every `x.len() - k` in the shrinker is under an emptiness/length test of the "
    "same vector."
)
LEVEL_NOTE = "termination and minimality of simplify and the prefix rule of Cache::get are arithmetic on runtime values and are not decided; monotonicity is decided only as the form of the acceptance test in `consider`"

TF = "crates/aiken-lang/src/test_framework.rs"
PL = "crates/aiken-project/src/lib.rs"
MODES = ["FailImmediately", "SucceedImmediately", "SucceedEventually"]


def run(ctx, rep):
    sh, fl = ctx.shape, ctx.flow
    rep.rule("R16-TABLES", "the two counterexample decision tables of run_once (first keep / replay cache) agree for every OnTestFailure mode", floor=6)
    rep.rule("R16-WRITER", "Counterexample.value and .choices are assigned only in consider, together, under Status::Keep, from the replayed choices", floor=3)
    rep.rule("R16-SEED", "every runnable is run with the seed of the run, unchanged", floor=1)
    rep.rule("R16-VERDICT", "TestResult::is_success, read as a decision table over (counterexample: Err | Ok(None) | Ok(Some)) x (OnTestFailure mode), equals the specification: an errored run never passes; fail-once passes only with a counterexample", floor=9)
    rep.guarded("R16-VERDICT", lambda: r_verdict(sh, rep))
    rep.rule("R16-REIFYPAIR", "a counterexample's Pair is printed with its components in place: simulating the vector operations that take the two reified elements apart, `fst` receives the first and `snd` the second", floor=2)
    rep.guarded("R16-REIFYPAIR", lambda: r_reifypair(sh, rep))
    rep.guarded("R16-SEED", lambda: r_seed_cli(sh, rep))
    rep.rule("R16-PURE", "no clock / RNG / environment / thread-identity call in the test framework besides the reviewed display-only site", floor=1)
    rep.rule("R16-GUARD", "every `v.len() - k` inside Counterexample::simplify is under a non-emptiness / length test of the same vector", floor=3)
    rep.guarded("R16-TABLES", lambda: r_tables(sh, rep))
    rep.guarded("R16-WRITER", lambda: r_writer(fl, sh, rep))
    rep.guarded("R16-SEED", lambda: r_seed(sh, rep))
    rep.guarded("R16-PURE", lambda: r_pure(fl, rep))
    rep.guarded("R16-GUARD", lambda: r_guard(sh, rep))
    rep.rule("R16-SAMEEVAL", "the first run, the shrinker's replays and the final report evaluate the property through one function under one budget (ExBudget::max())", floor=3)
    rep.guarded("R16-SAMEEVAL", lambda: r_sameeval(sh, rep))
    rep.rule("R16-MONO", "a replayed candidate replaces the counterexample only under comparisons that say it is no longer / lexicographically smaller than the current one", floor=2)
    rep.guarded("R16-MONO", lambda: r_mono(sh, rep))
    rep.rule("R16-REPLAY", "recorded choices and replayed choices use inverse byte orders: one reversal when reading a seeded PRNG's choices, one when building a replayed PRNG, cursor = number of choices", floor=4)
    rep.guarded("R16-REPLAY", lambda: r_replay(sh, rep))
    rep.rule("R16-ITER", "the iteration counter is decremented exactly once per executed run, unconditionally, and the loop stops at the first kept counterexample", floor=2)
    rep.guarded("R16-ITER", lambda: r_iter(sh, rep))


def _mode_table(sh, m):
    """match self.on_test_failure { modes => <expr> } -> {mode: normalised source of the arm body}"""
    out = {}
    for a in m["arms"]:
        for alt in pat_alts(a["pat"]):
            h = pat_head(alt)
            if h is None:
                return None  # catch-all: not a total explicit table
            out[last(h)] = a["body"]
    return out


def _fail_names(sh, scope):
    """(names bound to `<result>.failed(..)`, names bound to its negation) inside `scope`"""
    fails, succ = set(), set()
    for n in walk(scope):
        if n["k"] == "Local" and n["pat"]["k"] == "Ident" and n.get("init") is not None:
            init = n["init"]
            if any(c["k"] == "MethodCall" and c["m"] == "failed" for c in walk(init)) and init["k"] != "Unary":
                fails.add(n["pat"]["name"])
    for n in walk(scope):
        if n["k"] == "Local" and n["pat"]["k"] == "Ident" and n.get("init") is not None:
            init = n["init"]
            if init["k"] == "Unary" and init["op"] == "!" and init["e"]["k"] == "Path" and init["e"]["p"] in fails:
                succ.add(n["pat"]["name"])
    return fails, succ


def _keeps_on_failure(sh, body, fails=("is_failure",), succ=("is_success",)):
    """classify an arm body: 'failure' if it keeps when the run failed, 'success' if it keeps when it did not"""
    def polarity(e):
        if e["k"] == "Path" and e["p"] in fails:
            return "failure"
        if e["k"] == "Path" and e["p"] in succ:
            return "success"
        if e["k"] == "Unary" and e["op"] == "!":
            p_ = polarity(e["e"])
            return {"failure": "success", "success": "failure"}.get(p_)
        return None
    p0 = polarity(body)
    if p0:
        return p0
    for n in walk(body):
        if n["k"] == "If":
            pc = polarity(n["cond"])
            then_keep = "Keep(" in sh.nsrc(TF, n["then"])
            else_keep = "else" in n and ("Keep(" in sh.nsrc(TF, n["else"]))
            if pc and then_keep != else_keep:
                return pc if then_keep else {"failure": "success", "success": "failure"}[pc]
            return None
    return None


def r_tables(sh, rep):
    f = find_method(sh.file(TF), "PropertyTest", "run_once")
    rep.touched(TF, "PropertyTest::run_once")
    ms = [m for m in matches_in(f["body"]) if sh.nsrc(TF, m["e"]) == "self.on_test_failure"]
    first = [m for m in ms if not _inside_closure(f["body"], m)]
    cache = [m for m in ms if _inside_closure(f["body"], m)]
    if len(first) != 1:
        raise AnchorMissing("`match self.on_test_failure` deciding keep_counterexample in run_once")
    t1 = _mode_table(sh, first[0])
    if t1 is None or set(t1) != set(MODES):
        rep.bad("R16-TABLES", "first-keep#total", sh.loc(TF, first[0]), "the keep_counterexample table must list the three OnTestFailure modes explicitly (found %s)" % (sorted(t1) if t1 else "a catch-all"))
        return
    fails, succ = _fail_names(sh, f["body"])
    k1 = {mode: _keeps_on_failure(sh, b, fails, succ) for mode, b in t1.items()}
    # specification (semantics of `fail` tests): a counterexample is a failing run, except for `fail` (SucceedEventually) where it is a passing run
    spec = {"FailImmediately": "failure", "SucceedImmediately": "failure", "SucceedEventually": "success"}
    for mode in MODES:
        rep.check(k1[mode] == spec[mode], "R16-TABLES", "first-keep#%s" % mode, sh.loc(TF, first[0]), "for %s a run is kept as counterexample when it is a %s; the test semantics say %s" % (mode, k1[mode], spec[mode]), sample={"keeps_on": k1[mode]})
    if len(cache) != 1:
        rep.bad("R16-TABLES", "replay-cache#table-present", sh.loc(TF, f), "the shrinker's replay closure (Cache::new) must decide Keep / Ignore with its own `match self.on_test_failure` over the three modes (found %d such matches): without it every replay is judged as for a plain test, so for `fail` tests the shrinker keeps values that are not counterexamples" % len(cache))
        return
    t2 = _mode_table(sh, cache[0])
    if t2 is None or set(t2) != set(MODES):
        rep.bad("R16-TABLES", "replay-cache#total", sh.loc(TF, cache[0]), "the replay table must list the three modes explicitly")
        return
    k2 = {mode: _keeps_on_failure(sh, b, fails, succ) for mode, b in t2.items()}
    for mode in MODES:
        rep.check(k2[mode] == k1[mode] and k2[mode] is not None, "R16-TABLES", "replay-cache#%s#agrees-with-first-keep" % mode, sh.loc(TF, cache[0]), "for %s the first run is kept on %s but a replay is kept on %s: the shrinker then moves towards values that are not counterexamples for this test" % (mode, k1[mode], k2[mode]), sample={"first": k1[mode], "replay": k2[mode]})


def _inside_closure(root, node):
    for c in walk(root):
        if c["k"] == "Closure":
            for x in walk(c["body"]):
                if x is node:
                    return True
    return False


def r_writer(fl, sh, rep):
    CE = "aiken_lang::test_framework::Counterexample"
    writers = {}
    for f in fl.fns.values():
        for w in f["writes"]:
            if w["adt"] == CE and w["f"] in ("value", "choices") and w["w"] in ("assign", "mutborrow", "rawptr"):
                writers.setdefault(w["f"], set()).add(panic_audit.root_of(fl, f)["path"].split("::")[-1])
    for fld in ("value", "choices"):
        rep.check(writers.get(fld) == {"consider"}, "R16-WRITER", "Counterexample.%s#only-consider-writes" % fld, TF, "Counterexample.%s is written in %s; only `consider` may replace the counterexample (and run_once constructs it)" % (fld, sorted(writers.get(fld, []))), sample={"writers": sorted(writers.get(fld, []))})
    f = find_method(sh.file(TF), "Counterexample", "consider")
    m = [m for m in matches_in(f["body"]) if "cache.get" in sh.nsrc(TF, m["e"])]
    if not m:
        raise AnchorMissing("match self.cache.get(choices) in consider")
    param = f["sig"]["inputs"][-1]["pat"]["name"]
    ok = False
    for a in m[0]["arms"]:
        h = pat_head(pat_alts(a["pat"])[0])
        assigns = {sh.nsrc(TF, n["l"]): sh.nsrc(TF, n["r"]) for n in walk(a["body"]) if n["k"] == "Assign"}
        if h and last(h) == "Keep":
            bound = [n["name"] for n in walk(a["pat"]) if n["k"] == "Ident"]
            ok = set(assigns) == {"self.value", "self.choices"} and bound and assigns["self.value"] == bound[0] and assigns["self.choices"].startswith(param)
        else:
            if assigns:
                ok = False
                break
    rep.check(ok, "R16-WRITER", "consider#value-and-choices-together-under-Keep", sh.loc(TF, m[0]), "consider must assign self.value (the value the cache returned for these choices) and self.choices (the choices just replayed) together, only in the Status::Keep arm")
    # the cache is consulted with exactly the candidate choices
    rep.check(sh.nsrc(TF, m[0]["e"]) == "self.cache.get(%s)" % param, "R16-WRITER", "consider#cache-asked-for-the-candidate", sh.loc(TF, m[0]), "consider must ask the cache about the candidate choices it was given")


def r_seed(sh, rep):
    f = find_method(sh.file(PL), "Project", "run_runnables")
    rep.touched(PL, "Project::run_runnables")
    seed_param = [i["pat"]["name"] for i in f["sig"]["inputs"] if i.get("pat", {}).get("k") == "Ident" and i["pat"]["name"] == "seed"]
    if not seed_param:
        raise AnchorMissing("parameter `seed` of run_runnables")
    runs = [c for c in walk(f["body"]) if c["k"] == "MethodCall" and c["m"] == "run" and c["args"]]
    if not runs:
        raise AnchorMissing("test.run(..) in run_runnables")
    for c in runs:
        a0 = sh.nsrc(PL, c["args"][0])
        rep.check(a0 == "seed", "R16-SEED", "run_runnables#run(seed)", sh.loc(PL, c), "tests are run with `%s` instead of the run's seed: the outcome of a property then depends on something other than (seed, code) — e.g. its position among the collected tests — so re-running it alone with the printed seed does not reproduce the result" % a0, sample={"seed_arg": a0})


def r_seed_cli(sh, rep):
    """`aiken check --seed N` must run with N, for every N: the seed the user gave reaches run_runnables unchanged; only its
    absence is replaced by a random one."""
    CK = "crates/aiken/src/cmd/check.rs"
    f = find_fn(sh.file(CK), "exec")
    rep.touched(CK, "cmd::check::exec")
    inits = [st for st in walk(f["body"]) if st.get("k") == "Local" and st["pat"].get("k") == "Ident" and st["pat"]["name"] == "seed" and st.get("init") is not None]
    if not inits:
        raise AnchorMissing("`let seed = ..` in cmd::check::exec")
    e = inits[0]["init"]
    chain = []
    while e.get("k") == "MethodCall":
        chain.append(e["m"])
        e = e["recv"]
    chain.reverse()
    base = sh.nsrc(CK, e)
    ok = base == "seed" and len(chain) == 1 and chain[0] in ("unwrap_or_else", "unwrap_or")
    rep.check(ok, "R16-SEED", "check::exec#user-seed-unchanged", sh.loc(CK, inits[0]), "the seed option given on the command line goes through `%s` before its default is supplied: some seeds the user asks for (0, say) are replaced — by a random one, so the run is not reproducible and the report names a seed nobody chose" % ".".join(chain), sample={"chain": chain})


EFFECTS = re.compile(r"std::time::(Instant|SystemTime)::now|^rand::|^rand_|getrandom|std::env::(var|vars|args)|std::thread::current|RandomState::new|std::process::id")
EFFECT_REVIEWED = {("aiken_lang::test_framework::Counterexample::<'_>::simplify", "now"): "elapsed time of the shrink, reported in Event::Simplified only (display); never read by the verdict or the counterexample"}


def r_pure(fl, rep):
    seen = 0
    for f in fl.fns.values():
        root = panic_audit.root_of(fl, f)["path"]
        if not root.startswith("aiken_lang::test_framework::"):
            continue
        for i, b in fl.calls(f):
            cal = b.get("callee") or ""
            if EFFECTS.search(cal):
                seen += 1
                key = (root, cal.split("::")[-1])
                rep.check(key in EFFECT_REVIEWED, "R16-PURE", "%s#%s" % (root.split("::", 2)[-1], cal), "%s:%d" % (panic_audit.rel_file(f), b["l"]), "%s calls %s: the result of a property test could depend on time / randomness / environment outside the seed" % (root, cal), why_ok=EFFECT_REVIEWED.get(key, ""))
    if seen == 0:
        rep.bad("R16-PURE", "control#Instant::now-visible", TF, "positive control failed: the reviewed Instant::now call in simplify is no longer visible to the rule (callee names changed?)")


def r_guard(sh, rep):
    f = find_method(sh.file(TF), "Counterexample", "simplify")
    rep.touched(TF, "Counterexample::simplify")
    n = 0

    def rec(node, guards):
        nonlocal n
        if isinstance(node, list):
            for x in node:
                rec(x, guards)
            return
        if not isinstance(node, dict):
            return
        k = node.get("k")
        if k in ("If", "While"):
            rec(node["cond"], guards)
            body = node["then"] if k == "If" else node["body"]
            rec(body, guards + [node["cond"]])
            if k == "If" and "else" in node:
                rec(node["else"], guards)
            return
        if k == "Binary" and node["op"] == "-" and node["l"]["k"] == "MethodCall" and node["l"]["m"] == "len" and node["r"]["k"] == "Lit":
            recv = sh.nsrc(TF, node["l"]["recv"])
            n += 1
            ok = False
            for g in guards:
                gs = sh.nsrc(TF, g)
                if "!%s.is_empty()" % recv in gs or re.search(re.escape(recv) + r"\.len\(\)(>|>=)", gs) or re.search(r"(<|<=)" + re.escape(recv) + r"\.len\(\)", gs):
                    ok = True
            rep.check(ok, "R16-GUARD", "simplify#%s.len()-%s#%d" % (recv, node["r"].get("v"), n), sh.loc(TF, node), "`%s.len() - %s` is not under a test that `%s` is non-empty (enclosing conditions: %s): once an earlier pass has deleted every choice this underflows and the shrinker panics, losing the counterexample" % (recv, node["r"].get("v"), recv, [sh.nsrc(TF, g)[:40] for g in guards]), sample={"guards": [sh.nsrc(TF, g)[:40] for g in guards]})
        for v in node.values():
            if isinstance(v, (dict, list)):
                rec(v, guards)

    rec(f["body"], [])


# ---------------------------------------------------------------------------------------------------------
# R16-MONO: the acceptance test of Counterexample::consider
# ---------------------------------------------------------------------------------------------------------
def r_mono(sh, rep):
    """`consider` is the only writer of the counterexample (R16-WRITER). The reported counterexample is no larger than the
    first failing case iff every replacement goes to a sequence that is not larger; so the assignment under Status::Keep
    must sit under a condition made only of comparisons `candidate (<|<=) current` — on the lengths or on the sequences
    themselves (slices compare lexicographically) — joined by || / &&. A comparison turned the other way, or no condition
    at all, lets shrinking grow the counterexample."""
    f = find_method(sh.file(TF), "Counterexample", "consider")
    rep.touched(TF, "Counterexample::consider")
    cand = [i["pat"].get("name") for i in f["sig"]["inputs"] if isinstance(i.get("pat"), dict) and i["pat"].get("name") not in (None, "self")]
    if not cand:
        raise AnchorMissing("candidate parameter of Counterexample::consider")
    c = cand[0]
    assigns = [a for a in walk(f["body"]) if a.get("k") == "Assign" and sh.nsrc(TF, a["l"]) == "self.choices"]
    if not assigns:
        raise AnchorMissing("assignment to self.choices in consider")
    guards = []
    for n in walk(f["body"]):
        if n.get("k") == "If" and any(x is assigns[0] for x in walk(n["then"])):
            guards.append(n)
    rep.check(bool(guards), "R16-MONO", "consider#replacement-is-conditional", sh.loc(TF, assigns[0]), "the counterexample is replaced without any size test: a kept candidate that is longer and larger than the current one would be accepted")
    if not guards:
        return
    g = guards[-1]  # innermost
    atoms = []

    def split(e):
        if e.get("k") == "Binary" and e["op"] in ("||", "&&"):
            split(e["l"])
            split(e["r"])
        elif e.get("k") == "Paren":
            split(e["e"])
        else:
            atoms.append(e)

    split(g["cond"])
    bad = []
    for a in atoms:
        ok = False
        if a.get("k") == "Binary" and a["op"] in ("<", "<=", ">", ">="):
            l, r = sh.nsrc(TF, a["l"]), sh.nsrc(TF, a["r"])
            lc, rc = bool(re.search(r"(?<![\w.])%s\b" % re.escape(c), l)) and "self." not in l, bool(re.search(r"(?<![\w.])%s\b" % re.escape(c), r)) and "self." not in r
            ls, rs = "self.choices" in l, "self.choices" in r
            same_measure = (".len()" in l) == (".len()" in r)
            if same_measure and ((a["op"] in ("<", "<=") and lc and rs) or (a["op"] in (">", ">=") and ls and rc)):
                ok = True
        if not ok:
            bad.append(sh.nsrc(TF, a))
    rep.check(not bad and bool(atoms), "R16-MONO", "consider#accepts-only-not-larger-candidates", sh.loc(TF, g), "the acceptance test of consider contains %s, which is not of the form `candidate (<|<=) current` on lengths or sequences: shrinking can then move to a larger choice sequence and the reported counterexample may exceed the first failing case" % bad, sample={"atoms": [sh.nsrc(TF, a) for a in atoms]})


# ---------------------------------------------------------------------------------------------------------
# R16-REPLAY: byte order of recorded vs replayed choices
# ---------------------------------------------------------------------------------------------------------
def _reversals(node):
    return [n for n in walk(node) if n.get("k") == "MethodCall" and n["m"] in ("rev", "reverse")]


def r_replay(sh, rep):
    """On chain a seeded PRNG prepends each drawn byte (newest first); a replayed PRNG reads its byte string from the end
    with a cursor that starts at the number of choices. Off chain the recorded sequence is kept oldest-first (that is the
    order `simplify` works on and `choices <` compares). So: reading a Seeded PRNG's choices reverses once, a Replayed one
    not at all; building a Replayed PRNG reverses once into the byte string, keeps its own copy un-reversed, and sets the
    cursor to choices.len(). An odd reversal on either side makes the replay of a recorded sequence generate another
    value than the one that failed (only palindromic sequences survive)."""
    fj = sh.file(TF)
    ch = find_method(fj, "Prng", "choices")
    rep.touched(TF, "Prng::choices")
    m = next(matches_in(ch["body"]), None)
    if m is None:
        raise AnchorMissing("match in Prng::choices")
    per = {}
    for a in m["arms"]:
        for alt in pat_alts(a["pat"]):
            per[last(pat_head(alt) or "_")] = len(_reversals(a["body"]))
    rep.check(per.get("Seeded") == 1 and per.get("Replayed") == 0, "R16-REPLAY", "Prng::choices#reversal-parity", sh.loc(TF, ch), "Prng::choices must reverse a Seeded PRNG's (newest-first) record exactly once and leave a Replayed one as is; found %s" % per, sample=per)
    fc = find_method(fj, "Prng", "from_choices")
    rep.touched(TF, "Prng::from_choices")
    par = [i["pat"].get("name") for i in fc["sig"]["inputs"] if isinstance(i.get("pat"), dict)][0]
    lit = [n for n in walk(fc["body"]) if n.get("k") == "Struct" and last(n["p"]) == "Replayed"]
    if not lit:
        raise AnchorMissing("Prng::Replayed literal in from_choices")
    fields = {fi["name"]: fi["e"] for fi in lit[0]["fields"]}
    kept = fields.get("choices")
    rep.check(kept is not None and not _reversals(kept) and re.search(r"\b%s\b" % re.escape(par), sh.nsrc(TF, kept)), "R16-REPLAY", "from_choices#own-copy-unreversed", sh.loc(TF, lit[0]), "the Replayed PRNG's own `choices` must be the given sequence as is")
    up = fields.get("uplc")
    bs = [c for c in walk(up) if c.get("k") == "Call" and last(call_name(c) or "") == "bytestring"] if up else []
    it = [c for c in walk(up) if c.get("k") == "Call" and last(call_name(c) or "") == "integer"] if up else []
    rep.check(len(bs) == 1 and len(_reversals(bs[0])) == 1 and re.search(r"\b%s\b" % re.escape(par), sh.nsrc(TF, bs[0])), "R16-REPLAY", "from_choices#bytes-reversed-once", sh.loc(TF, lit[0]), "the byte string handed to the on-chain Replayed PRNG must be the given sequence reversed exactly once (found %d bytestring field(s), %s reversal(s))" % (len(bs), [len(_reversals(b)) for b in bs]))
    rep.check(len(it) == 1 and re.sub(r"\.into\(\)", "", sh.nsrc(TF, it[0]["args"][0])) == "%s.len()" % par, "R16-REPLAY", "from_choices#cursor-is-length", sh.loc(TF, lit[0]), "the Replayed PRNG's cursor must start at the number of choices (`%s.len()`); found `%s`" % (par, sh.nsrc(TF, it[0]["args"][0]) if it else "-"))


# ---------------------------------------------------------------------------------------------------------
# R16-ITER: the iteration count is a function of the runs executed
# ---------------------------------------------------------------------------------------------------------
def r_iter(sh, rep):
    """PropertyTest::run reports `n - remaining` iterations. run_n_times must decrement `remaining` once per run_once that
    returned, not under a condition, and must stop at the first counterexample; run_once's `?` leaves the counter
    untouched, which is what run's `+ 1` in the error case accounts for."""
    f = find_method(sh.file(TF), "PropertyTest", "run_n_times")
    rep.touched(TF, "PropertyTest::run_n_times")
    loops = [n for n in walk(f["body"]) if n.get("k") == "While"]
    if len(loops) != 1:
        raise AnchorMissing("one while loop in run_n_times (found %d)" % len(loops))
    lp = loops[0]
    cond = sh.nsrc(TF, lp["cond"])
    rep.check("*remaining>0" in cond and "counterexample.is_none()" in cond and "&&" in cond and "||" not in cond, "R16-ITER", "run_n_times#loop-condition", sh.loc(TF, lp), "the loop must run while runs remain and no counterexample was kept (found `%s`)" % cond, sample={"cond": cond})
    top = lp["body"].get("stmts", [])
    decs = [st for st in top if re.fullmatch(r"(\*remaining-=1|\*remaining=\*remaining-1);?", sh.nsrc(TF, st))]
    alld = [n for n in walk(lp["body"]) if n.get("k") in ("AssignOp", "Assign", "Binary") and re.match(r"^\*remaining(-=|=\*remaining-)", sh.nsrc(TF, n))]
    runs = [n for n in walk(lp["body"]) if n.get("k") == "MethodCall" and n["m"] == "run_once"]
    rep.check(len(decs) == 1 and len(alld) <= 1 and len(runs) == 1, "R16-ITER", "run_n_times#one-unconditional-decrement-per-run", sh.loc(TF, lp), "each iteration must call run_once once and decrement `remaining` by one at the top level of the loop body (top-level decrements %d, all decrements %d, run_once calls %d)" % (len(decs), len(alld), len(runs)), sample={"decrements": len(decs)})


# ---------------------------------------------------------------------------------------------------------
# R16-SAMEEVAL: one oracle for "does this value falsify the property"
# ---------------------------------------------------------------------------------------------------------
def r_sameeval(sh, rep):
    """A counterexample is real iff re-applying the property to it fails. The verdict on a value is produced in three
    places — the seeded run, the replay closure of the shrinker's cache, and PropertyTest::run's final report — and a
    shrunk value is reported on the strength of the replay alone. All three must therefore be the same evaluation: the
    same method of the test, and inside it one budget. A replay under a smaller budget keeps candidates that merely ran
    out of budget, and the reported counterexample passes when re-applied."""
    fj = sh.file(TF)
    names = {}
    for mname in ("run_once", "run"):
        f = find_method(fj, "PropertyTest", mname)
        rep.touched(TF, "PropertyTest::" + mname)
        for n in walk(f["body"]):
            if n.get("k") == "MethodCall" and n["m"].startswith("eval") and sh.nsrc(TF, n["recv"]) == "self":
                names.setdefault(n["m"], []).append((mname, n))
    sites = sum(len(v) for v in names.values())
    rep.check(len(names) == 1 and sites >= 3, "R16-SAMEEVAL", "PropertyTest#one-evaluation-function", sh.loc(TF, list(names.values())[0][0][1]) if names else TF, "the property is evaluated through %s at %d site(s) of run / run_once; the seeded run, the shrinker's replay and the final report must all call the same method" % (sorted(names), sites), sample={"methods": sorted(names), "sites": sites})
    budgets = {}
    for q, f in all_fns(fj):
        if not (q.startswith("PropertyTest::") or q in ("Prng::sample",)) or "body" not in f:
            continue
        for n in walk(f["body"]):
            if n.get("k") == "Call" and (call_name(n) or "").startswith("ExBudget::"):
                budgets.setdefault(call_name(n), []).append((q, n))
            if n.get("k") == "Struct" and last(n.get("p", "")) == "ExBudget":
                budgets.setdefault("ExBudget{..}", []).append((q, n))
    rep.check(sorted(budgets) == ["ExBudget::max"], "R16-SAMEEVAL", "PropertyTest#one-budget", sh.loc(TF, [v for k, v in budgets.items() if k != "ExBudget::max"][0][0][1]) if [k for k in budgets if k != "ExBudget::max"] else TF, "property tests and fuzzers must run under ExBudget::max() everywhere; found %s" % {k: [q for q, _ in v] for k, v in budgets.items()}, sample={"budgets": {k: len(v) for k, v in budgets.items()}})
    ev = find_method(fj, "PropertyTest", "eval")
    inner = [n for n in walk(ev["body"]) if n.get("k") == "MethodCall" and n["m"] in ("eval_version", "eval")]
    rep.check(len(inner) == 1 and "ExBudget::max()" in sh.nsrc(TF, inner[0]), "R16-SAMEEVAL", "PropertyTest::eval#max-budget", sh.loc(TF, ev), "PropertyTest::eval must evaluate once, under ExBudget::max()")


# ---------------------------------------------------------------------------------------------------------
# R16-VERDICT: is_success as a finite decision table
# ---------------------------------------------------------------------------------------------------------
class _Unknown(Exception):
    pass


def _pmatch(pat, val):
    """does constructor-tree value `val` (a tuple (ctor, child) / string / None=any) match the pattern? -> bindings or None"""
    k = pat.get("k")
    if k in ("Wild", "Rest"):
        return {}
    if k == "Ident":
        if pat.get("sub") is not None:
            raise _Unknown("@ pattern")
        if pat["name"][:1].isupper():  # a unit constructor (`None`) parses as an identifier pattern
            return {} if pat["name"] == (val[0] if isinstance(val, tuple) else val) else None
        return {pat["name"]: val}
    if k == "POr":
        for c in pat["cases"]:
            b = _pmatch(c, val)
            if b is not None:
                return b
        return None
    if k == "PPath":
        return {} if last(pat["p"]) == (val[0] if isinstance(val, tuple) else val) else None
    if k == "PTupleStruct":
        if not isinstance(val, tuple) or last(pat["p"]) != val[0]:
            return None
        elems = [e for e in pat["elems"]]
        if not elems or elems[0].get("k") == "Rest":
            return {}
        return _pmatch(elems[0], val[1])
    if k == "PRef" or k == "PParen":
        return _pmatch(pat.get("pat") or pat.get("e"), val)
    raise _Unknown("pattern " + str(k))


def _ev(e, env):
    k = e.get("k")
    if k == "Lit" and e.get("lk") == "bool":
        return e["v"] in (True, "true")
    if k == "Paren":
        return _ev(e["e"], env)
    if k == "Path":
        if e["p"] in env:
            return env[e["p"]]
        raise _Unknown("name " + e["p"])
    if k == "Field" and e["e"].get("k") == "Path" and (e["e"]["p"] + "." + e["f"]) in env:
        return env[e["e"]["p"] + "." + e["f"]]
    if k == "Unary" and e["op"] == "!":
        return not _ev(e["e"], env)
    if k == "Unary" and e["op"] == "*":
        return _ev(e["e"], env)
    if k == "Reference":
        return _ev(e["e"], env)
    if k == "Binary" and e["op"] in ("&&", "||"):
        l = _ev(e["l"], env)
        return (l and _ev(e["r"], env)) if e["op"] == "&&" else (l or _ev(e["r"], env))
    if k == "MethodCall" and not e["args"] and e["m"] in ("is_none", "is_some", "is_ok", "is_err"):
        v = _ev(e["recv"], env)
        c = v[0] if isinstance(v, tuple) else v
        return {"is_none": c == "None", "is_some": c == "Some", "is_ok": c == "Ok", "is_err": c == "Err"}[e["m"]]
    if k == "Macro" and last(e.get("path", "")) == "matches" and "pat" in e:
        b = _pmatch(e["pat"], _ev(e["e"], env))
        if b is None:
            return False
        return _ev(e["guard"], dict(env, **b)) if "guard" in e else True
    if k == "Block":
        env = dict(env)
        for st in e["stmts"]:
            if st["k"] == "Local" and st["pat"].get("k") == "Ident" and st.get("init") is not None:
                env[st["pat"]["name"]] = _ev(st["init"], env)
            elif st["k"] == "ExprStmt" and not st.get("semi"):
                return _ev(st["e"], env)
            else:
                raise _Unknown("statement " + st["k"])
        raise _Unknown("block without value")
    if k == "Match":
        v = _ev(e["e"], env)
        for a in e["arms"]:
            b = _pmatch(a["pat"], v)
            if b is not None and ("guard" not in a or _ev(a["guard"], dict(env, **b))):
                return _ev(a["body"], dict(env, **b))
        raise _Unknown("no arm matches")
    if k == "If" and e.get("else") is not None:
        return _ev(e["then"], env) if _ev(e["cond"], env) else _ev(e["else"], env)
    raise _Unknown("expression " + str(k))


def r_verdict(sh, rep):
    f = find_method(sh.file(TF), "TestResult", "is_success")
    rep.touched(TF, "TestResult::is_success")
    m = next(matches_in(f["body"]), None)
    if m is None:
        raise AnchorMissing("match in TestResult::is_success")
    CES = {"Err": ("Err", None), "Ok(None)": ("Ok", ("None", None)), "Ok(Some)": ("Ok", ("Some", None))}
    MODES = ("FailImmediately", "SucceedEventually", "SucceedImmediately")
    SPEC = {("Err", md): False for md in MODES}
    SPEC.update({("Ok(None)", "FailImmediately"): True, ("Ok(None)", "SucceedEventually"): True, ("Ok(None)", "SucceedImmediately"): False, ("Ok(Some)", "FailImmediately"): False, ("Ok(Some)", "SucceedEventually"): False, ("Ok(Some)", "SucceedImmediately"): True})
    for (cn, md), want in sorted(SPEC.items()):
        got, why = None, ""
        try:
            for a in m["arms"]:
                # the arm's pattern: TestResult::PropertyTestResult(PropertyTestResult { counterexample: P, test, .. })
                inner = [x for x in walk(a["pat"]) if x.get("k") == "PStruct" and last(x["p"]) == "PropertyTestResult"]
                if not inner:
                    continue
                env = {"test.on_test_failure": (md, None)}
                ok = True
                for fld in inner[0]["fields"]:
                    if fld["name"] == "counterexample":
                        b = {"counterexample": CES[cn]} if fld.get("short") else _pmatch(fld["pat"], CES[cn])
                        if b is None:
                            ok = False
                            break
                        env.update(b)
                if not ok:
                    continue
                got = _ev(a["body"], env)
                break
        except _Unknown as e:
            why = "not evaluable: %s" % e
        rep.check(got is want, "R16-VERDICT", "is_success#%s#%s" % (cn, md), sh.loc(TF, f), "for a property test in mode %s whose run ended with counterexample = %s, is_success gives %s (%s); it must give %s — %s" % (md, cn, got, why or "evaluated from the match", want, "a fuzzer that crashed has falsified nothing" if cn == "Err" else "the verdict follows the presence of a counterexample"), sample={"counterexample": cn, "mode": md, "is_success": got})


# ---------------------------------------------------------------------------------------------------------
# R16-REIFYPAIR
# ---------------------------------------------------------------------------------------------------------
def r_reifypair(sh, rep):
    """The counterexample a property test reports is the reified value, printed. For a Pair the two reified components sit
    in a Vec [first, second] and are moved into `UntypedExpr::Pair { fst, snd }` by Vec operations (remove(0), pop(), ..):
    the operations are simulated on ['first', 'second'] in source order and each field is traced to the element it gets."""
    EX = "crates/aiken-lang/src/expr.rs"
    f = find_method(sh.file(EX), "UntypedExpr", "do_reify_data")
    rep.touched(EX, "UntypedExpr::do_reify_data")
    arms = [a for a in walk(f["body"]) if a.get("k") == "Arm" and any((x.get("p") or "").endswith("Type::Pair") for x in walk(a["pat"]) if x.get("k") in ("PStruct", "PTupleStruct"))]
    lits = [(a, x) for a in arms for x in walk(a["body"]) if x.get("k") == "Struct" and (x.get("p") or "").endswith("UntypedExpr::Pair")]
    if not lits:
        raise AnchorMissing("UntypedExpr::Pair literal in the Type::Pair arm of do_reify_data")
    arm, lit = lits[0]
    vecs = [st["pat"]["name"] for st in walk(arm["body"]) if st.get("k") == "Local" and st["pat"].get("k") == "Ident" and st["pat"].get("mut")]
    if not vecs:
        raise AnchorMissing("the vector of reified components")
    vec = vecs[0]
    ops = sorted([c for c in walk(arm["body"]) if c.get("k") == "MethodCall" and c["recv"].get("k") == "Path" and c["recv"]["p"] == vec and c["m"] in ("remove", "pop", "swap_remove", "first", "last", "get")], key=lambda c: (c["s"][0], c["s"][1]))
    state, got = ["first", "second"], {}
    for c in ops:
        m = c["m"]
        arg = int(c["args"][0]["v"]) if c["args"] and c["args"][0].get("k") == "Lit" and str(c["args"][0].get("v")).isdigit() else None
        try:
            if m == "remove":
                got[id(c)] = state.pop(arg)
            elif m == "pop":
                got[id(c)] = state.pop()
            elif m == "swap_remove":
                v = state[arg]
                state[arg] = state[-1]
                state.pop()
                got[id(c)] = v
            elif m == "first":
                got[id(c)] = state[0]
            elif m == "last":
                got[id(c)] = state[-1]
            elif m == "get":
                got[id(c)] = state[arg]
        except (IndexError, TypeError):
            got[id(c)] = "?"
    # names bound to the operations by a `match (op, op) { (Some(a), Some(b)) => .. }` / `let (a, b) = (op, op)`
    bound = {}
    for n in walk(arm["body"]):
        scrut, pats = None, []
        if n.get("k") == "Match" and n["e"].get("k") == "Tuple":
            scrut, pats = n["e"], [pa for a in n["arms"] for pa in pat_alts(a["pat"]) if pa.get("k") == "PTuple"]
        elif n.get("k") == "Local" and n.get("init") is not None and n["init"].get("k") == "Tuple" and n["pat"].get("k") == "PTuple":
            scrut, pats = n["init"], [n["pat"]]
        if scrut is None:
            continue
        for pa in pats:
            for pe, ee in zip(pa["elems"], scrut["es"]):
                idents = [x["name"] for x in walk(pe) if x.get("k") == "Ident" and not x["name"][:1].isupper()]
                calls = [c for c in walk(ee) if id(c) in got]
                if len(idents) == 1 and calls:
                    bound[idents[0]] = got[id(calls[0])]
    for fld, want in (("fst", "first"), ("snd", "second")):
        e = next((fi["e"] for fi in lit["fields"] if fi["name"] == fld), None)
        src = None
        if e is not None:
            calls = [c for c in walk(e) if id(c) in got]
            if calls:
                src = got[id(calls[0])]
            else:
                names = [x["p"] for x in walk(e) if x.get("k") == "Path" and x["p"] in bound]
                src = bound[names[0]] if names else None
            if src is None and any(x.get("k") == "Index" for x in walk(e)):
                ix = next(x for x in walk(e) if x.get("k") == "Index")
                src = ["first", "second"][int(ix["i"]["v"])] if ix["i"].get("k") == "Lit" else None
        rep.check(src == want, "R16-REIFYPAIR", "do_reify_data#Pair#%s" % fld, sh.loc(EX, lit), "the `%s` of a reified Pair receives the %s reified component (it must be the %s): the counterexample is printed with its components swapped — Pair(0, 1) for the value Pair(1, 0) — and, pasted into a test, no longer falsifies the property" % (fld, src or "unrecognised", want), sample={"field": fld, "gets": src})
