"""C16 — Property tests are reproducible and their counterexamples are real (static necessary clauses; DESIGN §3 C16)."""
import re
from .lib import *
from . import panic_audit

NEEDS_FLOW = True
EXPLANATION = (
    "Decision tables: what counts as a counterexample for each OnTestFailure mode is decided twice in PropertyTest::run_once (when a run is "
    "first kept, and inside the shrinker's replay cache); both tables are extracted and must agree row by row, and complement TestResult's "
    "success table. Ownership: Counterexample.value / choices are written only in `consider`, together, under Status::Keep with the choices just "
    "replayed. Seed discipline: every runnable receives the run's seed unchanged. Effects: no clock / RNG / environment call in the test "
    "framework outside the reviewed display-only site. Guards: every `x.len() - k` in the shrinker is under an emptiness/length test of the "
    "same vector."
)
LEVEL_NOTE = "termination and minimality of simplify, the prefix rule of Cache::get and shortlex monotonicity are arithmetic on runtime values and are not decided (thin claim)"

TF = "crates/aiken-lang/src/test_framework.rs"
PL = "crates/aiken-project/src/lib.rs"
MODES = ["FailImmediately", "SucceedImmediately", "SucceedEventually"]


def run(ctx, rep):
    sh, fl = ctx.shape, ctx.flow
    rep.rule("R16-TABLES", "the two counterexample decision tables of run_once (first keep / replay cache) agree for every OnTestFailure mode", floor=6)
    rep.rule("R16-WRITER", "Counterexample.value and .choices are assigned only in consider, together, under Status::Keep, from the replayed choices", floor=3)
    rep.rule("R16-SEED", "every runnable is run with the seed of the run, unchanged", floor=1)
    rep.rule("R16-PURE", "no clock / RNG / environment / thread-identity call in the test framework besides the reviewed display-only site", floor=1)
    rep.rule("R16-GUARD", "every `v.len() - k` inside Counterexample::simplify is under a non-emptiness / length test of the same vector", floor=3)
    rep.guarded("R16-TABLES", lambda: r_tables(sh, rep))
    rep.guarded("R16-WRITER", lambda: r_writer(fl, sh, rep))
    rep.guarded("R16-SEED", lambda: r_seed(sh, rep))
    rep.guarded("R16-PURE", lambda: r_pure(fl, rep))
    rep.guarded("R16-GUARD", lambda: r_guard(sh, rep))


def _mode_table(sh, m):
    """match self.on_test_failure { modes => <expr> } -> {mode: normalised source of the arm body}"""
    out = {}
    for a in m["arms"]:
        for alt in pat_alts(a["pat"]):
            h = pat_head(alt)
            if h is None:
                return None  # catch-all: not a total explicit table
            out[last(h)] = a["body"]
    return out


def _fail_names(sh, scope):
    """(names bound to `<result>.failed(..)`, names bound to its negation) inside `scope`"""
    fails, succ = set(), set()
    for n in walk(scope):
        if n["k"] == "Local" and n["pat"]["k"] == "Ident" and n.get("init") is not None:
            init = n["init"]
            if any(c["k"] == "MethodCall" and c["m"] == "failed" for c in walk(init)) and init["k"] != "Unary":
                fails.add(n["pat"]["name"])
    for n in walk(scope):
        if n["k"] == "Local" and n["pat"]["k"] == "Ident" and n.get("init") is not None:
            init = n["init"]
            if init["k"] == "Unary" and init["op"] == "!" and init["e"]["k"] == "Path" and init["e"]["p"] in fails:
                succ.add(n["pat"]["name"])
    return fails, succ


def _keeps_on_failure(sh, body, fails=("is_failure",), succ=("is_success",)):
    """classify an arm body: 'failure' if it keeps when the run failed, 'success' if it keeps when it did not"""
    def polarity(e):
        if e["k"] == "Path" and e["p"] in fails:
            return "failure"
        if e["k"] == "Path" and e["p"] in succ:
            return "success"
        if e["k"] == "Unary" and e["op"] == "!":
            p_ = polarity(e["e"])
            return {"failure": "success", "success": "failure"}.get(p_)
        return None
    p0 = polarity(body)
    if p0:
        return p0
    for n in walk(body):
        if n["k"] == "If":
            pc = polarity(n["cond"])
            then_keep = "Keep(" in sh.nsrc(TF, n["then"])
            else_keep = "else" in n and ("Keep(" in sh.nsrc(TF, n["else"]))
            if pc and then_keep != else_keep:
                return pc if then_keep else {"failure": "success", "success": "failure"}[pc]
            return None
    return None


def r_tables(sh, rep):
    f = find_method(sh.file(TF), "PropertyTest", "run_once")
    rep.touched(TF, "PropertyTest::run_once")
    ms = [m for m in matches_in(f["body"]) if sh.nsrc(TF, m["e"]) == "self.on_test_failure"]
    first = [m for m in ms if not _inside_closure(f["body"], m)]
    cache = [m for m in ms if _inside_closure(f["body"], m)]
    if len(first) != 1:
        raise AnchorMissing("`match self.on_test_failure` deciding keep_counterexample in run_once")
    t1 = _mode_table(sh, first[0])
    if t1 is None or set(t1) != set(MODES):
        rep.bad("R16-TABLES", "first-keep#total", sh.loc(TF, first[0]), "the keep_counterexample table must list the three OnTestFailure modes explicitly (found %s)" % (sorted(t1) if t1 else "a catch-all"))
        return
    fails, succ = _fail_names(sh, f["body"])
    k1 = {mode: _keeps_on_failure(sh, b, fails, succ) for mode, b in t1.items()}
    # specification (semantics of `fail` tests): a counterexample is a failing run, except for `fail` (SucceedEventually) where it is a passing run
    spec = {"FailImmediately": "failure", "SucceedImmediately": "failure", "SucceedEventually": "success"}
    for mode in MODES:
        rep.check(k1[mode] == spec[mode], "R16-TABLES", "first-keep#%s" % mode, sh.loc(TF, first[0]), "for %s a run is kept as counterexample when it is a %s; the test semantics say %s" % (mode, k1[mode], spec[mode]), sample={"keeps_on": k1[mode]})
    if len(cache) != 1:
        rep.bad("R16-TABLES", "replay-cache#table-present", sh.loc(TF, f), "the shrinker's replay closure (Cache::new) must decide Keep / Ignore with its own `match self.on_test_failure` over the three modes (found %d such matches): without it every replay is judged as for a plain test, so for `fail` tests the shrinker keeps values that are not counterexamples" % len(cache))
        return
    t2 = _mode_table(sh, cache[0])
    if t2 is None or set(t2) != set(MODES):
        rep.bad("R16-TABLES", "replay-cache#total", sh.loc(TF, cache[0]), "the replay table must list the three modes explicitly")
        return
    k2 = {mode: _keeps_on_failure(sh, b, fails, succ) for mode, b in t2.items()}
    for mode in MODES:
        rep.check(k2[mode] == k1[mode] and k2[mode] is not None, "R16-TABLES", "replay-cache#%s#agrees-with-first-keep" % mode, sh.loc(TF, cache[0]), "for %s the first run is kept on %s but a replay is kept on %s: the shrinker then moves towards values that are not counterexamples for this test" % (mode, k1[mode], k2[mode]), sample={"first": k1[mode], "replay": k2[mode]})


def _inside_closure(root, node):
    for c in walk(root):
        if c["k"] == "Closure":
            for x in walk(c["body"]):
                if x is node:
                    return True
    return False


def r_writer(fl, sh, rep):
    CE = "aiken_lang::test_framework::Counterexample"
    writers = {}
    for f in fl.fns.values():
        for w in f["writes"]:
            if w["adt"] == CE and w["f"] in ("value", "choices") and w["w"] in ("assign", "mutborrow", "rawptr"):
                writers.setdefault(w["f"], set()).add(panic_audit.root_of(fl, f)["path"].split("::")[-1])
    for fld in ("value", "choices"):
        rep.check(writers.get(fld) == {"consider"}, "R16-WRITER", "Counterexample.%s#only-consider-writes" % fld, TF, "Counterexample.%s is written in %s; only `consider` may replace the counterexample (and run_once constructs it)" % (fld, sorted(writers.get(fld, []))), sample={"writers": sorted(writers.get(fld, []))})
    f = find_method(sh.file(TF), "Counterexample", "consider")
    m = [m for m in matches_in(f["body"]) if "cache.get" in sh.nsrc(TF, m["e"])]
    if not m:
        raise AnchorMissing("match self.cache.get(choices) in consider")
    param = f["sig"]["inputs"][-1]["pat"]["name"]
    ok = False
    for a in m[0]["arms"]:
        h = pat_head(pat_alts(a["pat"])[0])
        assigns = {sh.nsrc(TF, n["l"]): sh.nsrc(TF, n["r"]) for n in walk(a["body"]) if n["k"] == "Assign"}
        if h and last(h) == "Keep":
            bound = [n["name"] for n in walk(a["pat"]) if n["k"] == "Ident"]
            ok = set(assigns) == {"self.value", "self.choices"} and bound and assigns["self.value"] == bound[0] and assigns["self.choices"].startswith(param)
        else:
            if assigns:
                ok = False
                break
    rep.check(ok, "R16-WRITER", "consider#value-and-choices-together-under-Keep", sh.loc(TF, m[0]), "consider must assign self.value (the value the cache returned for these choices) and self.choices (the choices just replayed) together, only in the Status::Keep arm")
    # the cache is consulted with exactly the candidate choices
    rep.check(sh.nsrc(TF, m[0]["e"]) == "self.cache.get(%s)" % param, "R16-WRITER", "consider#cache-asked-for-the-candidate", sh.loc(TF, m[0]), "consider must ask the cache about the candidate choices it was given")


def r_seed(sh, rep):
    f = find_method(sh.file(PL), "Project", "run_runnables")
    rep.touched(PL, "Project::run_runnables")
    seed_param = [i["pat"]["name"] for i in f["sig"]["inputs"] if i.get("pat", {}).get("k") == "Ident" and i["pat"]["name"] == "seed"]
    if not seed_param:
        raise AnchorMissing("parameter `seed` of run_runnables")
    runs = [c for c in walk(f["body"]) if c["k"] == "MethodCall" and c["m"] == "run" and c["args"]]
    if not runs:
        raise AnchorMissing("test.run(..) in run_runnables")
    for c in runs:
        a0 = sh.nsrc(PL, c["args"][0])
        rep.check(a0 == "seed", "R16-SEED", "run_runnables#run(seed)", sh.loc(PL, c), "tests are run with `%s` instead of the run's seed: the outcome of a property then depends on something other than (seed, code) — e.g. its position among the collected tests — so re-running it alone with the printed seed does not reproduce the result" % a0, sample={"seed_arg": a0})


EFFECTS = re.compile(r"std::time::(Instant|SystemTime)::now|^rand::|^rand_|getrandom|std::env::(var|vars|args)|std::thread::current|RandomState::new|std::process::id")
EFFECT_REVIEWED = {("aiken_lang::test_framework::Counterexample::<'_>::simplify", "now"): "elapsed time of the shrink, reported in Event::Simplified only (display); never read by the verdict or the counterexample"}


def r_pure(fl, rep):
    seen = 0
    for f in fl.fns.values():
        root = panic_audit.root_of(fl, f)["path"]
        if not root.startswith("aiken_lang::test_framework::"):
            continue
        for i, b in fl.calls(f):
            cal = b.get("callee") or ""
            if EFFECTS.search(cal):
                seen += 1
                key = (root, cal.split("::")[-1])
                rep.check(key in EFFECT_REVIEWED, "R16-PURE", "%s#%s" % (root.split("::", 2)[-1], cal), "%s:%d" % (panic_audit.rel_file(f), b["l"]), "%s calls %s: the result of a property test could depend on time / randomness / environment outside the seed" % (root, cal), why_ok=EFFECT_REVIEWED.get(key, ""))
    if seen == 0:
        rep.bad("R16-PURE", "control#Instant::now-visible", TF, "positive control failed: the reviewed Instant::now call in simplify is no longer visible to the rule (callee names changed?)")


def r_guard(sh, rep):
    f = find_method(sh.file(TF), "Counterexample", "simplify")
    rep.touched(TF, "Counterexample::simplify")
    n = 0

    def rec(node, guards):
        nonlocal n
        if isinstance(node, list):
            for x in node:
                rec(x, guards)
            return
        if not isinstance(node, dict):
            return
        k = node.get("k")
        if k in ("If", "While"):
            rec(node["cond"], guards)
            body = node["then"] if k == "If" else node["body"]
            rec(body, guards + [node["cond"]])
            if k == "If" and "else" in node:
                rec(node["else"], guards)
            return
        if k == "Binary" and node["op"] == "-" and node["l"]["k"] == "MethodCall" and node["l"]["m"] == "len" and node["r"]["k"] == "Lit":
            recv = sh.nsrc(TF, node["l"]["recv"])
            n += 1
            ok = False
            for g in guards:
                gs = sh.nsrc(TF, g)
                if "!%s.is_empty()" % recv in gs or re.search(re.escape(recv) + r"\.len\(\)(>|>=)", gs) or re.search(r"(<|<=)" + re.escape(recv) + r"\.len\(\)", gs):
                    ok = True
            rep.check(ok, "R16-GUARD", "simplify#%s.len()-%s#%d" % (recv, node["r"].get("v"), n), sh.loc(TF, node), "`%s.len() - %s` is not under a test that `%s` is non-empty (enclosing conditions: %s): once an earlier pass has deleted every choice this underflows and the shrinker panics, losing the counterexample" % (recv, node["r"].get("v"), recv, [sh.nsrc(TF, g)[:40] for g in guards]), sample={"guards": [sh.nsrc(TF, g)[:40] for g in guards]})
        for v in node.values():
            if isinstance(v, (dict, list)):
                rec(v, guards)

    rec(f["body"], [])
