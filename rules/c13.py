"""C13 — The formatter preserves programs (static necessary clauses; DESIGN §3 C13). Thin."""
import re, json
from .lib import *
from .lib import _tok_has

NEEDS_FLOW = False
EXPLANATION = (
    "Operator tables of the four stages compose to the identity for all 13 binary operators: formatter (BinOp -> text), lexer (text -> Token), "
    "Token's own Display, and both parsers (Token -> BinOp: the precedence-layer parser and the `anonymous binop` parser). The parser's nesting of "
    "layers orders operators exactly as BinOp::precedence() does (the formatter parenthesises by that function); the set the formatter treats as "
    "right-associative equals the set of layers the parser folds to the right. Formatter entry points have an explicit arm per syntax variant."
)
LEVEL_NOTE = "layout-dependent re-parsing, comment placement, idempotence and shape-specific defects (e.g. record patterns with holes) are not decided — the claim is only the table/precedence/associativity agreement and arm totality"

FMT = "crates/aiken-lang/src/format.rs"
LEX = "crates/aiken-lang/src/parser/lexer.rs"
TOK = "crates/aiken-lang/src/parser/token.rs"
PEX = "crates/aiken-lang/src/parser/expr/mod.rs"
ANB = "crates/aiken-lang/src/parser/expr/anonymous_binop.rs"
AST = "crates/aiken-lang/src/ast.rs"
EXP = "crates/aiken-lang/src/expr.rs"


def run(ctx, rep):
    sh = ctx.shape
    rep.rule("R13-OPS", "formatter text -> lexer token -> parser operator is the identity for every BinOp; Token::Display prints what the lexer reads", floor=39)
    rep.rule("R13-PREC", "parser layers are ordered as BinOp::precedence(); operators of one layer share a precedence", floor=5)
    rep.rule("R13-ASSOC", "the formatter's right-associative set equals the set of layers the parser folds to the right, and parenthesises the matching side", floor=3)
    rep.rule("R13-VARIANTS", "Formatter::expr / pattern / annotation / definition have an explicit arm per variant (no catch-all)", floor=4)
    tabs = {}
    rep.guarded("R13-OPS", lambda: r_ops(sh, rep, tabs))
    rep.guarded("R13-PREC", lambda: r_prec(sh, rep, tabs))
    rep.guarded("R13-ASSOC", lambda: r_assoc(sh, rep, tabs))
    rep.guarded("R13-VARIANTS", lambda: r_variants(sh, rep))
    rep.rule("R13-ESC", "format::escape is a per-character table and the inverse of the lexer's string escapes", floor=6)
    rep.guarded("R13-ESC", lambda: r_esc(sh, rep))
    rep.rule("R13-COMMENTS", "comments popped off the formatter's cursor into a local are used on every following path", floor=5)
    rep.guarded("R13-COMMENTS", lambda: r_comments(sh, rep))
    rep.rule("R13-ORDINAL", "tuple-index suffixes (`.1st`, `.11th`) are printed with the function the lexer validates them with", floor=2)
    rep.guarded("R13-ORDINAL", lambda: r_ordinal(sh, rep))
    rep.rule("R13-ELIDE", "the formatter leaves out a validator's `else` handler only when it is exactly what the parser would synthesise", floor=3)
    rep.guarded("R13-ELIDE", lambda: r_elide(sh, rep))
    rep.rule("R13-NODROP", "no formatter method drops elements of a syntax list it prints (filter / dedup / take / skip adaptors are reviewed one by one)", floor=4)
    rep.guarded("R13-NODROP", lambda: r_nodrop(sh, rep))
    rep.rule("R13-CAPTURE", "a capture hole is recognised by the prefix the parser gives its name, never by a substring", floor=3)
    rep.guarded("R13-CAPTURE", lambda: r_capture(sh, rep))
    rep.rule("R13-POSTFIX", "call, field access and tuple index print an operator expression they apply to in parentheses", floor=3)
    rep.guarded("R13-POSTFIX", lambda: r_postfix(sh, rep))
    rep.rule("R13-SITES", "three single-site clauses: blank lines count as newlines for statement starts; both kinds of argument names print their label; `if x is T` is sugar only for `if x is x: T`", floor=3)
    rep.guarded("R13-SITES", lambda: r_sites(sh, rep))
    rep.rule("R13-SUGAR", "`expect True = e` is shortened to `expect e` only for a plain assignment; a pipe elides a first-position hole only when it carries no label", floor=2)
    rep.guarded("R13-SUGAR", lambda: r_sugar(sh, rep))


def _binops(sh):
    return [v["name"] for v in find_enum(sh.file(AST), "BinOp")["variants"]]


def _fmt_table(sh):
    for im in find_impls(sh.file(FMT), "BinOp", any_trait=True):
        if im["trait"] and "Documentable" in im["trait"]:
            for f in im["items"]:
                if f["k"] == "Fn" and f["name"] == "to_doc":
                    m = next(matches_in(f["body"]))
                    return {v: arm["body"]["v"] for v, arm, alt in arm_table(m) if v and arm["body"]["k"] == "Lit"}, m
    for _, it in items(sh.file(FMT)):
        if it["k"] == "Impl" and "BinOp" in it["self_ty"] and it["trait"] and "Documentable" in it["trait"]:
            for f in it["items"]:
                if f["k"] == "Fn" and f["name"] == "to_doc":
                    m = next(matches_in(f["body"]))
                    return {v: arm["body"]["v"] for v, arm, alt in arm_table(m) if v and arm["body"]["k"] == "Lit"}, m
    raise AnchorMissing("impl Documentable for &BinOp")


def _lex_table(sh):
    """text -> Token variant, in source order (order matters: the lexer tries alternatives in order)"""
    out = []
    for n in walk(sh.file(LEX)):
        if n["k"] == "MethodCall" and n["m"] == "to" and n["recv"]["k"] == "Call" and call_name(n["recv"]) == "just" and n["recv"]["args"] and n["recv"]["args"][0]["k"] == "Lit" and n["args"] and n["args"][0]["k"] == "Path" and n["args"][0]["p"].startswith("Token::"):
            out.append((str(n["recv"]["args"][0]["v"]), last(n["args"][0]["p"]), n))
    if len(out) < 30:
        raise AnchorMissing("lexer `just(..).to(Token::..)` table")
    return out


def _tok_display(sh):
    fj = sh.file(TOK)
    for im in find_impls(fj, "Token", trait="Display"):
        for f in im["items"]:
            if f["k"] == "Fn" and f["name"] == "fmt":
                m = next(matches_in(f["body"]))
                return {v: arm["body"]["v"] for v, arm, alt in arm_table(m) if v and arm["body"]["k"] == "Lit"}
    raise AnchorMissing("impl Display for Token")


def _layer_parser(sh):
    """[(layer name, {Token: BinOp}, fold kind)] in the order the layers are defined (innermost first)"""
    f = find_fn(sh.file(PEX), "pure_expression")
    layers = []
    pending = {}
    for st in f["body"]["stmts"]:
        if st["k"] != "Local" or st["pat"]["k"] != "Ident" or st.get("init") is None:
            continue
        name = st["pat"]["name"]
        pairs = {}
        for n in walk(st["init"]):
            if n["k"] == "MethodCall" and n["m"] == "to" and n["recv"]["k"] == "Call" and call_name(n["recv"]) == "just" and n["args"] and n["args"][0]["k"] == "Path" and "BinOp::" in n["args"][0]["p"]:
                t = n["recv"]["args"][0]
                if t["k"] == "Path" and t["p"].startswith("Token::"):
                    pairs[last(t["p"])] = last(n["args"][0]["p"])
        if name == "op" and pairs:
            pending = pairs
            continue
        if pending and name != "op":
            ms = [c["m"] for c in walk(st["init"]) if c["k"] == "MethodCall"]
            if "foldl" in ms or "reduce" in ms:
                fold = "right" if "reduce" in ms else "left"
                # which operand names bind left/right in the BinOp literal
                lits = [n for n in walk(st["init"]) if n["k"] == "Struct" and last(n["p"]) == "BinOp"]
                layers.append((name, dict(pending), fold, st, lits))
                pending = {}
    if len(layers) < 5:
        raise AnchorMissing("five operator layers in pure_expression (found %d)" % len(layers))
    return layers


def _anon_table(sh):
    fj = sh.file(ANB)
    f = find_fn(fj, "parser")
    out = {}
    for n in walk(f["body"]):
        if n["k"] == "Macro" and last(n.get("path", "")) == "select" and "tokens" in n:
            toks = []

            def flat(ts):
                for t in ts:
                    if t["t"] == "g":
                        flat(t["c"])
                    else:
                        toks.append(t["v"])

            flat(n["tokens"])
            s = "".join(toks)
            for m in re.finditer(r"Token::(\w+)=>ast::BinOp::(\w+)", s):
                out[m.group(1)] = m.group(2)
    if len(out) < 10:
        raise AnchorMissing("select! { Token::X => ast::BinOp::Y } table in anonymous_binop.rs")
    return out


def r_ops(sh, rep, tabs):
    ops = _binops(sh)
    fmt, m = _fmt_table(sh)
    lex = _lex_table(sh)
    disp = _tok_display(sh)
    layers = _layer_parser(sh)
    anon = _anon_table(sh)
    tabs.update(ops=ops, fmt=fmt, layers=layers)
    rep.touched(FMT, "Documentable for &BinOp")
    rep.touched(LEX, "lexer")
    rep.touched(PEX, "pure_expression")
    rep.touched(ANB, "anonymous_binop::parser")
    lex_by_text = {}
    for text, tok, n in lex:
        lex_by_text.setdefault(text, tok)
    parse = {}
    for _, pairs, _, _, _ in layers:
        parse.update(pairs)
    for b in ops:
        t = fmt.get(b)
        if t is None:
            rep.bad("R13-OPS", "%s#formatter" % b, sh.loc(FMT, m), "the formatter has no text for BinOp::%s" % b)
            continue
        tok = lex_by_text.get(t)
        rep.check(tok is not None, "R13-OPS", "%s#lexer-reads-formatter-text" % b, LEX, "the lexer has no token for `%s`, the text the formatter prints for BinOp::%s" % (t, b), sample={"text": t, "token": tok})
        if tok is None:
            continue
        # longest-match discipline: no earlier lexer alternative is a proper prefix of this text
        idx = [i for i, (tx, tk, _) in enumerate(lex) if tx == t][0]
        shadow = [tx for tx, tk, _ in lex[:idx] if t.startswith(tx) and tx != t]
        rep.check(not shadow, "R13-OPS", "%s#lexer-longest-match" % b, sh.loc(LEX, lex[idx][2]), "the lexer tries `%s` before `%s`: the operator text is split into other tokens" % (shadow, t), nontrivial=len(t) > 1)
        rep.check(disp.get(tok) == t, "R13-OPS", "%s#token-display" % b, TOK, "Token::%s displays as `%s` but is lexed from `%s`" % (tok, disp.get(tok), t), sample={"token": tok})
        rep.check(parse.get(tok) == b, "R13-OPS", "%s#layer-parser-inverts" % b, PEX, "formatter prints BinOp::%s as `%s`, lexed as Token::%s, which the expression parser turns into BinOp::%s" % (b, t, tok, parse.get(tok)), sample={"token": tok, "parsed": parse.get(tok)})
        rep.check(anon.get(tok) == b, "R13-OPS", "%s#anonymous-binop-parser-inverts" % b, ANB, "Token::%s (`%s`) is turned into BinOp::%s by the anonymous-operator parser; the formatter printed it for BinOp::%s" % (tok, t, anon.get(tok), b), sample={"parsed": anon.get(tok)})
    # the formatter's table is injective
    inv = {}
    for b, t in fmt.items():
        inv.setdefault(t, []).append(b)
    for t, bs in inv.items():
        if len(bs) > 1:
            rep.bad("R13-OPS", "formatter#injective#%s" % t, sh.loc(FMT, m), "operators %s are all printed as `%s`" % (bs, t))


def _precedence(sh):
    f = find_method(sh.file(AST), "BinOp", "precedence")
    m = next(matches_in(f["body"]))
    out = {}
    for v, arm, alt in arm_table(m):
        if v and arm["body"]["k"] == "Lit":
            out[v] = int(arm["body"]["v"])
    return out


def r_prec(sh, rep, tabs):
    prec = _precedence(sh)
    layers = tabs.get("layers") or _layer_parser(sh)
    rep.touched(AST, "BinOp::precedence")
    prev = None
    for name, pairs, fold, st, lits in layers:
        ps = {prec.get(b) for b in pairs.values()}
        rep.check(len(ps) == 1 and None not in ps, "R13-PREC", "layer#%s#one-precedence" % name, sh.loc(PEX, st), "operators %s are parsed in one layer (`%s`) but have precedences %s: the formatter would add or drop parentheses between them" % (sorted(pairs.values()), name, sorted(str(p) for p in ps)), sample={"ops": sorted(pairs.values()), "precedence": sorted(str(p) for p in ps)})
        p = next(iter(ps)) if len(ps) == 1 else None
        if prev is not None and p is not None:
            rep.check(p < prev[1], "R13-PREC", "layer#%s#binds-looser-than-%s" % (name, prev[0]), sh.loc(PEX, st), "the parser nests `%s` outside `%s` (so it binds looser) but BinOp::precedence gives %s vs %s: the formatter omits parentheses the parser needs, or the other way round" % (name, prev[0], p, prev[1]))
        if p is not None:
            prev = (name, p)


def r_assoc(sh, rep, tabs):
    layers = tabs.get("layers") or _layer_parser(sh)
    right = set()
    for name, pairs, fold, st, lits in layers:
        # direction read off the fold idiom and the BinOp literal inside it
        if fold == "right":
            right |= set(pairs.values())
    f = find_method(sh.file(FMT), "Formatter", "bin_op")
    rep.touched(FMT, "Formatter::bin_op")
    sides = [c for c in walk(f["body"]) if c["k"] == "MethodCall" and c["m"] == "operator_side" or (c["k"] == "Call" and (call_name(c) or "").endswith("operator_side"))]
    if len(sides) != 2:
        raise AnchorMissing("two operator_side calls in bin_op")
    sides.sort(key=lambda c: (c["s"][0], c["s"][1]))
    res = []
    for c in sides:
        arg = c["args"][-1]
        ifs = [n for n in walk(arg) if n["k"] == "If"]
        if not ifs:
            raise AnchorMissing("if matches!(name, ..) in operator_side argument")
        cond = ifs[0]["cond"]
        members = set()
        if cond["k"] == "Macro" and "pat" in cond:
            members = {last(pat_head(a)) for a in pat_alts(cond["pat"])}
        then_sub = "saturating_sub" in sh.nsrc(FMT, ifs[0]["then"])
        else_sub = "saturating_sub" in sh.nsrc(FMT, ifs[0].get("else", {"s": [0, 0, 0, 0]})) if "else" in ifs[0] else False
        res.append((members, then_sub, else_sub, c))
    (lm, lthen, lelse, lc), (rm, rthen, relse, rc) = res
    rep.check(lm == right and rm == right, "R13-ASSOC", "bin_op#right-assoc-set", sh.loc(FMT, f), "the formatter treats %s / %s as right-associative, the parser folds %s to the right: for the others `a op (b op c)` and `(a op b) op c` are printed alike" % (sorted(lm), sorted(rm), sorted(right)), sample={"formatter": sorted(lm), "parser": sorted(right)})
    # for a right-associative operator the LEFT operand of equal precedence needs parentheses (its admissible precedence is lowered), for the others the RIGHT operand
    rep.check(lthen and not lelse, "R13-ASSOC", "bin_op#left-side-lowered-for-right-assoc", sh.loc(FMT, lc), "left operand: the admissible precedence must be lowered exactly for the right-associative set")
    rep.check(relse and not rthen, "R13-ASSOC", "bin_op#right-side-lowered-for-left-assoc", sh.loc(FMT, rc), "right operand: the admissible precedence must be lowered exactly for the left-associative operators")


def r_variants(sh, rep):
    targets = [("expr", EXP, "UntypedExpr"), ("pattern", AST, "Pattern"), ("annotation", AST, "Annotation"), ("definition", AST, "Definition")]
    fj = sh.file(FMT)
    for name, rel, enum in targets:
        f = find_method(fj, "Formatter", name)
        en = find_enum(sh.file(rel), enum)
        variants = {v["name"] for v in en["variants"]}
        m = find_enum_match(f, enum, variants, min_hits=3)
        if m is None:
            raise AnchorMissing("match over %s in Formatter::%s" % (enum, name))
        rep.touched(FMT, "Formatter::" + name)
        explicit, catch = set(), None
        for a in m["arms"]:
            for alt in pat_alts(a["pat"]):
                h = pat_head(alt)
                if h is None and "guard" not in a:
                    catch = a
                elif h and last(h) in variants:
                    explicit.add(last(h))
        missing = sorted(variants - explicit)
        rep.check(catch is None and not missing, "R13-VARIANTS", "Formatter::%s#total" % name, sh.loc(FMT, m), "Formatter::%s %s: a syntax form is printed by a fallback that cannot know its concrete syntax" % (name, ("has a catch-all arm swallowing %s" % missing) if catch is not None else ("has no arm for %s" % missing)), sample={"variants": len(variants)})


# ---------------------------------------------------------------------------------------------------------
# R13-ESC: the formatter's escaping of string literals is the inverse of the lexer's escape table, per character
# ---------------------------------------------------------------------------------------------------------
def _lexer_escapes(sh):
    """{escape letter: character it denotes} from `let escape = just('\\\\').ignore_then(just(..).or(..).or(just('n').to('\\n'))..)`"""
    f = None
    for q, fn in all_fns(sh.file(LEX)):
        for n in walk(fn["body"]) if "body" in fn else []:
            if n["k"] == "Local" and n["pat"]["k"] == "Ident" and n["pat"]["name"] == "escape" and n.get("init") is not None:
                f = n["init"]
    if f is None:
        raise AnchorMissing("let escape = .. in lexer.rs")
    out = {}
    for c in walk(f):
        if c["k"] == "Call" and call_name(c) == "just" and c["args"] and c["args"][0]["k"] == "Lit" and c["args"][0].get("lk") == "char":
            out.setdefault(c["args"][0]["v"], c["args"][0]["v"])
    for c in walk(f):
        if c["k"] == "MethodCall" and c["m"] == "to" and c["recv"]["k"] == "Call" and call_name(c["recv"]) == "just" and c["args"] and c["args"][0]["k"] == "Lit":
            out[c["recv"]["args"][0]["v"]] = c["args"][0]["v"]
    # the leading just('\\') is the escape introducer itself, and also an escapable character (`\\\\`)
    return out


def r_esc(sh, rep):
    lex = _lexer_escapes(sh)  # letter -> char
    f = find_fn(sh.file(FMT), "escape")
    rep.touched(FMT, "format::escape")
    ms = [m for m in matches_in(f["body"]) if any(a["pat"]["k"] == "PLit" and a["pat"]["e"].get("lk") == "char" for a in m["arms"])]
    if not ms:
        raise AnchorMissing("match on a character in format::escape")
    m = ms[0]
    var = sh.nsrc(FMT, m["e"])
    table = {}
    for a in m["arms"]:
        if a["pat"]["k"] != "PLit":
            # default arm: the character itself, unchanged
            body = sh.nsrc(FMT, a["body"])
            rep.check(body in ("vec![%s]" % var, "escaped.push(%s)" % var, "%s.to_string()" % var, "vec![c]"), "R13-ESC", "escape#default-arm-is-identity", sh.loc(FMT, a), "every other character must be printed unchanged (found `%s`)" % body[:40], nontrivial=False)
            continue
        ch = a["pat"]["e"]["v"]
        nested = [n for n in walk(a["body"]) if n["k"] in ("Match", "If")]
        rep.check(not nested, "R13-ESC", "escape#%r#context-free" % ch, sh.loc(FMT, a), "the escape of %r depends on something besides the character itself (a nested %s in the arm): escaping must be a per-character function, otherwise a literal such as a backslash followed by `n` is printed as an escape sequence it does not contain" % (ch, nested[0]["k"].lower() if nested else ""))
        lits = [n["v"] for n in walk(a["body"]) if n["k"] == "Lit" and n.get("lk") in ("char", "str")]
        out = "".join(lits)
        if var in [n["p"] for n in walk(a["body"]) if n["k"] == "Path"]:
            out += ch
        table[ch] = out
    for letter, ch in sorted(lex.items()):
        want = "\\" + letter
        got = table.get(ch)
        rep.check(got == want, "R13-ESC", "escape#%r#inverse-of-lexer" % ch, sh.loc(FMT, m), "the lexer reads `%s` as %r, so the formatter must print %r as `%s`; it prints `%s`" % (want, ch, ch, want, got), sample={"printed": got})
    extra = sorted(set(table) - set(lex.values()))
    rep.check(not extra, "R13-ESC", "escape#no-escape-the-lexer-cannot-read", sh.loc(FMT, m), "the formatter escapes %r, for which the lexer has no escape sequence" % extra, nontrivial=False)


# ---------------------------------------------------------------------------------------------------------
# R13-COMMENTS: comments taken off the cursor are printed on every path
# ---------------------------------------------------------------------------------------------------------
POPPERS = {"pop_comments", "pop_doc_comments", "pop_empty_lines"}


def _mentions(node, name):
    return any(n["k"] == "Path" and n["p"] == name for n in walk(node)) or any(n["k"] == "Macro" and "tokens" in n and _tok_has(n["tokens"], name) for n in walk(node))


def _used_on_every_path(stmts, name):
    """is `name` mentioned on every path through the statement list? straight-line mention -> yes; a branch counts only if
    every alternative mentions it (or returns its own value built from it)"""
    for st in stmts:
        e = st.get("e") if st["k"] == "ExprStmt" else st.get("init") if st["k"] == "Local" else st
        if e is None:
            continue
        if e["k"] == "If":
            if _mentions(e["cond"], name):
                return True
            t = _used_on_every_path(e["then"]["stmts"], name)
            el = e.get("else")
            if el is None:
                # an early `return` inside the branch is a path of its own: it must have used the name
                if not t and any(x["k"] == "Return" for x in walk(e["then"])):
                    return False
                continue
            el_ok = _used_on_every_path(el["stmts"], name) if el["k"] == "Block" else _used_on_every_path([{"k": "ExprStmt", "e": el}], name)
            if t and el_ok:
                return True
            if t != el_ok:
                return False
            continue
        if e["k"] == "Match":
            if _mentions(e["e"], name):
                return True
            res = []
            for a in e["arms"]:
                b = a["body"]
                res.append(_used_on_every_path(b["stmts"], name) if b["k"] == "Block" else _mentions(b, name))
            if all(res):
                return True
            if any(res):
                return False
            continue
        if _mentions(e, name):
            return True
    return False


def r_comments(sh, rep):
    fj = sh.file(FMT)
    n = 0
    for q, f in all_fns(fj):
        if "body" not in f:
            continue

        def blocks(node):
            for b in walk(node):
                if b["k"] == "Block":
                    yield b

        for b in blocks(f["body"]):
            for i, st in enumerate(b["stmts"]):
                if st["k"] == "Local" and st["pat"]["k"] == "Ident" and st.get("init") is not None and st["init"]["k"] == "MethodCall" and st["init"]["m"] in ("pop_comments", "pop_doc_comments"):
                    name = st["pat"]["name"]
                    if name.startswith("_"):
                        continue
                    n += 1
                    ok = _used_on_every_path(b["stmts"][i + 1 :], name)
                    rep.check(ok, "R13-COMMENTS", "%s#%s#printed-on-every-path" % (q, name), sh.loc(FMT, st), "%s takes the comments before this position off the cursor (`let %s = self.%s(..)`) but a path through the following code never uses `%s`: those comments are dropped from the formatted program and, the cursor having advanced, are not printed anywhere else" % (q, name, st["init"]["m"], name), sample={"popper": st["init"]["m"]})
    return n


# ---------------------------------------------------------------------------------------------------------
# R13-ORDINAL: printer and lexer agree on the ordinal suffix of every tuple position
# ---------------------------------------------------------------------------------------------------------
def _ordinal_suffix_calls(sh, rel, node):
    """`Ordinal(..).suffix()` / `Ordinal::<T>(..).suffix()` calls"""
    out = []
    for n in walk(node):
        if n.get("k") == "MethodCall" and n["m"] == "suffix" and n["recv"].get("k") == "Call" and re.sub(r"::<.*>$", "", sh.nsrc(rel, n["recv"]["f"])).split("::")[-1] == "Ordinal":
            out.append(n)
    return out


def r_ordinal(sh, rep):
    """The lexer accepts `.Nxx` only when xx is the English ordinal suffix of N as computed by ordinal::Ordinal::suffix
    (11th, 12th, 13th, 111th, but 21st, 22nd). The formatter prints TupleIndex from the bare index, so it must compute
    the suffix with that same function: any private re-implementation has to get the teens right to stay parseable."""
    lex = [n for q, f in all_fns(sh.file(LEX)) if "body" in f for n in _ordinal_suffix_calls(sh, LEX, f["body"])]
    rep.check(len(lex) >= 1, "R13-ORDINAL", "lexer#validates-with-Ordinal::suffix", LEX, "the lexer no longer validates tuple-index suffixes with ordinal::Ordinal::suffix (anchor): the sibling rule below has no reference", sample={"calls": len(lex)})
    f = find_method(sh.file(FMT), "Formatter", "expr")
    en = find_enum(sh.file(EXP), "UntypedExpr")
    m = find_enum_match(f, "UntypedExpr", {v["name"] for v in en["variants"]}, min_hits=3)
    arms = [arm for v, arm, alt in arm_table(m) if v == "TupleIndex"] if m else []
    if not arms:
        raise AnchorMissing("TupleIndex arm of Formatter::expr")
    mine = _ordinal_suffix_calls(sh, FMT, arms[0]["body"])
    # the suffix may come from a helper: follow one level of free-function / method calls defined in format.rs
    if not mine:
        for c in walk(arms[0]["body"]):
            nm = last(call_name(c) or "") if c.get("k") == "Call" else (c["m"] if c.get("k") == "MethodCall" else None)
            if nm:
                for q, g in all_fns(sh.file(FMT)):
                    if q.split("::")[-1] == nm and "body" in g:
                        mine += _ordinal_suffix_calls(sh, FMT, g["body"])
    rep.check(bool(mine), "R13-ORDINAL", "formatter#TupleIndex#same-suffix-function", sh.loc(FMT, arms[0]), "Formatter::expr prints a tuple index without ordinal::Ordinal::suffix, the function the lexer checks the suffix against: positions whose suffix the two compute differently (11th, 12th, 13th, 111th …) are printed in a form the lexer rejects", sample={"calls": len(mine)})


# ---------------------------------------------------------------------------------------------------------
# R13-ELIDE: what the formatter omits must be what the parser re-creates
# ---------------------------------------------------------------------------------------------------------
def _ctor_variants(node, enum):
    return {last(n["p"]) for n in walk(node) if n.get("k") in ("Struct", "Path", "Call") and (n.get("p") or (n["f"].get("p") if n.get("k") == "Call" and n["f"].get("k") == "Path" else "") or "").startswith(enum + "::") for n in [n if n.get("p") else n["f"]]}


def r_elide(sh, rep):
    """Formatter::definition_validator leaves the `else` handler out when all purposes are handled and the handler
    `is_default_fallback()`; the parser then puts UntypedValidator::default_fallback() back. Round-trip needs the predicate
    to accept nothing but what default_fallback() builds: body = UntypedExpr::fail(None, ..) = a bare ErrorTerm. A
    predicate that also accepts `fail @"reason"` (Trace) deletes the user's handler and its message."""
    fa = sh.file(AST)
    pred = find_method(fa, "UntypedFunction", "is_default_fallback")
    dflt = find_method(fa, "UntypedValidator", "default_fallback")
    rep.touched(AST, "UntypedFunction::is_default_fallback")
    rep.touched(AST, "UntypedValidator::default_fallback")
    # what the parser synthesises: the `body:` initialiser of default_fallback
    body_init = None
    for n in walk(dflt["body"]):
        if n.get("k") == "Struct" and last(n["p"]) == "Function":
            for fi in n["fields"]:
                if fi["name"] == "body":
                    body_init = fi["e"]
    if body_init is None:
        raise AnchorMissing("`body:` initialiser in UntypedValidator::default_fallback")
    synth = set()
    if body_init.get("k") == "Call" and last(call_name(body_init) or "") == "fail" and body_init["args"] and sh.nsrc(AST, body_init["args"][0]) == "None":
        ff = find_method(sh.file(EXP), "UntypedExpr", "fail")
        # the branch taken for reason = None: the else of `if let Some(..) = reason`
        for n in walk(ff["body"]):
            if n.get("k") == "If" and n.get("else") is not None and "Some" in sh.nsrc(EXP, n["cond"]):
                top = n["else"]
                synth = {last(x["p"]) for x in walk(top) if x.get("k") in ("Struct", "Path") and (x.get("p") or "").startswith("UntypedExpr::")}
    else:
        synth = {last(x["p"]) for x in walk(body_init) if x.get("k") in ("Struct", "Path") and (x.get("p") or "").startswith("UntypedExpr::")}
    rep.check(len(synth) == 1, "R13-ELIDE", "default_fallback#body-variant", sh.loc(AST, dflt), "could not read the single expression form default_fallback() gives the synthesised handler's body (found %s)" % sorted(synth), sample={"synthesised": sorted(synth)})
    accepted = set()
    tests = [n for n in walk(pred["body"]) if n.get("k") == "Macro" and n.get("path") == "matches" and n.get("e") is not None and sh.nsrc(AST, n["e"]).endswith("self.body")]
    for t in tests:
        for alt in pat_alts(t["pat"]):
            h = pat_head(alt)
            accepted.add(last(h) if h else "_")
    rep.check(len(tests) == 1 and accepted == synth, "R13-ELIDE", "is_default_fallback#body-accepts-exactly-the-synthesised-form", sh.loc(AST, pred), "is_default_fallback accepts bodies %s but the parser synthesises %s: a handler the formatter drops is re-created as something else" % (sorted(accepted), sorted(synth)), sample={"accepted": sorted(accepted), "synthesised": sorted(synth)})
    src = sh.nsrc(AST, pred["body"])
    rep.check("ArgName::Discarded" in src and "VALIDATOR_ELSE" in src, "R13-ELIDE", "is_default_fallback#argument-and-name", sh.loc(AST, pred), "is_default_fallback must also require the single discarded argument and the `else` name that default_fallback() builds")
    # the elision site itself: the only use of the predicate in the formatter guards the printing of the fallback
    uses = [n for q, f in all_fns(sh.file(FMT)) if "body" in f for n in walk(f["body"]) if n.get("k") == "MethodCall" and n["m"] == "is_default_fallback"]
    rep.check(len(uses) == 1, "R13-ELIDE", "formatter#one-elision-site", sh.loc(FMT, uses[0]) if uses else FMT, "expected exactly one elision decision on is_default_fallback in the formatter (found %d)" % len(uses), nontrivial=False)


# ---------------------------------------------------------------------------------------------------------
# R13-NODROP: adaptors that can drop list elements inside the formatter are enumerated and reviewed
# ---------------------------------------------------------------------------------------------------------
DROPPERS = {"filter", "filter_map", "dedup", "dedup_by", "dedup_by_key", "unique", "unique_by", "take", "take_while", "skip_while", "step_by", "truncate", "retain", "skip"}
NODROP_REVIEWED = {
    ("Formatter::module", "filter"): (1, "drops empty *documents* (sections with nothing to print), not syntax elements"),
    ("comments_before", "skip_while"): (1, "skips leading empty-line markers before the first comment; comments themselves are kept"),
    ("Formatter::pipeline", "skip"): (1, "`first()` is printed separately just above; skip(1) walks the rest"),
    ("Formatter::pipe_capture_right_hand_side", "skip"): (1, "the first argument is the pipe's unlabelled hole (R13-SUGAR checks `label: None`), elided by construction of a capture; the parser re-inserts it"),
}


def r_nodrop(sh, rep):
    """Every list in the syntax tree (imports, arguments, clauses, fields …) must be printed element for element. The
    formatter builds documents with iterator chains; an adaptor that can drop elements (filter, dedup_by, take, skip …)
    in such a chain is either one of the reviewed idioms below or a place where formatting loses syntax."""
    fj = sh.file(FMT)
    per = {}
    where = {}
    for q, f in all_fns(fj):
        if "body" not in f:
            continue
        for n in walk(f["body"]):
            if n.get("k") == "MethodCall" and n["m"] in DROPPERS:
                per[(q, n["m"])] = per.get((q, n["m"]), 0) + 1
                where.setdefault((q, n["m"]), n)
    for key, cnt in sorted(per.items()):
        allowed, why = NODROP_REVIEWED.get(key, (0, ""))
        rep.check(cnt <= allowed, "R13-NODROP", "%s#%s" % key, sh.loc(FMT, where[key]), "%s uses `.%s(..)` %d time(s), %d reviewed: an element-dropping adaptor in a printer — `%s` — loses syntax unless the parser is known to put the dropped elements back" % (key[0], key[1], cnt, allowed, sh.nsrc(FMT, where[key])[-90:]), why_ok=why, sample={"fn": key[0], "adaptor": key[1], "count": cnt})
    for key, (allowed, why) in NODROP_REVIEWED.items():
        if key not in per:
            rep.info("R13-NODROP reviewed entry %s no longer present (informational)" % (key,))


# ---------------------------------------------------------------------------------------------------------
# R13-CAPTURE / R13-POSTFIX / R13-SUGAR: printer clauses behind defects found on the pinned tree
# ---------------------------------------------------------------------------------------------------------
def r_capture(sh, rep):
    """The parser names the parameter of a capture `f(_, 2)` CAPTURE_VARIABLE + "__" + index + …; printer and AST helpers
    recognise a hole by that name. A user identifier may *contain* the marker (`x_capture`), it cannot *start* with it
    (a leading underscore is a discard and cannot be referenced): every recogniser must test the prefix. Sibling rule
    over all uses of the constant."""
    n = 0
    for rel in sh.files():
        if not rel.startswith("crates/aiken-lang/src/") or "/tests/" in rel or rel.endswith("tests.rs"):
            continue
        for q, f in all_fns(sh.file(rel)):
            if "body" not in f:
                continue
            for c in walk(f["body"]):
                if c.get("k") == "MethodCall" and c["args"] and any(x.get("k") == "Path" and last(x["p"]) == "CAPTURE_VARIABLE" for x in walk(c["args"][0])) and c["m"] in ("contains", "starts_with", "ends_with", "eq", "find", "matches"):
                    n += 1
                    rep.check(c["m"] == "starts_with", "R13-CAPTURE", "%s#%s#recognises-by-prefix" % (rel.split("/")[-1], q), sh.loc(rel, c), "%s recognises a capture hole with `.%s(CAPTURE_VARIABLE)`: any identifier containing the marker (x_capture, my_capture_list) is treated as a hole — the formatter prints it as `_capture`, which no longer parses" % (q, c["m"]), sample={"test": c["m"]})
    if n < 3:
        rep.bad("R13-CAPTURE", "recognisers", "crates/aiken-lang/src/ast.rs", "only %d recogniser(s) of CAPTURE_VARIABLE found, 3 confirmed by hand (anchor)" % n)


def r_postfix(sh, rep):
    """`.field`, `.1st` and `(args)` bind tighter than every operator; the parser drops parentheses, so the printer must put
    them back when the thing a postfix form applies to is an operator expression (BinOp, UnOp, PipeLine). Sibling rule
    over the three postfix sites: the container is printed by code that mentions all three operator forms."""
    fj = sh.file(FMT)
    f = find_method(fj, "Formatter", "expr")
    en = find_enum(sh.file(EXP), "UntypedExpr")
    m = find_enum_match(f, "UntypedExpr", {v["name"] for v in en["variants"]}, min_hits=3)
    if m is None:
        raise AnchorMissing("match over UntypedExpr in Formatter::expr")
    sites = []
    for v, arm, alt in arm_table(m):
        if v == "FieldAccess":
            sites.append(("FieldAccess", "container", arm["body"]))
        if v == "TupleIndex":
            sites.append(("TupleIndex", "tuple", arm["body"]))
    call = find_method(fj, "Formatter", "call")
    sites.append(("Call", "fun", call["body"]))
    OPS = ("PipeLine", "BinOp", "UnOp")
    for name, var, body in sites:
        text = sh.nsrc(FMT, body)
        # helpers the site hands the container to
        for c in walk(body):
            if c.get("k") == "MethodCall" and sh.nsrc(FMT, c["recv"]) == "self" and c["args"] and any(x.get("k") == "Path" and x["p"] == var for x in walk(c["args"][0])) and c["m"] != "expr":
                g = find_method(fj, "Formatter", c["m"])
                text += sh.nsrc(FMT, g["body"])
        missing = [o for o in OPS if "UntypedExpr::" + o not in text]
        rep.check(not missing, "R13-POSTFIX", "%s#container-parenthesised" % name, sh.loc(FMT, body), "the %s printer prints `%s` without parenthesising %s: `(x + y).1st` / `(x |> g)(1)` / `(x |> g).foo` come out without their parentheses and re-parse as a different program" % (name, var, " / ".join(missing)), sample={"missing": missing})


def r_sugar(sh, rep):
    fj = sh.file(FMT)
    a = find_method(fj, "Formatter", "assignment")
    rep.touched(FMT, "Formatter::assignment")
    # every arm of the final match that prints no assignment symbol must exclude back-passing in its guard
    ms = [m for m in matches_in(a["body"]) if "patterns.first()" in sh.nsrc(FMT, m["e"])]
    if not ms:
        raise AnchorMissing("match patterns.first() in Formatter::assignment")
    sym = [n["pat"]["name"] for n in walk(a["body"]) if n.get("k") == "Local" and n["pat"].get("k") == "Ident" and n.get("init") is not None and "is_backpassing" in sh.nsrc(FMT, n["init"])]
    bad = []
    for arm in ms[0]["arms"]:
        body = sh.nsrc(FMT, arm["body"])
        uses_symbol = any(re.search(r"(?<![\w.])%s\b" % re.escape(x), body) for x in sym)
        if not uses_symbol:
            g = sh.nsrc(FMT, arm["guard"]) if arm.get("guard") else ""
            if "is_backpassing" not in g:
                bad.append(arm)
    rep.check(bool(sym) and not bad, "R13-SUGAR", "assignment#symbol-free-form-excludes-backpassing", sh.loc(FMT, bad[0]) if bad else sh.loc(FMT, ms[0]), "Formatter::assignment has a form that prints neither `=` nor `<-` (the `expect e` shorthand) and its guard does not exclude back-passing: `expect True <- g(x)` is printed as `expect g(x)` and the continuation is no longer passed to g", sample={"symbol_binding": sym})
    p = find_method(fj, "Formatter", "pipe_capture_right_hand_side")
    rep.touched(FMT, "Formatter::pipe_capture_right_hand_side")
    tests = [n for n in walk(p["body"]) if n.get("k") == "Macro" and n.get("path") == "matches" and n.get("pat") is not None and "args.first()" in sh.nsrc(FMT, n["e"])]
    ok = False
    for t in tests:
        for x in walk(t["pat"]):
            if x.get("k") == "PStruct" and last(x.get("p", "")) == "CallArg":
                for fp in x.get("fields", []):
                    if fp.get("name") == "label" and "None" in json.dumps(fp.get("pat") or {}):
                        ok = True
    rep.check(bool(tests) and ok, "R13-SUGAR", "pipe#elided-hole-is-unlabelled", sh.loc(FMT, tests[0]) if tests else sh.loc(FMT, p), "the pipe printer drops a first-position hole whatever its label: `x |> g(b: _, a: 2)` becomes `x |> g(a: 2)`, which passes x as the first positional argument instead of as `b`")


def r_sites(sh, rep):
    """Narrow clauses, one site each (each answers a change a mutation author made; all three are necessary for format ->
    parse to be the identity):
    (a) the formatter squashes any run of blank lines into one, so whether `(`, `-` or `|>` starts a new statement must
        not depend on how many blank lines precede it: the lexer's `previous token was a newline` flag is set by NewLine and
        by EmptyLine alike;
    (b) a parameter `label name` prints its label whenever it differs from the name, for named and for discarded names;
    (c) `if x is p: T` may be printed `if x is T` only when p is the variable x itself."""
    lf = find_fn(sh.file(LEX), "run")
    rep.touched(LEX, "lexer::run")
    flags = [n for n in walk(lf["body"]) if n.get("k") == "Local" and n["pat"].get("k") == "Ident" and "newline" in n["pat"]["name"] and n.get("init") is not None and "Token::" in sh.nsrc(LEX, n["init"])]
    ok = bool(flags) and all("Token::NewLine" in sh.nsrc(LEX, n["init"]) and "Token::EmptyLine" in sh.nsrc(LEX, n["init"]) for n in flags)
    rep.check(ok, "R13-SITES", "lexer#blank-lines-are-newlines", sh.loc(LEX, flags[0]) if flags else sh.loc(LEX, lf), "the lexer's newline flag does not treat Token::NewLine and Token::EmptyLine alike: after formatting (which turns two blank lines into one) a line starting with `-` or `(` is glued to the previous statement")
    imp = [it for _, it in items(sh.file(FMT)) if it["k"] == "Impl" and re.search(r"(^|[^\w])ArgName$", it["self_ty"].strip()) and "Documentable" in (it.get("trait") or "")]
    fns = [f for i in imp for f in i["items"] if f.get("k") == "Fn" and f["name"] == "to_doc"]
    if not fns:
        raise AnchorMissing("Documentable::to_doc for &ArgName")
    m = next(matches_in(fns[0]["body"]), None)
    bad = []
    if m is not None:
        for a in m["arms"]:
            binds = {x["name"] for x in walk(a["pat"]) if x.get("k") == "Ident"} | {fp.get("name") for x in walk(a["pat"]) if x.get("k") == "PStruct" for fp in x.get("fields", [])}
            if "label" not in binds or not re.search(r"(?<![\w.])label\b", sh.nsrc(FMT, a["body"])):
                bad.append(sorted(last(pat_head(x) or "_") for x in pat_alts(a["pat"])))
    rep.check(m is not None and not bad, "R13-SITES", "ArgName#every-kind-prints-its-label", sh.loc(FMT, fns[0]), "the printer of argument names has an arm (%s) that ignores the label: `fee _fee: Int` loses its external name and callers using `fee:` no longer type-check" % bad)
    ib = find_method(sh.file(FMT), "Formatter", "if_branch")
    sug = [n for n in walk(ib["body"]) if n.get("k") == "Local" and n["pat"].get("k") == "Ident" and "sugar" in n["pat"]["name"] and n.get("init") is not None and n["init"].get("k") == "Macro"]
    ok = False
    if sug:
        mac = sug[0]["init"]
        src = sh.nsrc(FMT, mac)
        names = [x["name"] for x in walk(mac.get("pat") or {}) if x.get("k") == "Ident"]
        g = mac.get("guard") or {}
        ok = len(names) >= 2 and g.get("k") == "Binary" and g.get("op") == "==" and g["l"].get("k") == "Path" and g["r"].get("k") == "Path" and {g["l"]["p"], g["r"]["p"]} <= set(names) and g["l"]["p"] != g["r"]["p"]
    rep.check(bool(sug) and ok, "R13-SITES", "if_branch#sugar-needs-same-name", sh.loc(FMT, sug[0]) if sug else sh.loc(FMT, ib), "`if x is p: T` is printed as `if x is T` without testing that the pattern is the variable x itself: `if datum is owner: Owner { owner.key }` loses the binding of `owner`")
