"""C14 — Trace settings never change what a program decides (static necessary clauses; DESIGN §3 C14)."""
import re
from .lib import *
from . import cast_rules

NEEDS_FLOW = False
EXPLANATION = (
    "The trace level may only decide whether code is wrapped in a trace and with which message. Decided: the functions that read the level are the "
    "reviewed ones; at each reader the level-selected alternatives are equal after erasing trace wrappers (TypedExpr::Trace{then: X} -> X, "
    "AirTree::trace(_, _, X) -> X, .delayed_trace(_) -> identity) and message strings, plus `if v {True} else {False}` = v for the `?` operator; "
    "Tracing::trace_level is a total 3x2 table returning the stored level or Silent; the only branch on `otherwise.is_some()` selects between two "
    "decoders whose per-kind Data classes agree (R01-CAST columns)."
)
LEVEL_NOTE = "purity of message expressions (a trace argument that aborts is evaluated only when tracing is on) and preservation of the equivalence by the optimiser (C02) are not decided"

TE = "crates/aiken-lang/src/tipo/expr.rs"
GEN = "crates/aiken-lang/src/gen_uplc.rs"
BLD = "crates/aiken-lang/src/gen_uplc/builder.rs"
AST = "crates/aiken-lang/src/ast.rs"

# reviewed readers of the trace level: (file, function) -> what the level may influence there
READERS = {
    (AST, "Tracing::trace_level"): "definition of the level table",
    (AST, "<TraceLevel as Display>::fmt"): "prints the level's name",
    (AST, "<TraceLevel as fmt::Display>::fmt"): "prints the level's name",
    (TE, "ExprTyper::infer_trace_if_false"): "`?` operator: message only (R14-ERASE)",
    (TE, "ExprTyper::infer_trace_arg"): "emits a warning about a non-string compact label; no effect on the typed tree",
    (TE, "ExprTyper::infer_trace"): "trace / todo / fail: wraps `then` or not (R14-ERASE)",
    (GEN, "CodeGenerator::new"): "stores Tracing::trace_level(true)",
    (GEN, "CodeGenerator::generate"): "hands the level to wrap_validator_condition",
    (GEN, "CodeGenerator::build"): "expect failure message (R14-ERASE, R14-DUAL)",
    (BLD, "wrap_validator_condition"): "`Validator returned false` trace (R14-ERASE)",
    ("crates/aiken-lang/src/test_framework.rs", "UnitTest::run"): "log rendering of the test report only",
    ("crates/aiken-lang/src/test_framework.rs", "Test::unit_test"): "log rendering of the test report only",
}


def run(ctx, rep):
    sh = ctx.shape
    rep.rule("R14-READERS", "the trace level is read only in the reviewed functions", floor=7)
    rep.rule("R14-LEVEL", "Tracing::trace_level is total over 3 kinds x 2 contexts and returns the stored level or Silent", floor=3)
    rep.rule("R14-ERASE", "at every reader the level-selected alternatives are equal modulo trace wrappers and message text", floor=6)
    rep.rule("R14-MSG", "the user expressions a `trace` evaluates (label, arguments) are the same at every level", floor=2)
    rep.guarded("R14-MSG", lambda: r_msg(sh, rep))
    rep.rule("R14-DUAL", "the only branch on `otherwise.is_some()` chooses between two decoders that agree per type kind (R01-CAST)", floor=2)
    rep.guarded("R14-READERS", lambda: r_readers(sh, rep))
    rep.guarded("R14-LEVEL", lambda: r_level(sh, rep))
    rep.guarded("R14-ERASE", lambda: r_erase(sh, rep))
    rep.guarded("R14-DUAL", lambda: r_dual(sh, rep))
    rep.rule("R14-DIAG", "the prelude code that renders a trace argument (`diagnostic` and what it calls) cannot abort: no fail/todo/expect, every partial builtin applied under a reviewed guard, each un*Data in its own chooseData branch", floor=12)
    rep.guarded("R14-DIAG", lambda: r_diag(sh, rep))
    # traced and untraced builds of one `expect` have different shapes (chooseData dispatch vs un*Data application): an optimiser
    # decision that is sound only for value forms keeps both behaviours equal; one widened to applications does not (C02's rule, re-run here)
    from . import c02
    rep.rule("R02-VALUEFORM", "the inliner's inline / drop decisions admit only CEK value forms (shared with C02)", floor=2)
    rep.guarded("R02-VALUEFORM", lambda: c02.r_valueform(sh, rep))


def _reads_level(node, sh, rel):
    for n in walk(node):
        if n["k"] in ("PPath", "Path", "PTupleStruct") and re.search(r"(^|::)TraceLevel::(Silent|Compact|Verbose)$", n.get("p", "")):
            return n
        if n["k"] == "MethodCall" and n["m"] == "trace_level":
            return n
        if n["k"] == "Field" and n["f"] == "tracing" and n["e"]["k"] == "Path" and n["e"]["p"] == "self" and rel == GEN:
            return n
    return None


def r_readers(sh, rep):
    found = {}
    for rel in sh.files():
        if not rel.startswith("crates/aiken-lang/src/") or "/tests/" in rel or rel.endswith("tests.rs"):
            continue
        fj = sh.file(rel)
        for q, f in all_fns(fj):
            if "body" not in f:
                continue
            n = _reads_level(f["body"], sh, rel)
            if n is not None:
                found[(rel, q)] = n
    for (rel, q), n in sorted(found.items()):
        key = next((k for k in READERS if k[0] == rel and (q == k[1] or q.endswith("::" + k[1]) or q.endswith(k[1]))), None)
        # constructing a Tracing value (Tracing::All(TraceLevel::Verbose)) is not a read
        if key is None and re.search(r"Tracing::(verbose|silent|All|UserDefined|CompilerGenerated)", q):
            continue
        rep.check(key is not None, "R14-READERS", "%s#%s" % (rel.split("/")[-1], q), sh.loc(rel, n), "%s (%s) reads the trace level and is not among the reviewed readers: whatever it decides from the level (which code to emit, which branch to take) can make the traced and the untraced build disagree" % (q, rel), why_ok=READERS.get(key, "") if key else "")


def r_level(sh, rep):
    f = find_method(sh.file(AST), "Tracing", "trace_level")
    rep.touched(AST, "Tracing::trace_level")
    m = next(matches_in(f["body"]))
    kinds = {}
    for v, arm, alt in arm_table(m):
        if v is None:
            rep.bad("R14-LEVEL", "trace_level#catch-all", sh.loc(AST, arm), "catch-all arm in Tracing::trace_level")
            continue
        s = sh.nsrc(AST, arm["body"])
        # every leaf is the bound level or Silent
        leaves = re.findall(r"TraceLevel::\w+|\*\w+", s)
        kinds[v] = leaves
        ok = leaves and all(x == "TraceLevel::Silent" or x.startswith("*") for x in leaves)
        rep.check(ok, "R14-LEVEL", "trace_level#%s" % v, sh.loc(AST, arm), "Tracing::%s must yield the stored level or Silent (found %s)" % (v, leaves), sample={"leaves": leaves})
    rep.check(set(kinds) >= {"UserDefined", "CompilerGenerated", "All"}, "R14-LEVEL", "trace_level#total", sh.loc(AST, f), "Tracing::trace_level must list UserDefined, CompilerGenerated and All")


def _erase(sh, rel, e):
    """normalised source of `e` with trace wrappers removed (outermost occurrences, recursively)"""
    while True:
        if e["k"] == "Call" and call_name(e) == "Ok" and e["args"]:
            e = e["args"][0]
            continue
        if e["k"] == "Struct" and last(e["p"]) == "Trace":
            d = {fi["name"]: fi["e"] for fi in e["fields"]}
            t = d.get("then")
            if t is not None:
                if t["k"] == "Call" and call_name(t) == "Box::new" and t["args"]:
                    t = t["args"][0]
                e = t
                continue
        if e["k"] == "Call" and call_name(e) == "AirTree::trace" and len(e["args"]) == 3:
            e = e["args"][2]
            continue
        if e["k"] == "MethodCall" and e["m"] == "delayed_trace":
            e = e["recv"]
            continue
        if e["k"] == "Block" and len(e["stmts"]) == 1 and e["stmts"][0]["k"] == "ExprStmt":
            e = e["stmts"][0]["e"]
            continue
        break
    if e["k"] == "MethodCall":
        # erase wrappers sitting deeper in a method chain: X.delayed_trace(_).delay()
        return re.sub(r"\.delayed_trace\((?:[^()]|\([^()]*\))*\)", "", sh.nsrc(rel, e))
    return sh.nsrc(rel, e)


def r_erase(sh, rep):
    # (a) infer_trace: every level yields `then`, possibly wrapped
    f = find_method(sh.file(TE), "ExprTyper", "infer_trace")
    rep.touched(TE, "ExprTyper::infer_trace")
    lvl = {n["pat"]["name"] for n in walk(f["body"]) if n["k"] == "Local" and n["pat"]["k"] == "Ident" and n.get("init") is not None and "trace_level" in sh.nsrc(TE, n["init"])}

    def reads_level(e):
        src = sh.nsrc(TE, e)
        return "trace_level" in src or any(re.search(r"(?<![\w.])%s\b" % re.escape(x), src) for x in lvl)

    m = [m for m in matches_in(f["body"]) if reads_level(m["e"]) and len(m["arms"]) >= 3]
    if not m:
        raise AnchorMissing("match on trace_level in infer_trace")
    # inference has effects (usage accounting decides which `let`s survive, errors are raised): every sub-expression
    # is inferred whatever the level
    def visit(node, under):
        if isinstance(node, dict):
            if node.get("k") == "If":
                visit(node["cond"], under)
                u = under or reads_level(node["cond"])
                visit(node["then"], u)
                visit(node.get("else"), u)
                return
            if node.get("k") == "Match" and node is not m[-1]:
                visit(node["e"], under)
                u = under or reads_level(node["e"])
                for a in node["arms"]:
                    visit(a, u)
                return
            if node.get("k") == "MethodCall" and node["m"].startswith("infer") and sh.nsrc(TE, node["recv"]) == "self" and under:
                cond_inf.append(node)
            for v in node.values():
                visit(v, under)
        elif isinstance(node, list):
            for v in node:
                visit(v, under)

    cond_inf = []
    visit(f["body"], False)
    rep.check(not cond_inf, "R14-ERASE", "infer_trace#inference-is-level-independent", sh.loc(TE, cond_inf[0]) if cond_inf else sh.loc(TE, f), "infer_trace infers a sub-expression (`%s`) only under some trace level: what is not inferred is not accounted as used, so a `let` whose only use is a trace argument is dropped — with the abort it contained — in exactly those builds" % (sh.nsrc(TE, cond_inf[0])[:60] if cond_inf else ""), sample={"conditional_inferences": len(cond_inf)})
    outs = {}
    # two shapes: the match *is* the result (each arm a result), or it selects a value bound to a local that the tail
    # expression uses (arms may `return` early); per level the function's result is the arm / the returned value / the tail
    holder = [n for n in walk(f["body"]) if n["k"] == "Local" and n.get("init") is m[-1] and n["pat"].get("k") == "Ident"]
    tail = None
    if holder:
        lastst = f["body"]["stmts"][-1]
        tail = lastst.get("e") if lastst.get("k") == "ExprStmt" and not lastst.get("semi") else None
    for v, arm, alt in arm_table(m[-1]):
        b = arm["body"]
        if b.get("k") == "Block" and len(b.get("stmts", [])) == 1 and b["stmts"][0].get("k") == "ExprStmt":
            b = b["stmts"][0]["e"]
        if b.get("k") == "Return" and b.get("e") is not None:
            outs[v] = _erase(sh, TE, b["e"])
        elif holder and tail is not None:
            er = _erase(sh, TE, tail)
            outs[v] = er if not re.search(r"(?<![\w.])%s\b" % re.escape(holder[0]["pat"]["name"]), er) else "%s-dependent:%s" % (v, er)
        else:
            outs[v] = _erase(sh, TE, arm["body"])
    rep.check(len(set(outs.values())) == 1 and set(outs) >= {"Silent", "Compact", "Verbose"}, "R14-ERASE", "infer_trace#arms-equal-modulo-trace", sh.loc(TE, m[-1]), "the three trace levels must type `trace`/`todo`/`fail` to the same continuation once the Trace wrapper is erased; found %s" % outs, sample=outs)
    # (b) wrap_validator_condition
    g = find_fn(sh.file(BLD), "wrap_validator_condition")
    rep.touched(BLD, "wrap_validator_condition")
    m = next(matches_in(g["body"]))
    outs = {}
    for v, arm, alt in arm_table(m):
        outs[v] = _erase(sh, BLD, arm["body"])
    rep.check(len(set(outs.values())) == 1 and set(outs) >= {"Silent", "Compact", "Verbose"}, "R14-ERASE", "wrap_validator_condition#arms-equal-modulo-trace", sh.loc(BLD, m), "the failing branch of the validator wrapper must be the same error under every level once AirTree::trace is erased; found %s" % outs, sample=outs)
    # (c) `?` operator
    h = find_method(sh.file(TE), "ExprTyper", "infer_trace_if_false")
    rep.touched(TE, "ExprTyper::infer_trace_if_false")
    sel = [m for m in matches_in(h["body"]) if "trace_level" in sh.nsrc(TE, m["e"])]
    if not sel:
        raise AnchorMissing("match on trace_level in infer_trace_if_false")
    only_text = all(sh.nsrc(TE, a["body"]) == "None" or sh.nsrc(TE, a["body"]).startswith("Some(TypedExpr::String") for a in sel[0]["arms"])
    rep.check(only_text, "R14-ERASE", "infer_trace_if_false#level-selects-message-only", sh.loc(TE, sel[0]), "in the `?` operator the level may only choose between no message and a string literal")
    use = [m for m in matches_in(h["body"]) if sh.nsrc(TE, m["e"]) == "text"]
    if not use:
        raise AnchorMissing("match text in infer_trace_if_false")
    none_arm = some_arm = None
    for a in use[0]["arms"]:
        hh = pat_head(pat_alts(a["pat"])[0])
        if hh and last(hh) == "None":
            none_arm = a
        if hh and last(hh) == "Some":
            some_arm = a
    ok = False
    v = None
    if none_arm is not None and some_arm is not None:
        v = _erase(sh, TE, none_arm["body"])
        ifs = [n for n in walk(some_arm["body"]) if n["k"] == "Struct" and last(n["p"]) == "If"]
        if ifs:
            d = {fi["name"]: fi["e"] for fi in ifs[0]["fields"]}
            br = [n for n in walk(d.get("branches", {})) if n["k"] == "Struct" and last(n["p"]) == "IfBranch"]
            if br:
                bd = {fi["name"]: sh.nsrc(TE, fi["e"]) for fi in br[0]["fields"]}
                fe = d.get("final_else")
                if fe is not None and fe["k"] == "Call" and fe["args"]:
                    fe = fe["args"][0]
                ok = bd.get("condition") == v and bd.get("body") == "var_true" and fe is not None and _erase(sh, TE, fe) == "var_false"
    rep.check(ok, "R14-ERASE", "infer_trace_if_false#if-v-True-else-False-is-v", sh.loc(TE, use[0]), "with a message, `e?` must become `if e { True } else { trace msg False }` over the same typed value `%s` that the untraced build returns" % v)
    # (d) expect failure message: whatever the level, the otherwise-branch erases to a delayed error
    b = [fn for q, fn in all_fns(sh.file(GEN)) if q.endswith("CodeGenerator::build")]
    if not b:
        raise AnchorMissing("CodeGenerator::build")
    rep.touched(GEN, "CodeGenerator::build")
    ins = [c for c in walk(b[0]["body"]) if c["k"] == "MethodCall" and c["m"] == "insert_new_function" and len(c["args"]) >= 2]
    if not ins:
        raise AnchorMissing("special_functions.insert_new_function(..) in build")
    for c in ins:
        er = _erase(sh, GEN, c["args"][1])
        rep.check(er == "Term::Error.delay()", "R14-ERASE", "build#expect-otherwise-erases-to-delayed-error", sh.loc(GEN, c), "the failure continuation inserted for a traced `expect` must be `Term::Error.delay()` once the trace is erased (found `%s`): otherwise a failing expect behaves differently with and without traces" % er, sample={"erased": er})
    sel = [m for m in matches_in(b[0]["body"]) if "self.tracing" in sh.nsrc(GEN, m["e"])]
    if sel:
        strs = all(_is_stringy(sh, a["body"]) for a in sel[0]["arms"])
        rep.check(strs, "R14-ERASE", "build#level-selects-message-only", sh.loc(GEN, sel[0]), "in build() the level may only select the text of the expect message")


def _is_stringy(sh, e):
    s = sh.nsrc(GEN, e)
    return bool(re.match(r'^("".to_string\(\)|format!|get_src_code_by_span|match|\{)', s))


def r_dual(sh, rep):
    fj = sh.file(GEN)
    sites = []
    for q, f in all_fns(fj):
        if "body" not in f:
            continue
        for n in walk(f["body"]):
            if n["k"] == "If" and re.search(r"otherwise\.(is_some|is_none)\(\)", sh.nsrc(GEN, n["cond"])):
                sites.append((q, n))
            if n["k"] == "LetCond" and "otherwise" in sh.nsrc(GEN, n["e"]) and n["pat"]["k"] == "PTupleStruct" and last(n["pat"]["p"]) == "Some":
                sites.append((q, n))
    # reviewed branch points on the presence of an otherwise-continuation
    reviewed = {"CodeGenerator::expect_type_assign": "parameter list of the synthesised decoder function and the argument list of its call: both gain the `otherwise` continuation together (name suffixed _otherwise by expect_decoder_function_name); threads the continuation, no decoding decision", "CodeGenerator::assignment": "selects soft_cast_assignment (softcast_data_to_type_otherwise) vs cast_from_data(full) (unknown_data_to_type): R01-CAST proves the two decoders agree per type kind"}
    for q, n in sites:
        key = next((k for k in reviewed if q.endswith(k)), None)
        rep.check(key is not None, "R14-DUAL", "%s#branches-on-otherwise" % q, sh.loc(GEN, n), "%s branches on whether an `otherwise` continuation exists — which is the case exactly when tracing is on — and is not the reviewed decoder choice: the traced build would run different code" % q, why_ok=reviewed.get(key, "") if key else "")
    # (b) the presence of the continuation used as a *value*: it may name things, it may not steer lowering
    FLAG_SINKS = {"expect_decoder_function_name": "picks the name (suffix _otherwise) under which the synthesised decoder is cached; both variants are generated by the same code"}
    nflag = 0
    for rel in (GEN, BLD):
        for q, f in all_fns(sh.file(rel)):
            if "body" not in f:
                continue
            cond_nodes = set()
            for n in walk(f["body"]):
                if n["k"] == "If":
                    for x in walk(n["cond"]):
                        cond_nodes.add(id(x))
            for c in walk(f["body"]):
                if c["k"] not in ("Call", "MethodCall"):
                    continue
                for a in c.get("args", []):
                    if a.get("k") == "MethodCall" and a["m"] in ("is_some", "is_none") and re.fullmatch(r"otherwise(_delayed)?", sh.nsrc(rel, a["recv"])) and id(a) not in cond_nodes:
                        nflag += 1
                        sink = last(call_name(c) or "") if c["k"] == "Call" else c["m"]
                        rep.check(sink in FLAG_SINKS, "R14-DUAL", "%s#otherwise-presence-passed-to#%s" % (q, sink), sh.loc(rel, a), "%s passes `%s` — true exactly when compiler traces are on — as a flag to `%s`: whatever that flag selects (here: whether a length / shape check is emitted) differs between the traced and the untraced build" % (q, sh.nsrc(rel, a), sink), why_ok=FLAG_SINKS.get(sink, ""), sample={"sink": sink})
    # (c) sibling agreement of the low-level branch points `otherwise == Term::Error.delay()`: untraced -> the strict decoder
    # that fails natively, traced -> the soft cast that jumps to the continuation; never the trusting decoder
    nsib = 0
    for rel in (GEN, BLD):
        for q, f in all_fns(sh.file(rel)):
            if "body" not in f:
                continue
            for n in walk(f["body"]):
                if n["k"] == "If" and re.search(r"otherwise(_delayed)?==Term::Error\.delay\(\)", sh.nsrc(rel, n["cond"])) and "||" not in sh.nsrc(rel, n["cond"]):
                    def decs(b):
                        return sorted({last(call_name(c) or "") for c in walk(b) if c.get("k") == "Call" and re.search(r"data_to_type", call_name(c) or "")}) if b else []
                    th, el = decs(n["then"]), decs(n.get("else"))
                    if not th and not el:
                        continue
                    nsib += 1
                    rep.check(th == ["unknown_data_to_type"] and el == ["softcast_data_to_type_otherwise"], "R14-DUAL", "%s#error-continuation-branch#%d" % (q, nsib), sh.loc(rel, n), "where no traced continuation exists the value must be decoded with unknown_data_to_type (fails by itself) and otherwise with softcast_data_to_type_otherwise; found %s / %s — the untraced build would accept data the traced build rejects" % (th, el), sample={"untraced": th, "traced": el})
    # (d) the high-level branch point in `assignment`: with a continuation -> soft cast, without -> full cast; nothing else
    for q, f in all_fns(sh.file(GEN)):
        if not q.endswith("CodeGenerator::assignment") or "body" not in f:
            continue
        for n in walk(f["body"]):
            if n["k"] == "If" and n["cond"].get("k") == "LetCond" and "otherwise" in sh.nsrc(GEN, n["cond"]["e"]) and last(pat_head(n["cond"]["pat"]) or "") == "Some" and n.get("else") is not None:
                def ctors(b):
                    return sorted({last(call_name(c) or "") for c in walk(b) if c.get("k") == "Call" and (call_name(c) or "").startswith("AirTree::") and last(call_name(c) or "") in ("soft_cast_assignment", "let_assignment", "cast_from_data", "cast_to_data")})
                th, el = ctors(n["then"]), ctors(n["else"])
                if "soft_cast_assignment" in th or "cast_from_data" in el:
                    rep.check(th == ["soft_cast_assignment"] and "cast_from_data" in el, "R14-DUAL", "%s#continuation-branch#soft-vs-full-cast" % q, sh.loc(GEN, n), "with a traced continuation an expected value must be bound through soft_cast_assignment and without one through cast_from_data; found %s / %s — a plain `let` in the traced branch binds without checking, so the traced build accepts data the untraced build rejects" % (th, el), sample={"traced": th, "untraced": el})
    if nsib < 4:
        rep.bad("R14-DUAL", "error-continuation-branches", GEN, "only %d decoder branch points on `otherwise == Term::Error.delay()` found, 4 confirmed by hand (anchor)" % nsib)
    if not sites:
        rep.bad("R14-DUAL", "branch-point-found", GEN, "the reviewed branch on `otherwise` in CodeGenerator::assignment was not found (anchor)")
    rep.guarded("R14-DUAL", lambda: cast_rules.rule_cast(sh, rep, "R14-DUAL"))


def r_msg(sh, rep):
    """R14-ERASE compares the level-selected results modulo the Trace wrapper *and its message*: that is sound only if
    evaluating the message cannot matter. The message of a user `trace` is built from user expressions — the label and
    the arguments — and the generated code evaluates it strictly. So the set of user expressions that reach the typed
    program must not depend on the level: a label or an argument that fails (10 / x, a partial helper) otherwise aborts
    the program at some levels only. Read off infer_trace: which of the inferred pieces each level's result mentions."""
    f = find_method(sh.file(TE), "ExprTyper", "infer_trace")
    lvl = {n["pat"]["name"] for n in walk(f["body"]) if n["k"] == "Local" and n["pat"]["k"] == "Ident" and n.get("init") is not None and "trace_level" in sh.nsrc(TE, n["init"])}
    ms = [m for m in matches_in(f["body"]) if ("trace_level" in sh.nsrc(TE, m["e"]) or sh.nsrc(TE, m["e"]) in lvl) and len(m["arms"]) >= 3]
    if not ms:
        raise AnchorMissing("match on trace_level in infer_trace")
    # pieces: the typed label, and whatever local is built from the typed arguments
    params = [i["pat"].get("name") for i in f["sig"]["inputs"] if isinstance(i.get("pat"), dict)]
    label = "label" if "label" in params else None
    argl = [n["pat"]["name"] for n in walk(f["body"]) if n["k"] == "Local" and n["pat"]["k"] == "Ident" and n.get("init") is not None and re.search(r"typed_arguments|arguments", sh.nsrc(TE, n["init"])) and n["pat"]["name"] not in ("typed_arguments",)]
    per = {}
    for v, arm, alt in arm_table(ms[-1]):
        paths = {x["p"] for x in walk(arm["body"]) if x.get("k") == "Path"}
        used = set()
        if label and label in paths:
            used.add("label")
        if paths & set(argl):
            used.add("arguments")
            used.add("label")  # the verbose text is built from the label as well
        per[v] = used
    levels = ["Silent", "Compact", "Verbose"]
    if not all(l in per for l in levels):
        raise AnchorMissing("arms for Silent / Compact / Verbose in infer_trace (found %s)" % sorted(per))
    for a, b in (("Silent", "Compact"), ("Compact", "Verbose")):
        diff = sorted(per[a] ^ per[b])
        rep.check(not diff, "R14-MSG", "infer_trace#%s-vs-%s#same-user-expressions" % (a, b), sh.loc(TE, ms[-1]), "at %s the typed program keeps %s of the trace, at %s it keeps %s: the %s evaluated only at the higher level — strictly, in the generated code — and a failing one (`trace @\"r\": 10 / x`, a partial label helper) aborts the program there and nowhere else" % (a, sorted(per[a]) or "nothing", b, sorted(per[b]), " and ".join(diff) + (" is" if len(diff) == 1 else " are")), sample={a: sorted(per[a]), b: sorted(per[b])})


# ---------------------------------------------------------------------------------------------------------
# R14-DIAG: the rendering of trace arguments is total
# ---------------------------------------------------------------------------------------------------------
# A non-String trace argument is rendered by the prelude function `diagnostic` (tipo/expr.rs diagnose_expr), Aiken source
# embedded in builtins.rs. It runs only in verbose builds, on data the program merely *mentions* — so any way it can abort is
# a verdict that depends on the trace level. Reviewed partial builtins: (function, builtin) -> (structural side condition, why)
DIAG_PARTIAL = {
    ("diagnostic", "un_constr_data"): ("branch:1", "only in the constructor branch of chooseData"),
    ("diagnostic", "un_map_data"): ("branch:2", "only in the map branch of chooseData"),
    ("diagnostic", "un_list_data"): ("branch:3", "only in the list branch of chooseData"),
    ("diagnostic", "un_i_data"): ("branch:4", "only in the integer branch of chooseData"),
    ("diagnostic", "un_b_data"): ("branch:5", "only in the bytes branch of chooseData"),
    ("encode_base16", "index_bytearray"): (None, "ix starts at length - 1 and the function returns at ix < 0"),
    ("encode_base16", "cons_bytearray"): (None, "a nibble (0..15) plus 48 or 55"),
    ("do_from_int", "cons_bytearray"): (None, "a remainder by 10 of a positive number, plus 48"),
    ("from_int", "cons_bytearray"): (None, "a remainder by 10 of a positive number, plus 48"),
    ("do_from_int", "quotient_integer"): ("divisor-literal", "constant non-zero divisor"),
    ("do_from_int", "remainder_integer"): ("divisor-literal", "constant non-zero divisor"),
    ("from_int", "quotient_integer"): ("divisor-literal", "constant non-zero divisor"),
    ("from_int", "remainder_integer"): ("divisor-literal", "constant non-zero divisor"),
}
ABORT_KEYWORDS = ("fail", "todo", "expect", "error")


def r_diag(sh, rep):
    from . import aikensrc, c02
    from .btab import BuiltinTables, RT
    fns = aikensrc.embedded_functions(sh)
    rep.touched(aikensrc.AB, "prelude_functions (embedded Aiken)")
    if "diagnostic" not in fns:
        raise AnchorMissing("embedded prelude function `diagnostic`")
    # the renderer is entered through the name `diagnostic` (diagnose_expr); closure over the embedded functions it mentions
    f = [fn for q, fn in all_fns(sh.file(TE)) if q.endswith("diagnose_expr")]
    if not f or not any(n.get("k") == "Lit" and n.get("v") == "diagnostic" for n in walk(f[0]["body"])):
        raise AnchorMissing("diagnose_expr naming the prelude function `diagnostic`")
    reach, todo = [], ["diagnostic"]
    while todo:
        n = todo.pop()
        if n in reach:
            continue
        reach.append(n)
        todo += [i for i in set(fns[n].idents()) if i in fns and i not in reach]
    names = aikensrc.aiken_builtin_names(sh)
    t = BuiltinTables(sh)
    for n in sorted(reach):
        fn = fns[n]
        where = "%s:%d" % (aikensrc.AB, fn.line)
        kws = sorted(set(v for k, v in fn.toks if k == "id" and v in ABORT_KEYWORDS))
        rep.check(not kws, "R14-DIAG", "%s#no-abort-keyword" % n, where, "the prelude function `%s`, which renders trace arguments in verbose builds only, contains `%s`: data that reaches it (a constructor index >= 128, say) aborts the traced build while the silent build of the same program succeeds" % (n, "`, `".join(kws)), sample={"function": n, "tokens": len(fn.toks)})
        # one chooseData dispatch: which branch is each token in?
        branch_of = {}
        for b, i in fn.builtin_calls():
            if b == "choose_data":
                args = fn.call_args(i)
                if args and len(args) == 6:
                    # map token identity -> branch by re-walking positions
                    pos = i + 2
                    for k, a in enumerate(args):
                        for _ in a:
                            branch_of[pos] = k
                            pos += 1
                        pos += 1  # the comma
        for b, i in fn.builtin_calls():
            v = names.get(b)
            if v is None:
                rep.bad("R14-DIAG", "%s#%s#unknown-builtin" % (n, b), where, "`builtin.%s` in `%s` is not a row of DefaultFunction::aiken_name" % (b, n))
                continue
            arm = t.call.get(v)
            exits = [e for e in (c02.exits_of(sh, RT, arm) if arm else ["?no-arm"]) if e not in ("Err:TypeMismatch", "Err:NotAConstant") and not e.startswith("panic:")]
            if not exits:
                continue  # total on well-typed arguments (read off the evaluator's arm)
            cond = DIAG_PARTIAL.get((n, b))
            if cond is None:
                rep.bad("R14-DIAG", "%s#%s#partial-builtin-not-reviewed" % (n, b), where, "`%s` applies `builtin.%s`, which can fail on a value of its argument type (%s), and no guard for it has been reviewed: a failure here aborts verbose builds only" % (n, b, ", ".join(exits)), sample={"exits": exits})
                continue
            side, why = cond
            ok, found = True, ""
            if side and side.startswith("branch:"):
                want = int(side.split(":")[1])
                got = branch_of.get(i)
                ok, found = got == want, "found in argument %s of chooseData" % got
            elif side == "divisor-literal":
                args = fn.call_args(i) or []
                ok = len(args) == 2 and len(args[1]) == 1 and args[1][0][0] == "num" and int(args[1][0][1].replace("_", "")) != 0
                found = "divisor `%s`" % " ".join(v for k, v in (args[1] if len(args) > 1 else []))
            rep.check(ok, "R14-DIAG", "%s#%s#%s" % (n, b, side or "reviewed"), where, "`builtin.%s` in `%s` must be %s (%s); otherwise rendering a trace argument can abort the traced build" % (b, n, why, found), why_ok=why, sample={"exits": exits})
