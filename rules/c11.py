"""C11 — variable binding survives name/index conversions.

Decided statically: every conversion walk visits every Term constructor and
hands every sub-term to the recursion; inside the Lambda arm of the four
binder-aware conversions the scope protocol is declare -> lookup -> start ->
body -> end (-> remove) in that order, each exactly once, on the same unique;
start/end adjust level and stack together; a failed lookup is an Err on every
path; every TryFrom creates its own Converter and propagates the error.
Not decided: the level arithmetic itself (values).
"""
import re
from .lib import *

EXPLANATION = (
    "Family T over 8 Converter walks + CodeGenInterner::term + parser Interner::term (10 walks x 10 constructors, each child must reach the recursive call); "
    "family M (ordered call protocol) inside the Lambda arm of name_to_named_debruijn / name_to_debruijn / named_debruijn_to_name / debruijn_to_name and "
    "CodeGenInterner::term; structure of get_index / get_unique (Ok only under a successful lookup, fall-through Err, checked_sub); error propagation in the "
    "TryFrom impls. All read from the syntax tree of the current working tree."
)
LEVEL_NOTE = "pairing and completeness are necessary for correct binding, not sufficient: index arithmetic under shadowing is a runtime quantity"

D = "crates/uplc/src/debruijn.rs"
A = "crates/uplc/src/ast.rs"
OI = "crates/uplc/src/optimize/interner.rs"
PI = "crates/uplc/src/parser/interner.rs"

WALKS = ["name_to_named_debruijn", "name_to_debruijn", "named_debruijn_to_name", "debruijn_to_name", "named_debruijn_to_debruijn", "debruijn_to_named_debruijn", "fake_named_debruijn_to_named_debruijn", "named_debruijn_to_fake_named_debruijn"]
# spec: the scope protocol of a binder, per direction (the order in which the converter must touch its state)
PROTO = {
    "name_to_named_debruijn": ["declare_unique", "get_index", "start_scope", "@rec", "end_scope", "remove_unique"],
    "name_to_debruijn": ["declare_unique", "get_index", "start_scope", "@rec", "end_scope", "remove_unique"],
    # the binder declared for a lambda is removed again after its body: otherwise an index of a *sibling* term resolves to it
    # (`[(lam 1) 0]` converted instead of failing with FreeIndex on the pinned tree — fixed, findings/c11-binder-leak/)
    "named_debruijn_to_name": ["declare_binder", "get_unique", "start_scope", "@rec", "end_scope", "remove_unique"],
    "debruijn_to_name": ["declare_binder", "get_unique", "start_scope", "@rec", "end_scope", "remove_unique"],
}


def self_calls(sh, rel, node, rec):
    """ordered [(method, call node)] of `self.m(..)` calls"""
    out = []
    for n in walk(node):
        if n["k"] == "MethodCall" and n["recv"]["k"] == "Path" and n["recv"]["p"] == "self":
            out.append(("@rec" if n["m"] == rec else n["m"], n))
    return out


def run(ctx, rep):
    sh = ctx.shape
    rep.rule("R11-WALKS", "every conversion / interning walk has an explicit arm per Term constructor and passes every sub-term to the recursion", floor=100)
    rep.rule("R11-SCOPE", "Lambda arm protocol: declare -> lookup -> start_scope -> body -> end_scope (-> remove), once each, same unique; start/end symmetric", floor=8)
    rep.rule("R11-INTERN", "CodeGenInterner: bind -> body -> unbind on the same key; lookup returns the innermost active binder; keys hold text and previous unique unconditionally", floor=5)
    rep.rule("R11-FREE", "a failed lookup is Err on every path (FreeUnique / FreeIndex, checked_sub); TryFrom impls own a fresh Converter and propagate with ?", floor=10)
    rep.rule("R11-PRIM", "the scope primitives (declare/remove/start/end, bind/unbind) are unconditional: no branch or early return can skip the bookkeeping a Lambda arm relies on", floor=7)
    rep.guarded("R11-PRIM", lambda: r_prim(sh, rep))
    rep.guarded("R11-WALKS", lambda: r_walks(sh, rep))
    rep.guarded("R11-SCOPE", lambda: r_scope(sh, rep))
    rep.guarded("R11-INTERN", lambda: r_intern(sh, rep))
    rep.guarded("R11-INTERN", lambda: r_internkey(sh, rep))
    rep.guarded("R11-FREE", lambda: r_free(sh, rep))


def r_walks(sh, rep):
    term = find_enum(sh.file(A), "Term")
    fd = sh.file(D)
    for w in WALKS:
        f = find_method(fd, "Converter", w)
        traversal_check(rep, "R11-WALKS", sh, D, "Converter::" + w, f, term, ["Term"], require_recursion={w})
        m = find_enum_match(f, "Term", {v["name"] for v in term["variants"]})
        rep.check(not any(is_catch_all(a["pat"]) for a in m["arms"]), "R11-WALKS", "Converter::%s#no-catch-all" % w, sh.loc(D, f), "the walk has a catch-all arm", nontrivial=False)
    f = find_method(sh.file(OI), "CodeGenInterner", "term")
    traversal_check(rep, "R11-WALKS", sh, OI, "CodeGenInterner::term", f, term, ["Term"], require_recursion={"term"})
    f = find_method(sh.file(PI), "Interner", "term")
    traversal_check(rep, "R11-WALKS", sh, PI, "parser::Interner::term", f, term, ["Term"], require_recursion={"term"})
    # binder-free walks copy the index unchanged
    for w in ("named_debruijn_to_debruijn", "debruijn_to_named_debruijn", "fake_named_debruijn_to_named_debruijn", "named_debruijn_to_fake_named_debruijn"):
        f = find_method(fd, "Converter", w)
        m = find_enum_match(f, "Term", {v["name"] for v in term["variants"]})
        for v, arm, alt in arm_table(m):
            if v in ("Var", "Lambda"):
                calls = [c["m"] for c in calls_in(arm["body"]) if c["k"] == "MethodCall" and c["recv"]["k"] == "Path" and c["recv"]["p"] == "self" and c["m"] != w]
                rep.check(not calls, "R11-WALKS", "Converter::%s#%s#index-copied" % (w, v), sh.loc(D, arm), "a binder-free conversion must not consult converter state (%s)" % calls)


def r_scope(sh, rep):
    fd = sh.file(D)
    term = find_enum(sh.file(A), "Term")
    vs = {v["name"] for v in term["variants"]}
    for w, proto in PROTO.items():
        f = find_method(fd, "Converter", w)
        rep.touched(D, "Converter::" + w)
        m = find_enum_match(f, "Term", vs)
        lam = [arm for v, arm, alt in arm_table(m) if v == "Lambda"]
        if not lam:
            rep.bad("R11-SCOPE", w + "#no-lambda-arm", sh.loc(D, f), "no Lambda arm")
            continue
        arm = lam[0]
        seq = self_calls(sh, D, arm["body"], w)
        names = [n for n, _ in seq]
        if names != proto:
            rep.bad("R11-SCOPE", w + "#protocol", sh.loc(D, arm), "the Lambda arm touches the converter in the order %s; the binder protocol is %s" % (names, proto), sample={"found": names, "expected": proto})
            continue
        problems = []
        d = dict((n, c) for n, c in seq)
        if "declare_unique" in d:
            a1 = sh.nsrc(D, d["declare_unique"]["args"][0])
            a2 = sh.nsrc(D, d["remove_unique"]["args"][0])
            a3 = sh.nsrc(D, d["get_index"]["args"][0])
            if a1 != a2:
                problems.append("declares %s but removes %s" % (a1, a2))
            if not a1.startswith(a3.lstrip("&")):
                problems.append("declares %s but looks up %s" % (a1, a3))
        if "get_unique" in d:
            a3 = sh.nsrc(D, d["get_unique"]["args"][0])
            if "parameter_name" not in a3:
                problems.append("looks up %s instead of the binder's own index" % a3)
        # the recursive call is on the body; lookups are propagated with ?
        ra = sh.nsrc(D, d["@rec"]["args"][0])
        if ra != "body":
            problems.append("recurses on %s instead of the lambda body" % ra)
        # all statements of the protocol are unconditional: top-level statements of the arm block
        top = set()
        if arm["body"]["k"] == "Block":
            for st in arm["body"]["stmts"]:
                for n in walk_no_closure(st):
                    top.add(id(n))
                    if n["k"] in ("If", "Match", "While", "For", "Loop"):
                        # anything under a conditional is not unconditional
                        for x in walk(n):
                            if x is not n:
                                top.discard(id(x))
        cond = [n for n, c in seq if id(c) not in top]
        if cond:
            problems.append("%s is executed conditionally" % cond)
        rep.check(not problems, "R11-SCOPE", w, sh.loc(D, arm), "; ".join(problems), sample={"protocol": names})
    s = sh.nsrc(D, find_method(fd, "Converter", "start_scope")["body"])
    e = sh.nsrc(D, find_method(fd, "Converter", "end_scope")["body"])
    rep.check("self.current_level=Level(self.current_level.0+1);" in s and "self.levels.push(" in s and s.count(";") == 2, "R11-SCOPE", "start_scope", D, "start_scope must add one level and push one scope map")
    rep.check("self.current_level=Level(self.current_level.0-1);" in e and "self.levels.pop();" in e and e.count(";") == 2, "R11-SCOPE", "end_scope", D, "end_scope must remove one level and pop one scope map")
    du = sh.nsrc(D, find_method(fd, "Converter", "declare_unique")["body"])
    ru = sh.nsrc(D, find_method(fd, "Converter", "remove_unique")["body"])
    rep.check("self.levels[self.current_level.0]" in du and "scope.insert(unique,self.current_level)" in du, "R11-SCOPE", "declare_unique", D, "declare_unique must insert (unique -> current level) into the current scope")
    rep.check("self.levels[self.current_level.0]" in ru and "scope.remove(unique,self.current_level)" in ru, "R11-SCOPE", "remove_unique", D, "remove_unique must remove the same pair from the current scope")
    db = sh.nsrc(D, find_method(fd, "Converter", "declare_binder")["body"])
    rep.check("scope.insert(self.current_unique,self.current_level);self.current_unique.increment();" in db, "R11-SCOPE", "declare_binder", D, "declare_binder must bind a fresh unique to the current level and then advance the counter")


def r_intern(sh, rep):
    fj = sh.file(OI)
    f = find_method(fj, "CodeGenInterner", "term")
    term = find_enum(sh.file(A), "Term")
    m = find_enum_match(f, "Term", {v["name"] for v in term["variants"]})
    lam = [arm for v, arm, alt in arm_table(m) if v == "Lambda"][0]
    seq = self_calls(sh, OI, lam["body"], "term")
    names = [n for n, _ in seq]
    ok = names == ["bind", "@rec", "unbind"]
    if ok:
        b, r_, u = [c for _, c in seq]
        ka = [re.sub(r"\.clone\(\)$", "", sh.nsrc(OI, a)) for a in b["args"]]
        kb = [re.sub(r"\.clone\(\)$", "", sh.nsrc(OI, a)) for a in u["args"]]
        ok = ka == kb
        why = "bind key %s, unbind key %s" % (ka, kb)
    else:
        why = "order %s" % names
    rep.check(ok, "R11-INTERN", "term#Lambda#bind-body-unbind", sh.loc(OI, lam), "the Lambda arm must bind, walk the body, then unbind the same (text, previous unique) key: " + why, sample={"calls": names})
    # the key is captured before the binder's unique is overwritten: `let P = <binder>.unique; … <binder>.unique = self.bind(.., P)`
    okk = False
    binds = [n for n in walk(lam["body"]) if n["k"] == "Assign" and n["r"]["k"] == "MethodCall" and n["r"]["m"] == "bind" and n["l"]["k"] == "Field" and n["l"]["f"] == "unique"]
    if binds:
        tgt = sh.nsrc(OI, binds[0]["l"])
        key_arg = sh.nsrc(OI, binds[0]["r"]["args"][-1])
        caps = [n for n in walk(lam["body"]) if n["k"] == "Local" and n["pat"]["k"] == "Ident" and n["pat"]["name"] == key_arg and n.get("init") is not None and sh.nsrc(OI, n["init"]) == tgt]
        okk = bool(caps) and (caps[0]["s"][0], caps[0]["s"][1]) < (binds[0]["s"][0], binds[0]["s"][1])
    rep.check(okk, "R11-INTERN", "term#Lambda#key-before-overwrite", sh.loc(OI, lam), "the binder's previous unique must be read into a local before `<binder>.unique = self.bind(.., <that local>)` replaces it: the (text, previous unique) key of bind and unbind is built from it")
    lf = find_method(fj, "CodeGenInterner", "lookup")
    calls = [c for c in walk(lf["body"]) if c["k"] == "MethodCall"]
    gets = [c for c in calls if c["m"] == "get" and "identifiers" in sh.nsrc(OI, c["recv"])]
    picks = [c["m"] for c in calls if c["m"] in ("last", "first", "nth", "get_mut", "iter", "peek", "pop")]
    # the only fallback for an unknown key is a fresh unique, and it is taken only when the stack lookup found nothing:
    # every fresh_unique() call sits in the else-branch / None arm of the test on the lookup result
    fresh = [c for c in calls if c["m"] == "fresh_unique"]
    cond_ok = True
    for fc in fresh:
        inside = False
        for n in walk(lf["body"]):
            if n["k"] == "If" and "else" in n and any(x is fc for x in walk(n["else"])) and not any(x is fc for x in walk(n["then"])):
                inside = True
            if n["k"] == "Match":
                for a in n["arms"]:
                    h = pat_head(pat_alts(a["pat"])[0])
                    if (h is None or last(h) == "None") and any(x is fc for x in walk(a["body"])):
                        inside = True
            if n["k"] == "MethodCall" and n["m"] in ("unwrap_or_else", "map_or_else", "or_else") and any(x is fc for x in walk(n["args"][0])):
                inside = True
        cond_ok = cond_ok and inside
    others = [n for n in walk(lf["body"]) if n["k"] == "Path" and n["p"] == "previous_unique"]
    # previous_unique may only be used to build the key, never returned
    key_only = all(any(x is o for st in walk(lf["body"]) if st["k"] == "Local" and st["pat"]["k"] == "Ident" and st["pat"]["name"] == "key" for x in walk(st["init"])) for o in others)
    rep.check(len(gets) == 1 and picks == ["last"] and len(fresh) == 1 and cond_ok and key_only, "R11-INTERN", "lookup#innermost", sh.loc(OI, lf), "lookup must return the innermost (last pushed) active binder of the key when one exists, and a fresh unique — nothing derived from the old one — only when none exists (found picks %s, %d fresh_unique call(s), conditional=%s, previous_unique only in the key=%s)" % (picks, len(fresh), cond_ok, key_only), sample={"picks": picks})
    bd = sh.nsrc(OI, find_method(fj, "CodeGenInterner", "bind")["body"])
    rep.check("letunique=self.fresh_unique();self.identifiers.entry(key).or_default().push(unique);unique" in bd, "R11-INTERN", "bind#fresh-push", OI, "bind must push a fresh unique on the key's stack and return it")
    ub = sh.nsrc(OI, find_method(fj, "CodeGenInterner", "unbind")["body"])
    rep.check("uniques.pop()" in ub and ub.count(".pop()") == 1, "R11-INTERN", "unbind#pop-once", OI, "unbind must pop exactly one entry")


def r_internkey(sh, rep):
    """The interner tells binders apart by (text, previous unique). Both components take part in equality and hashing
    (derived on the struct), and every key that is built takes both from its inputs unconditionally: a key that drops
    or defaults one component under some condition merges distinct binders that agree on the other one."""
    fj = sh.file(OI)
    sd = find_struct(fj, "InternKey")
    if sd is None:
        raise AnchorMissing("struct InternKey in optimize/interner.rs")
    der = ",".join(a for a in sd["attrs"] if a.startswith("derive("))
    tys = sorted(f["ty"] for f in sd["fields"])
    manual = [i for i in find_impls(fj, "InternKey", any_trait=True) if last(i.get("trait") or "") in ("Hash", "PartialEq", "Eq")]
    rep.check(all(t in der for t in ("Hash", "PartialEq", "Eq")) and not manual and "String" in tys and "Unique" in tys, "R11-INTERN", "InternKey#derived-eq-hash-over-text-and-unique", sh.loc(OI, sd), "InternKey must carry the binder's text and its previous unique and compare / hash both (derived): fields %s, %s, %d manual impl(s)" % (tys, der, len(manual)), sample={"fields": tys})
    lits = 0
    for qual, fn in all_fns(fj):
        for n in walk(fn["body"]) if fn.get("body") else ():
            if n["k"] == "Struct" and last(n["p"]) in ("InternKey", "Self") and (last(n["p"]) == "InternKey" or qual.startswith("InternKey")):
                lits += 1
                given = {f["name"] for f in n["fields"]}
                cond = [x["k"] for f in n["fields"] for x in walk(f["e"]) if x["k"] in ("If", "Match", "Closure", "Lit", "Macro")]
                params = {i["pat"].get("name") for i in fn["sig"]["inputs"] if isinstance(i.get("pat"), dict)}
                loose = [f["name"] for f in n["fields"] if not any(x["k"] == "Path" and x["p"].split("::")[0].split(".")[0] in params for x in walk(f["e"]))]
                cond += ["%s-not-from-a-parameter" % x for x in loose]
                rep.check(given == {f["name"] for f in sd["fields"]} and not n.get("rest") and not cond, "R11-INTERN", "InternKey#literal#%s#%d" % (qual, lits), sh.loc(OI, n), "a key built in %s does not take every component straight from its inputs (fields %s, conditional/constant parts %s): binders that differ only in the dropped component share one stack of uniques" % (qual, sorted(given), cond), sample={"fn": qual})
    if lits < 1:
        rep.bad("R11-INTERN", "InternKey#literals", OI, "no InternKey literal found (anchor)")


def r_free(sh, rep):
    fd = sh.file(D)
    for fn, err in (("get_index", "FreeUnique"), ("get_unique", "FreeIndex")):
        f = find_method(fd, "Converter", fn)
        rep.touched(D, "Converter::" + fn)
        body = f["body"]
        lastst = body["stmts"][-1]
        tail = lastst["e"] if lastst["k"] == "ExprStmt" and not lastst["semi"] else None
        LOOKUPS = ("get", "get_right", "get_left", "find_map", "find", "get_by_left", "get_by_right")
        oks = [n for n in walk(body) if n["k"] == "Call" and call_name(n) == "Ok"]
        # form A: loop with `if let Some(..) = scope.<lookup>(..) { return Ok(..) }` and a final Err(Error::<err>)
        form_a = tail is not None and tail["k"] == "Call" and call_name(tail) == "Err" and any(last(p) == err for p in paths_in(tail))
        # form B: `<scopes>.…find_map(|s| s.<lookup>(..))….ok_or[_else](Error::<err>)` as the function's value: found -> Ok, not found -> Err
        form_b = False
        if tail is not None and tail["k"] == "MethodCall" and tail["m"] in ("ok_or", "ok_or_else") and any(last(p) == err for p in paths_in(tail["args"][0])):
            chain = [c["m"] for c in walk(tail["recv"]) if c["k"] == "MethodCall"]
            form_b = any(m_ in LOOKUPS for m_ in chain) and not any(m_ in ("unwrap", "unwrap_or", "unwrap_or_default", "unwrap_or_else", "expect", "or", "or_else") for m_ in chain) and not oks
        rep.check(form_a or form_b, "R11-FREE", fn + "#fallthrough-is-Err", sh.loc(D, f), "%s must yield Err(Error::%s(..)) when no scope binds the variable: either a final `Err(..)` after the lookup loop, or a lookup chain closed by ok_or[_else](Error::%s(..)) with no defaulting combinator" % (fn, err, err), sample={"form": "loop" if form_a else "chain" if form_b else None})
        if form_a:
            guarded = []
            for n in walk(body):
                if n["k"] == "If" and n["cond"]["k"] == "LetCond" and pat_head(n["cond"]["pat"]) == "Some" and any(c["k"] == "MethodCall" and c["m"] in LOOKUPS for c in calls_in(n["cond"]["e"])):
                    for x in walk(n["then"]):
                        guarded.append(id(x))
            rep.check(oks and all(id(o) in guarded for o in oks), "R11-FREE", fn + "#Ok-only-under-lookup", sh.loc(D, f), "%s returns Ok outside a successful `if let Some(..) = scope.get..` lookup" % fn, sample={"ok_returns": len(oks)})
        else:
            rep.check(form_b, "R11-FREE", fn + "#Ok-only-under-lookup", sh.loc(D, f), "%s: the only way to a value is through the lookup chain" % fn, sample={"ok_returns": len(oks)})
    gf = find_method(fd, "Converter", "get_unique")
    gu = sh.nsrc(D, gf["body"])
    subs = [n for n in walk(gf["body"]) if n["k"] == "Binary" and n["op"] == "-"]
    rep.check(re.search(r"\.checked_sub\([^()]*(\([^()]*\))?[^()]*\)\.ok_or(_else)?\((\|\|)?Error::FreeIndex\(", gu) is not None and not subs and "saturating_sub" not in gu and "wrapping_sub" not in gu, "R11-FREE", "get_unique#checked_sub", D, "an index larger than the current level must become Err(FreeIndex) through checked_sub(..).ok_or(Error::FreeIndex(..)), not an arithmetic underflow, wrap-around or clamp")
    # TryFrom impls: own Converter, `?`, no unwrap
    fa = sh.file(A)
    n = 0
    for _, it in items(fa):
        if it["k"] != "Impl" or not it["trait"]:
            continue
        tr = it["trait"]
        if not (tr.startswith("TryFrom<") or tr.startswith("From<")) or not re.match(r"^(Program|Term)<", it["self_ty"]):
            continue
        if not re.search(r"(Name|DeBruijn)", tr):
            continue
        fn = [x for x in it["items"] if x["k"] == "Fn" and x["name"] in ("try_from", "from")]
        if not fn:
            continue
        f = fn[0]
        key = "impl %s for %s" % (tr, it["self_ty"])
        calls = [c for c in calls_in(f["body"])]
        conv = [c for c in calls if c["k"] == "MethodCall" and c["m"] in WALKS]
        bad_unwrap = [c for c in calls if c["k"] == "MethodCall" and c["m"] in ("unwrap", "expect")]
        n += 1
        if tr.startswith("TryFrom"):
            problems = []
            if bad_unwrap:
                problems.append("unwraps instead of propagating the conversion error")
            if conv:
                if not any(call_name(c) == "Converter::new" for c in calls):
                    problems.append("does not create its own Converter")
                # the fallible walk is followed by `?`
                tries = [t for t in walk(f["body"]) if t["k"] == "Try" and t["e"] is conv[0]]
                if not tries and conv[0]["m"] in PROTO:
                    problems.append("the result of %s is not propagated with ?" % conv[0]["m"])
            else:
                if not any(t["k"] == "Try" for t in walk(f["body"])):
                    problems.append("delegates without propagating the error")
            rep.check(not problems, "R11-FREE", key, sh.loc(A, f), "; ".join(problems))
        else:
            # infallible impls may only use binder-free walks
            used = {c["m"] for c in conv}
            rep.check(not (used & set(PROTO)) and not bad_unwrap, "R11-FREE", key, sh.loc(A, f), "an infallible From impl uses a fallible binder-aware conversion (%s)" % sorted(used & set(PROTO)))
    rep.check(n >= 14, "R11-FREE", "impl-count", A, "expected at least 14 conversion impls between Program/Term binder forms, found %d" % n, nontrivial=False)


# ---------------------------------------------------------------------------------------------------------
# R11-PRIM: scope bookkeeping primitives are straight-line
# ---------------------------------------------------------------------------------------------------------
PRIMS = [
    (D, "Converter", "declare_unique", ["insert"]),
    (D, "Converter", "remove_unique", ["remove"]),
    (D, "Converter", "declare_binder", ["insert", "increment"]),
    (D, "Converter", "start_scope", ["push"]),
    (D, "Converter", "end_scope", ["pop"]),
    (OI, "CodeGenInterner", "bind", ["push"]),
    (OI, "CodeGenInterner", "unbind", ["pop"]),
]
BRANCHING = {"If", "Match", "While", "For", "Loop", "Closure"}
EXITS = {"Return", "Try", "Break", "Continue"}


def _unconditional(node):
    """nodes evaluated on every execution of `node` (does not descend into branches, loops or closures)"""
    stack = [node]
    while stack:
        n = stack.pop()
        if isinstance(n, dict):
            if "k" in n:
                if n["k"] in BRANCHING:
                    # the scrutinee / condition is still unconditional
                    for key in ("cond", "e"):
                        if key in n and n["k"] in ("If", "Match", "While", "For"):
                            stack.append(n[key])
                    continue
                yield n
            for v in n.values():
                if isinstance(v, (dict, list)):
                    stack.append(v)
        elif isinstance(n, list):
            stack.extend(n)


def r_prim(sh, rep):
    """R11-SCOPE proves that every Lambda arm *calls* the primitives in order; that only pairs binders correctly if each
    call always does its bookkeeping. A conditional around the essential operation of a primitive (or an early return
    before it, e.g. `if level == 0 { return }`) makes declare/remove asymmetric for some scopes while every call site
    still looks right."""
    for rel, ty, name, essential in PRIMS:
        f = find_method(sh.file(rel), ty, name)
        rep.touched(rel, "%s::%s" % (ty, name))
        stmts = f["body"].get("stmts", [])
        for op in essential:
            pos = None
            for i, st in enumerate(stmts):
                if any(n["k"] == "MethodCall" and n["m"] == op for n in _unconditional(st)):
                    pos = i
                    break
            key = "%s::%s#%s-unconditional" % (ty, name, op)
            if pos is None:
                rep.bad("R11-PRIM", key, sh.loc(rel, f), "%s::%s does not perform `%s` unconditionally (it is missing, or nested in a branch/loop/closure): the bookkeeping a Lambda arm relies on can be skipped" % (ty, name, op))
                continue
            early = [n for st in stmts[: pos + 1] for n in walk(st) if n["k"] in EXITS and n["s"][0] <= stmts[pos]["s"][2]]
            # an exit *inside* the essential statement after the call is fine (`.expect`); only exits that can precede the op count
            early = [n for n in early if n["s"][0] < stmts[pos]["s"][0] or n["k"] == "Return" and n["s"][0] <= stmts[pos]["s"][0]]
            rep.check(not early, "R11-PRIM", key, sh.loc(rel, early[0]) if early else sh.loc(rel, stmts[pos]), "%s::%s can leave (%s at line %s) before `%s` runs: for some scopes the binder is never %s although every call site pairs the calls" % (ty, name, early[0]["k"] if early else "", early[0]["s"][0] if early else "", op, "removed" if op in ("remove", "pop") else "declared"), sample={"op": op, "statement": pos})
