"""Rules over the per-builtin tables (shared by C03, C04, C05, C06)."""
import re
from .lib import *
from .btab import BuiltinTables, RT, CM, AB, BI, arg_uses

# spec table: evaluator unwrapper -> value class
UNWRAP_CLASS = {
    "unwrap_integer": "int",
    "unwrap_byte_string": "bytes",
    "unwrap_string": "string",
    "unwrap_bool": "bool",
    "unwrap_data": "data",
    "unwrap_data_list": "list<data>",
    "unwrap_int_list": "list<int>",
    "unwrap_list": "list<?>",
    "unwrap_pair": "pair",
    "unwrap_unit": "unit",
    "unwrap_bls12_381_g1_element": "g1",
    "unwrap_bls12_381_g2_element": "g2",
    "unwrap_bls12_381_ml_result": "ml",
    "unwrap_constant": "any-constant",
    "clone": "any",
    None: "any",
}


def sig_class(src, binds, depth=0):
    """Aiken type expression (normalised source) -> value class"""
    s = src
    s = re.sub(r"\.clone\(\)$", "", s)
    if re.match(r"^[a-z_][a-z0-9_]*$", s) and s in binds and depth < 4:
        return sig_class(binds[s], binds, depth + 1)
    table = {
        "Type::int()": "int",
        "Type::byte_array()": "bytes",
        "Type::string()": "string",
        "Type::bool()": "bool",
        "Type::data()": "data",
        "Type::void()": "unit",
        "Type::g1_element()": "g1",
        "Type::g2_element()": "g2",
        "Type::miller_loop_result()": "ml",
    }
    if s in table:
        return table[s]
    if s.startswith("Type::generic_var("):
        return "generic"
    m = re.match(r"^Type::list\((.*)\)$", s)
    if m:
        inner = sig_class(m.group(1), binds, depth + 1)
        return "list<%s>" % inner
    if s.startswith("Type::pair("):
        return "pair"
    return "?" + s


def compatible(sig, unw):
    if sig == unw:
        return True
    if sig.startswith("list<") and unw == "list<?>":
        return True
    if sig == "generic" and unw in ("any", "any-constant"):
        return True
    if sig.startswith("list<generic") and unw == "list<?>":
        return True
    return False


def norm_name(s):
    return re.sub(r"_", "", s).lower()


COST_FIELD_IRREGULAR = {"ExpModInteger": "exp_mod_int"}  # review: the struct field is abbreviated


def cost_field_of(t, v):
    if v in COST_FIELD_IRREGULAR:
        return COST_FIELD_IRREGULAR[v]
    cands = [f for f in t.cost_fields if norm_name(f) == norm_name(v)]
    return cands[0] if len(cands) == 1 else None


def rule_arity(t, rep, rid):
    """arity(f) = 1 + max args index in call = #size args of to_ex_budget = Aiken arity (+ unit convention); force_count = #generic vars"""
    sh = t.sh
    for v in t.variants:
        where = sh.loc(RT, t.arity[v][1]) if v in t.arity else RT
        missing = [n for n, tab in (("arity", t.arity), ("force_count", t.force), ("arg_is_unit", t.unit), ("call", t.call), ("to_ex_budget", t.cost), ("from_default_function", t.aiken)) if v not in tab]
        if missing:
            rep.bad(rid, v + "#no-explicit-arm", where, "builtin %s has no explicit arm in %s (swallowed by a catch-all or missing): its row cannot be compared" % (v, ", ".join(missing)))
            continue
        ar = t.arity[v][0]
        ca = t.call_args(v)
        used = (max(ca) + 1) if ca else 0
        ci = t.cost_info(v)
        ncost = len(ci["mem"][0]) if ci["mem"] else None
        sig = t.aiken_sig(v)
        unit = t.unit[v][0]
        problems = []
        if used != ar:
            problems.append("call arm reads args[0..%d) but arity() says %d" % (used, ar))
        if ncost is not None and ncost != ar:
            problems.append("to_ex_budget feeds %d size argument(s) to the costing function but arity() says %d" % (ncost, ar))
        if ci["arg_indices"] and max(ci["arg_indices"]) + 1 > ar:
            problems.append("to_ex_budget reads args[%d] beyond arity %d" % (max(ci["arg_indices"]), ar))
        if sig["params"] is None or sig["arity"] is None:
            problems.append("Aiken signature not recognised (expected Type::function(vec![..], ret) and a (tipo, <arity>) tail)")
        else:
            exp = 0 if unit else ar
            if len(sig["params"]) != exp or sig["arity"] != exp:
                problems.append("Aiken declares %d parameter(s) / arity %d but the machine applies %d%s" % (len(sig["params"]), sig["arity"], ar, " (unit-argument convention: expected 0)" if unit else ""))
            if unit and ca.get(0) != ["unwrap_unit"]:
                problems.append("arg_is_unit() is true but the call arm does not unwrap a unit")
            if sig["generics"] != t.force[v][0]:
                problems.append("force_count() is %d but the Aiken signature quantifies over %d type variable(s)" % (t.force[v][0], sig["generics"]))
        if problems:
            rep.bad(rid, v, where, "; ".join(problems), sample={"arity": ar, "call_args": used, "cost_args": ncost, "aiken": sig["arity"], "force": t.force[v][0], "generics": sig["generics"]})
        else:
            rep.ok(rid, v, where, sample={"builtin": v, "arity": ar, "call_reads": used, "cost_args": ncost, "aiken_arity": sig["arity"], "force_count": t.force[v][0], "aiken_generics": sig["generics"]})


def _checks_element_type(t, v, i):
    """the arm binds the type component of `args[i].unwrap_list()?` to a name and uses that name (a comparison, a match)"""
    sh = t.sh
    body = t.call[v]["body"]
    for n in walk(body):
        if n.get("k") != "Local" or n.get("init") is None or not isinstance(n.get("pat"), dict):
            continue
        if not re.match(r"^args\[%d\]\.unwrap_list\(\)\?$" % i, sh.nsrc(RT, n["init"])):
            continue
        pat = n["pat"]
        if pat.get("k") != "PTuple" or not pat.get("elems"):
            return False
        first = pat["elems"][0]
        name = first.get("name") if first.get("k") == "Ident" else None
        if not name or name.startswith("_"):
            return False
        bare = name[2:] if name.startswith("r#") else name
        uses = [x for x in walk(body) if x.get("k") == "Path" and x.get("p") in (name, bare, "r#" + bare)]
        return len(uses) >= 1
    return False


def rule_sig(t, rep, rid, oracle_wrong=None):
    """position by position, the evaluator's unwrapper matches the Aiken parameter type.
    oracle_wrong: {"Builtin#argindex": reason} rows where the *Aiken signature* is the side at fault; the property using
    the evaluator as subject treats them as reviewed, the property about the type checker (C06) does not pass this table."""
    oracle_wrong = oracle_wrong or {}
    sh = t.sh
    for v in t.variants:
        if v not in t.call or v not in t.aiken:
            rep.bad(rid, v + "#no-explicit-arm", RT, "builtin %s has no explicit call / from_default_function arm" % v)
            continue
        sig = t.aiken_sig(v)
        ca = t.call_args(v)
        where = sh.loc(RT, t.call[v])
        if sig["params"] is None:
            rep.bad(rid, v + "#signature-unrecognised", sh.loc(AB, t.aiken[v]), "Aiken signature not of the form Type::function(vec![..], ret)")
            continue
        if t.unit.get(v, (False,))[0]:
            rep.ok(rid, v, where, why="unit-argument builtin: no Aiken parameter to compare", nontrivial=False)
            continue
        rows = []
        bad = []
        for i, p in enumerate(sig["params"]):
            sc = sig_class(p, sig["binds"])
            ms = ca.get(i, [None])
            # the first use decides how the argument is read
            um = [m for m in ms if m is None or m.startswith("unwrap") or m == "clone"]
            uc = UNWRAP_CLASS.get(um[0] if um else None, "?" + str(um[0] if um else None))
            if uc == "any" and (not um or um[0] is None):
                # the argument is matched directly: its class is the Constant kind the patterns demand
                kinds = set()
                for n in walk(t.call[v]["body"]):
                    if n["k"] == "PTupleStruct" and n["p"].split("::")[-2:-1] == ["Constant"]:
                        kinds.add(last(n["p"]))
                km = {"Data": "data", "Integer": "int", "ByteString": "bytes", "String": "string", "Bool": "bool", "Unit": "unit"}
                if len(kinds) == 1 and next(iter(kinds)) in km and len(sig["params"]) == 1:
                    uc = km[next(iter(kinds))]
            rows.append({"arg": i, "aiken": sc, "evaluator": uc})
            if sc.startswith("?") or uc.startswith("?"):
                bad.append("argument %d: unrecognised type/unwrapper (%s / %s)" % (i, sc, uc))
            elif uc == "list<?>" and re.match(r"^list<(int|bytes|string|bool|data|g1|g2|ml|unit)>$", sc) and not _checks_element_type(t, v, i):
                bad.append("argument %d: Aiken types it %s, the evaluator takes it apart with unwrap_list and discards the element type: an (empty) list of another element type is accepted where the builtin must fail with a type error" % (i, sc))
            elif not compatible(sc, uc):
                if "%s#%d" % (v, i) in oracle_wrong:
                    rows[-1]["reviewed"] = oracle_wrong["%s#%d" % (v, i)]
                else:
                    bad.append("argument %d: Aiken types it %s but the evaluator reads it as %s" % (i, sc, uc))
        if bad:
            rep.bad(rid, v, where, "; ".join(bad), sample={"builtin": v, "rows": rows})
        else:
            rep.ok(rid, v, where, sample={"builtin": v, "rows": rows})


def rule_size(t, rep, rid):
    """to_ex_budget arm for X reads only self.<x>; mem and cpu get token-identical size arguments from the mem / cpu halves"""
    sh = t.sh
    for v in t.variants:
        if v not in t.cost:
            rep.bad(rid, v + "#no-explicit-arm", CM, "builtin %s has no explicit to_ex_budget arm" % v)
            continue
        ci = t.cost_info(v)
        where = sh.loc(CM, t.cost[v])
        want = cost_field_of(t, v)
        problems = []
        if want is None:
            problems.append("no BuiltinCosts field corresponds to %s" % v)
        fs = set(ci["fields"])
        if want and fs != {want}:
            problems.append("arm reads cost field(s) %s, expected only self.%s" % (sorted(fs), want))
        if not ci["mem"] or not ci["cpu"]:
            problems.append("ExBudget{mem: ..cost(..), cpu: ..cost(..)} literal not found")
        else:
            (ma, md, mb), (ca, cd, cb) = ci["mem"], ci["cpu"]
            if md != "mem" or cd != "cpu":
                problems.append("mem is computed from .%s and cpu from .%s" % (md, cd))
            if ma != ca:
                problems.append("mem and cpu are sized differently: %r vs %r" % (ma, ca))
            if mb != cb:
                problems.append("mem uses self.%s but cpu uses self.%s" % (mb, cb))
        if problems:
            rep.bad(rid, v, where, "; ".join(problems), sample={"builtin": v, "fields": sorted(fs), "mem": ci["mem"], "cpu": ci["cpu"]})
        else:
            rep.ok(rid, v, where, sample={"builtin": v, "field": want, "size_args": ci["mem"][0]})
