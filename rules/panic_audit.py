"""Family P: panic-site audit over MIR facts (shared by C10, C12, C18, C19, C20).

A *site* is a point of normal control flow at which the compiled code can start unwinding for a reason that the
source spells out: an `unwrap`/`expect`, a `panic!`-family macro, an `Index`/`IndexMut` call, a bounds / overflow /
division `Assert` terminator, or a call to one of the std / num-bigint / bitvec APIs that are documented to panic on
some argument (PANICKING_API). Sites are enumerated for every function reachable in the resolved call graph from the
named entry points; closures are attributed to the function that defines them (closure numbering is not stable).

Verdict per (function, kind):
  * sites of a class whose safety is *derived* on every run are discharged automatically (`args[k]` with a literal
    k inside the two builtin tables, by R03-ARITY; a constant index into a longer constant-length array);
  * everything else is compared with the review table (rules/panic_baseline.json): `count <= reviewed` passes, a
    function/kind pair with more sites than were reviewed — or one that was never reviewed — is a violation that names
    the function, the kind and the source lines. Fewer sites than reviewed is reported as INFO (stale entry).
The table stores counts and a reason, never line numbers or source text: moving or reformatting code, renaming
variables, or removing a site never alarms; adding a new way to panic on the audited path does.
"""
import json, os, re
from . import lib

BASELINE = os.path.join(lib.VERIF, "rules", "panic_baseline.json")

PANIC_MACROS = {"panic", "unreachable", "todo", "unimplemented", "assert", "assert_eq", "assert_ne", "debug_assert", "debug_assert_eq", "debug_assert_ne"}

# external callees documented to panic for some argument value (kind = api(<name>))
PANICKING_API = [
    (r"^num_integer::Integer::(div_floor|mod_floor|div_rem|div_mod_floor|div_ceil|gcd_lcm|next_multiple_of|prev_multiple_of)$", "bigint-division"),
    (r"^std::ops::(Div|Rem|DivAssign|RemAssign)::(div|rem|div_assign|rem_assign)$", "operator-division"),
    (r"num_bigint::(BigInt|BigUint)::(modpow|pow|modinv|nth_root)$", "bigint-pow"),
    (r"^num_traits::(Pow|pow)::pow$", "bigint-pow"),
    (r"^std::vec::from_elem$", "alloc-from-elem"),
    (r"^(std|alloc)::(vec::Vec|string::String|collections::VecDeque)::<.*>::(with_capacity|reserve|reserve_exact)$", "alloc-capacity"),
    (r"::<impl \[T\]>::repeat$", "alloc-repeat"),
    (r"^std::(vec::Vec|collections::VecDeque)::<.*>::(remove|swap_remove|insert|split_off|drain|splice|truncate_front|swap)$", "vec-position"),
    (r"^core::slice::<impl \[T\]>::(split_at|split_at_mut|copy_from_slice|clone_from_slice|chunks|chunks_exact|chunks_mut|windows|rotate_left|rotate_right|swap|copy_within|select_nth_unstable)$", "slice-position"),
    (r"^core::str::<impl str>::(split_at|split_at_mut)$", "str-position"),
    (r"^std::string::String::(remove|insert|insert_str|truncate|split_off|drain|replace_range)$", "string-position"),
    (r"^bitvec::.*::(shift_left|shift_right|rotate_left|rotate_right|split_at|split_at_mut|set|swap|remove|insert)$", "bitvec-position"),
    (r"From<&\[u8\]> for pallas_\w+::(hash::)?Hash<|<pallas_\w+::(hash::)?Hash<\w+> as std::convert::From<&\[u8\]>>::from", "fixed-size-from-slice"),
    (r"^std::cell::RefCell::<T>::(borrow|borrow_mut)$", "refcell-borrow"),
    (r"^std::iter::Iterator::step_by$", "step-by"),
    (r"^std::(option::Option|result::Result)::<.*>::(unwrap_unchecked|unwrap_err|expect_err)$", "unwrap-other"),
    (r"^std::sync::(Mutex|RwLock)::<T>::(lock|read|write)$", None),  # returns Result; the unwrap is the site
    (r"^std::thread::", None),
    (r"^core::num::<impl (u|i)(8|16|32|64|128|size)>::(abs|pow|div_euclid|rem_euclid|ilog2|ilog10|ilog|next_power_of_two|strict_\w+)$", "int-partial"),
    (r"^std::char::from_digit$", "char-radix"),
    (r"^std::process::exit$", "process-exit"),
    (r"^std::time::Instant::(duration_since|elapsed)$", None),
    (r"^std::ops::(Add|Sub|Mul|Neg|Shl|Shr)::\w+$", None),
]
_API = [(re.compile(r), k) for r, k in PANICKING_API if k]


def _short_ty(t):
    t = re.sub(r"\b(?:[a-z_][a-z0-9_]*::)+", "", t)  # drop module paths
    t = re.sub(r"\s+", "", t)
    return t[:90]


def site_kind(f, b):
    """kind string of a block's terminator if it is a panic site, else None"""
    k = b.get("k")
    if b["c"]:
        return None
    if k == "assert":
        ak = b["ak"]
        if ak.startswith("other"):
            return None  # debug-only pointer alignment / null checks inserted by rustc, not source constructs
        if ak == "bounds":
            return "bounds"
        return "%s(%s)" % (ak, _short_ty(b.get("ot", ""))) if b.get("ot") else ak
    if k != "call":
        return None
    cal = b.get("callee") or ""
    decl = b.get("decl") or ""
    if cal.startswith("core::panicking::") or cal.startswith("std::rt::begin_panic") or cal in ("core::option::unwrap_failed", "core::option::expect_failed", "core::result::unwrap_failed"):
        m = re.sub(r"_20\d\d$", "", (b.get("m") or "").split("::")[-1])
        if cal.endswith("panic_nounwind") or cal.endswith("panic_cannot_unwind"):
            return None
        if m in PANIC_MACROS or not b.get("x"):
            return "panic!(%s)" % (m or cal.split("::")[-1])
        # inside another macro's expansion (matches!, write!, peg glue …): the macro's own panics
        return "panic!(in %s!)" % m
    mm = re.match(r"^std::(option::Option|result::Result)::<.*>::(unwrap|expect)$", cal)
    if mm:
        return "%s(%s)" % (mm.group(2), _short_ty((b.get("at") or ["?"])[0]))
    if decl in ("std::ops::Index::index", "std::ops::IndexMut::index_mut") or cal in ("std::ops::Index::index", "std::ops::IndexMut::index_mut"):
        at = b.get("at") or ["?", "?"]
        base = _short_ty(at[0]).lstrip("&").replace("mut", "", 1) if at else "?"
        return "index(%s[%s])" % (base, _short_ty(at[1]) if len(at) > 1 else "?")
    for r, kind in _API:
        if r.search(cal) or (decl and r.search(decl)):
            if kind in ("operator-division",):
                # only integer-like left operands can fail (BigInt and primitive); floats cannot
                at = b.get("at") or []
                if at and re.search(r"\bf(32|64)\b", at[0]):
                    return None
            return "api(%s:%s)" % (kind, cal.split("::")[-1])
    return None


def root_of(fl, f):
    if "closure_of" in f and f["closure_of"] in fl.fns:
        return fl.fns[f["closure_of"]]
    return f


def rel_file(f):
    p = f["file"]
    return p[p.index("crates/") :] if "crates/" in p else p


class LineIndex:
    """shape nodes by (file, start line)"""

    def __init__(self, shape):
        self.shape = shape
        self._idx = {}

    def nodes(self, rel, line, kind):
        if rel not in self._idx:
            d = {}
            try:
                fj = self.shape.file(rel)
            except lib.AnchorMissing:
                fj = None
            if fj is not None:
                for n in lib.walk(fj):
                    if n.get("k") in ("Index",) and "s" in n:
                        d.setdefault((n["k"], n["s"][0]), []).append(n)
            self._idx[rel] = d
        return self._idx[rel].get((kind, line), [])


ARITY_TABLE_FNS = re.compile(r"(::call$|::to_ex_budget$)")


def auto_discharge(fl, f, b, kind, li):
    """-> reason string if the site is safe by a derived argument, else None"""
    if re.match(r"^index\(.*\[RangeFull\]\)$", kind):
        return "a full-range slice `x[..]` has no bound to exceed (Index<RangeFull> of arrays, slices, Vec and str never panics)"
    if kind == "bounds":
        lc = f.get("lc", {})
        idx, ln = b.get("idx", ""), b.get("len", "")
        idx = lc.get(idx[1:], idx) if idx.startswith("_") else idx
        ln = lc.get(ln[1:], ln) if ln.startswith("_") else ln
        mi = re.match(r"^(?:const )?(\d+)_usize$", idx)
        ml = re.match(r"^(?:const )?(\d+)_usize$", ln)
        if mi and ml and int(mi.group(1)) < int(ml.group(1)):
            return "constant index %s into an array of constant length %s" % (mi.group(1), ml.group(1))
        if mi and ARITY_TABLE_FNS.search(root_of(fl, f)["path"]) and li is not None:
            nodes = li.nodes(rel_file(f), b["l"], "Index")
            if nodes and all(n["e"].get("k") == "Path" and n["e"]["p"] == "args" and n["i"].get("k") == "Lit" and n["i"].get("lk") == "int" for n in nodes):
                return "args[k] with literal k < arity(builtin): R03-ARITY proves the largest literal index of every arm equals arity-1 and eval_builtin_app only calls with a saturated argument vector"
    return None


def collect(fl, roots, li=None, stop=None):
    """-> (per {root path: {kind: [ (file, line) ]}}, discharged [(path, kind, reason)], reachable ids)"""
    seen = fl.reachable(roots, stop=stop)
    per, auto = {}, []
    for i in seen:
        f = fl.fns[i]
        if f["krate"] not in ("uplc", "aiken_lang", "aiken_project", "aiken"):
            continue
        if stop is not None and stop(f):
            continue  # audited under another section
        rp = root_of(fl, f)["path"]
        for b in f["blocks"]:
            kind = site_kind(f, b)
            if not kind:
                continue
            why = auto_discharge(fl, f, b, kind, li)
            if why:
                auto.append((rp, kind, why, "%s:%d" % (rel_file(f), b["l"])))
                continue
            per.setdefault(rp, {}).setdefault(kind, []).append("%s:%d" % (rel_file(f), b["l"]))
    return per, auto, seen


def load_baseline(section):
    if not os.path.exists(BASELINE):
        raise lib.AnchorMissing("review table rules/panic_baseline.json")
    sec = json.load(open(BASELINE)).get(section, {})
    rp = os.path.join(lib.VERIF, "rules", "reasons", section + ".json")
    sec["reasons"] = json.load(open(rp)) if os.path.exists(rp) else []
    return sec


def audit(rep, rid, fl, roots, section, li=None, stop=None, floor_sites=0, describe=""):
    """compare the reachable panic sites with the reviewed table of `section`"""
    base = load_baseline(section)
    table = base.get("functions", {})
    reasons = [(re.compile(r["fn"]), re.compile(r["kind"]), r["why"]) for r in base.get("reasons", [])]
    per, auto, seen = collect(fl, roots, li, stop)
    nsites = sum(len(v) for d in per.values() for v in d.values())
    rep.info("%s: %d functions reachable from %d entry points (%s); %d panic sites compared with the review table, %d discharged by derivation" % (rid, len(seen), len(roots), describe, nsites, len(auto)))
    by_reason = {}
    for rp, kind, why, where in auto:
        by_reason.setdefault((rp, why), []).append(where)
    for (rp, why), ws in sorted(by_reason.items()):
        rep.ok(rid, "%s#auto" % rp + ("#args" if "arity" in why else "#const-index"), ws[0], why="%d sites: %s" % (len(ws), why), sample={"sites": len(ws)})
    # section totals per kind: extracting a helper or inlining one moves sites between functions without adding a way to panic
    tot_now, tot_rev = {}, {}
    for rp, kinds in per.items():
        for kind, locs in kinds.items():
            tot_now[kind] = tot_now.get(kind, 0) + len(locs)
    for rp, kinds in table.items():
        for kind, c in kinds.items():
            tot_rev[kind] = tot_rev.get(kind, 0) + c
    for rp in sorted(per):
        for kind, locs in sorted(per[rp].items()):
            n = len(locs)
            reviewed = table.get(rp, {}).get(kind, 0)
            key = "%s#%s" % (rp, kind)
            why_ok = next((w for fr, kr, w in reasons if fr.search(rp) and kr.search(kind)), None)
            if n <= reviewed and why_ok is not None:
                rep.ok(rid, key, locs[0], why="%d site(s), %d reviewed: %s" % (n, reviewed, why_ok), sample={"sites": sorted(set(locs))[:6]})
            elif n <= reviewed:
                rep.bad(rid, key + "#no-reason", locs[0], "review table lists %d site(s) of kind %s in %s but carries no reason for them" % (reviewed, kind, rp))
            elif tot_now.get(kind, 0) <= tot_rev.get(kind, 0):
                rep.ok(rid, key, locs[0], why="%d site(s) here, %d reviewed here, but the audited section as a whole has %d of this kind against %d reviewed: sites moved between functions (helper extracted / inlined), no new way to panic" % (n, reviewed, tot_now[kind], tot_rev[kind]), sample={"sites": sorted(set(locs))[:6], "moved": True})
            else:
                rep.bad(
                    rid,
                    key,
                    sorted(set(locs))[0],
                    "%s (reachable via %s) has %d panic site(s) of kind %s, %d reviewed (section total %d, reviewed %d): an unreviewed way to crash on the audited path — lines %s" % (rp, " -> ".join(_chain(fl, rp)), n, kind, reviewed, tot_now.get(kind, 0), tot_rev.get(kind, 0), ", ".join(sorted(set(locs))[:8])),
                    sample={"sites": sorted(set(locs))[:10], "reviewed": reviewed},
                )
    for rp, kinds in sorted(table.items()):
        for kind, reviewed in sorted(kinds.items()):
            n = len(per.get(rp, {}).get(kind, []))
            if n < reviewed:
                rep.info("STALE-REVIEW %s %s#%s: %d reviewed, %d present (not an error)" % (rid, rp, kind, reviewed, n))
    if nsites + len(auto) < floor_sites:
        rep.bad(rid, "BELOW-FLOOR-SITES", "", "only %d panic sites found on the audited path, expected at least %d: the entry points or the call graph are incomplete" % (nsites + len(auto), floor_sites))
    return per, auto, seen


def _chain(fl, path):
    fs = fl.by_path.get(path)
    if not fs:
        return [path]
    ch = fl.path_to(fs[0]["id"])
    ch = [c.split("::")[-1] if len(c) > 60 else c for c in ch]
    return ch[-5:] if ch else [path]
