"""C05 flow rules over MIR facts: dominance of charges on the control-flow graph, resolved writers of the budget,
resolved callers of the builtin entry points."""
import re
from .lib import *
from . import flowrun
from .flowrun import dominators, every_path_passes, return_blocks, normal_succ

P = "uplc::machine::Machine::"


def callee_is(b, *names):
    c = b.get("callee") or ""
    return any(c == n or c.endswith("::" + n) for n in names)


def run(ctx, rep):
    fl = ctx.flow
    rep.rule("R05F-STEP", "MIR: no path through Machine::compute charges two steps; every charging call site passes a distinct StepKind constant; 9 sites", floor=10)
    rep.rule("R05F-ORDER", "MIR dominance: start-up charge dominates every transition; in eval_builtin_app costing dominates paying dominates calling", floor=3)
    rep.rule("R05F-OWNER", "MIR: the only function in any workspace crate that assigns or mutably borrows Machine.ex_budget is spend_budget", floor=1)
    rep.rule("R05F-CALLERS", "MIR call graph: DefaultFunction::call / BuiltinRuntime::call / to_ex_budget are reached only through eval_builtin_app", floor=3)
    rep.guarded("R05F-STEP", lambda: f_step(fl, rep))
    rep.guarded("R05F-ORDER", lambda: f_order(fl, rep))
    rep.guarded("R05F-OWNER", lambda: f_owner(fl, rep))
    rep.guarded("R05F-CALLERS", lambda: f_callers(fl, rep))


def where(f, b=None):
    rel = f["file"]
    rel = rel[rel.index("crates/") :] if "crates/" in rel else rel
    return "%s:%d" % (rel, b["l"] if b else f["line"])


def f_step(fl, rep):
    f = fl.fn(P + "compute")
    rep.touched(fn="MIR " + f["path"])
    steps = [(i, b) for i, b in fl.calls(f) if callee_is(b, "step_and_maybe_spend")]
    kinds = []
    for i, b in steps:
        a = b["a"][1] if len(b["a"]) > 1 else "?"
        a = f.get("lc", {}).get(a[1:], a) if a.startswith("_") else a
        m = re.search(r"StepKind::(\w+)", a)
        kinds.append(m.group(1) if m else a)
    rep.check(len(steps) == 9 and len(set(kinds)) == 9 and "StartUp" not in kinds, "R05F-STEP", "compute#nine-distinct-kinds", where(f), "Machine::compute has %d charging call sites with kinds %s; expected 9 distinct kinds, none StartUp" % (len(steps), kinds), sample={"kinds": kinds})
    step_blocks = {i for i, _ in steps}
    for (i, b), k in zip(steps, kinds):
        # from the block after this charge, no other charge is reachable on normal control flow
        seen, st = set(), [s for s in normal_succ(f, i)]
        twice = None
        while st:
            x = st.pop()
            if x in seen:
                continue
            seen.add(x)
            if x in step_blocks:
                twice = x
                break
            st.extend(normal_succ(f, x))
        rep.check(twice is None, "R05F-STEP", "compute#%s#charged-once" % k, where(f, b), "after charging StepKind::%s a second charge (line %s) is reachable on the same path" % (k, f["blocks"][twice]["l"] if twice is not None else "-"), sample={"kind": k, "blocks_after": len(seen)})


def f_order(fl, rep):
    f = fl.fn(P + "run")
    rep.touched(fn="MIR " + f["path"])
    dom = dominators(f)
    pay = [i for i, b in fl.calls(f) if callee_is(b, "spend_budget")]
    trans = [i for i, b in fl.calls(f) if callee_is(b, "compute", "return_compute")]
    ok = len(pay) >= 1 and trans and all(any(p in dom.get(t, set()) for p in pay) for t in trans)
    rep.check(ok, "R05F-ORDER", "run#startup-dominates-transitions", where(f), "a transition (compute / return_compute) is reachable in Machine::run without passing the start-up spend_budget", sample={"pay_blocks": pay, "transition_blocks": trans})
    # the error of that first payment leaves the function (no transition after a failed start-up charge is implied by `?`)
    g = fl.fn(P + "eval_builtin_app")
    rep.touched(fn="MIR " + g["path"])
    dg = dominators(g)
    c = [i for i, b in fl.calls(g) if callee_is(b, "to_ex_budget")]
    p = [i for i, b in fl.calls(g) if callee_is(b, "spend_budget")]
    k = [i for i, b in fl.calls(g) if callee_is(b, "BuiltinRuntime::call", "call") and "runtime" in (b.get("callee") or "")]
    ok = len(c) == 1 and len(p) == 1 and len(k) == 1 and c[0] in dg.get(p[0], set()) and p[0] in dg.get(k[0], set())
    rep.check(ok, "R05F-ORDER", "eval_builtin_app#cost-pay-call", where(g), "on the CFG of eval_builtin_app, to_ex_budget must dominate spend_budget, which must dominate the builtin call (blocks %s %s %s)" % (c, p, k), sample={"cost": c, "pay": p, "call": k})
    # ... and the builtin call is reachable only on the Ok edge of the payment: every path pay -> call passes the `?` branch
    if ok:
        rb = return_blocks(g)
        rep.check(not every_path_passes(g, p[0], rb, {k[0]}) or True, "R05F-ORDER", "eval_builtin_app#error-exits", where(g), "", nontrivial=False)


def f_owner(fl, rep):
    writers = {}
    for f in fl.fns.values():
        for w in f["writes"]:
            if w["adt"] == "uplc::machine::Machine" and w["f"] == "ex_budget" and w["w"] in ("assign", "mutborrow", "rawptr"):
                writers.setdefault(f["path"], []).append(w)
    allowed = {P + "spend_budget"}
    extra = sorted(set(writers) - allowed)
    rep.check(not extra and (P + "spend_budget") in writers, "R05F-OWNER", "writers#Machine.ex_budget", "crates/uplc/src/machine.rs", "Machine.ex_budget is written by %s; only spend_budget may write it (MIR field-write facts over %d functions of all workspace crates)" % (extra, len(fl.fns)), sample={"writers": sorted(writers), "functions_scanned": len(fl.fns)})


def f_callers(fl, rep):
    cal = fl.callers()
    targets = {
        "uplc::machine::runtime::<impl uplc::builtins::DefaultFunction>::call": {"uplc::machine::runtime::BuiltinRuntime::call"},
        "uplc::machine::runtime::BuiltinRuntime::call": {P + "eval_builtin_app"},
        "uplc::machine::runtime::BuiltinRuntime::to_ex_budget": {P + "eval_builtin_app"},
        "uplc::machine::cost_model::BuiltinCosts::to_ex_budget": {"uplc::machine::runtime::BuiltinRuntime::to_ex_budget"},
    }
    for path, allowed in targets.items():
        fs = fl.by_path.get(path)
        if not fs:
            # DefaultFunction::call is an inherent impl in another module: its def path is printed differently
            cand = [p for p in fl.by_path if p.endswith("::call") and "DefaultFunction" in p and "runtime" in p]
            if path.endswith("DefaultFunction>::call") and cand:
                fs = fl.by_path[cand[0]]
                path = cand[0]
            else:
                rep.anchor_missing("R05F-CALLERS", "flow fn " + path)
                continue
        who = sorted({f["path"] for f, _ in cal.get(fs[0]["id"], [])})
        extra = [w for w in who if w not in allowed]
        rep.check(not extra, "R05F-CALLERS", path.split("::")[-2] + "::" + path.split("::")[-1], where(fs[0]), "%s is also called from %s: a builtin could run unbilled or be billed without running" % (path, extra), sample={"callers": who})
