"""R01-CAST / R06-REPR / R12-SHAPE(codegen columns) / R14-DUAL: the four functions of gen_uplc/builder.rs that encode
"how a value of type T looks as Data" agree per type kind."""
import re
from .lib import *

GB = "crates/aiken-lang/src/gen_uplc/builder.rs"
FUNCS = ["convert_type_to_data", "known_data_to_type", "unknown_data_to_type", "softcast_data_to_type_otherwise"]
DIRECTION = {"convert_type_to_data": "to", "known_data_to_type": "from", "unknown_data_to_type": "from", "softcast_data_to_type_otherwise": "from"}

# name table: term-builder helper -> (Data class, direction) ; direction 'to' builds Data, 'from' takes it apart / tests it
HELPER_CLASS = {
    "i_data": ("I", "to"), "un_i_data": ("I", "from"), "choose_data_integer": ("I", "from"),
    "b_data": ("B", "to"), "un_b_data": ("B", "from"), "choose_data_bytearray": ("B", "from"),
    "list_data": ("List", "to"), "unlist_data": ("List", "from"), "choose_data_list": ("List", "from"),
    "map_data": ("Map", "to"), "unmap_data": ("Map", "from"), "choose_data_map": ("Map", "from"),
    "unconstr_data": ("Constr", "from"), "choose_data_constr": ("Constr", "from"), "unwrap_bool_or": ("Constr", "from"), "unwrap_void_or": ("Constr", "from"),
    "constr": ("Constr", "to"),
}
# spec table: Aiken's representation of each type kind as Data (language reference: Int -> I, ByteArray/String/BLS -> B, List -> List,
# list of pairs -> Map, Pair/tuples -> List, Bool/Void/ADTs -> Constr, Data -> itself)
KIND_CLASS = {
    "Integer": "I", "ByteString": "B", "String": "B", "Bool": "Constr", "Unit": "Constr", "List": "List", "Map": "Map", "Pair": "List",
    "Bls12_381G1Element": "B", "Bls12_381G2Element": "B",
}
# extra transformation each kind needs on top of the Data class: (to-data helper, from-data helper)
KIND_XFORM = {
    "String": ("encode_utf8", "decode_utf8"),
    "Bls12_381G1Element": ("bls12_381_g1_compress", "bls12_381_g1_uncompress"),
    "Bls12_381G2Element": ("bls12_381_g2_compress", "bls12_381_g2_uncompress"),
}
ALL_XFORMS = {x for p in KIND_XFORM.values() for x in p}


def arm_kinds(sh, arm):
    """type kinds an arm of `match uplc_type` covers"""
    kinds = []
    guard = sh.nsrc(GB, arm["guard"]) if "guard" in arm else None
    for alt in pat_alts(arm["pat"]):
        h = pat_head(alt)
        if h is None:
            kinds.append("*")
        elif last(h) == "None":
            kinds.append("ADT")
        elif last(h) == "Some" and alt["k"] == "PTupleStruct":
            inner = alt["elems"][0]
            ih = pat_head(inner)
            k = last(ih) if ih else "*"
            if k == "List":
                k = "Map" if guard and "is_map()" in guard else "List"
            kinds.append(k)
        else:
            kinds.append("?" + str(h))
    return kinds


def helper_names(node):
    out = []
    for c in calls_in(node):
        nm = call_name(c)
        if nm:
            out.append(last(nm))
    return out


def table(sh):
    fj = sh.file(GB)
    tab = {}
    for fn in FUNCS:
        f = find_fn(fj, fn)
        m = None
        for mm in matches_in(f["body"]):
            if sh.nsrc(GB, mm["e"]) == "uplc_type":
                m = mm
                break
        if m is None:
            raise AnchorMissing("match uplc_type in %s" % fn)
        rows = {}
        for arm in m["arms"]:
            for k in arm_kinds(sh, arm):
                rows.setdefault(k, arm)
        tab[fn] = (f, rows)
    return tab


def rule_cast(sh, rep, rid):
    tab = table(sh)
    kinds = list(KIND_CLASS) + ["Data", "ADT"]
    for fn in FUNCS:
        f, rows = tab[fn]
        rep.touched(GB, fn)
        direction = DIRECTION[fn]
        if "*" in rows:
            rep.bad(rid, "%s#catch-all" % fn, sh.loc(GB, rows["*"]), "%s has a catch-all over the type kind: a new kind would silently get another kind's representation" % fn)
        for k in kinds:
            key = "%s#%s" % (fn, k)
            if k not in rows:
                if "*" not in rows:
                    rep.bad(rid, key + "#no-arm", sh.loc(GB, f), "%s has no arm for type kind %s" % (fn, k))
                continue
            arm = rows[k]
            where = sh.loc(GB, arm)
            names = helper_names(arm["body"])
            classes = {}
            for n in names:
                if n in HELPER_CLASS:
                    classes.setdefault(HELPER_CLASS[n][0], set()).add((n, HELPER_CLASS[n][1]))
            if k in ("Data", "ADT"):
                # identity, List (under the @list decorator) or a Constr test (soft cast of an ADT)
                allowed = {"List", "Constr"} if fn == "softcast_data_to_type_otherwise" else {"List"}
                extra = set(classes) - allowed
                lst = "DecoratorKind::List" in sh.nsrc(GB, arm["body"]) if k == "ADT" or fn != "softcast_data_to_type_otherwise" else True
                problems = []
                if extra:
                    problems.append("uses Data class(es) %s for an ADT/Data value" % sorted(extra))
                if not lst and (k == "ADT" or fn != "softcast_data_to_type_otherwise"):
                    problems.append("does not consult the @list decorator")
                if problems:
                    rep.bad(rid, key, where, "; ".join(problems))
                else:
                    rep.ok(rid, key, where, sample={"fn": fn, "kind": k, "classes": sorted(classes)})
                continue
            want = KIND_CLASS[k]
            problems = []
            got = set(classes)
            if k == "Pair" and direction == "from" and fn != "known_data_to_type":
                got.discard("List") if False else None
            if fn == "known_data_to_type" and k == "Unit" and not got:
                # review: known (trusted) data of type Void carries no information; the conversion discards it
                pass
            elif got != {want}:
                # Bool->Data uses literal Data constants (Data::constr) through if_then_else; Unit->Data too
                problems.append("represents %s as Data class %s; Aiken's representation is %s" % (k, sorted(got) or "none", want))
            else:
                dirs = {d for _, d in classes[want]}
                if dirs != {direction}:
                    problems.append("uses %s in a %s-Data conversion" % (sorted(n for n, _ in classes[want]), direction))
            xf = KIND_XFORM.get(k)
            used_x = [n for n in names if n in ALL_XFORMS]
            if xf:
                need = xf[0] if direction == "to" else xf[1]
                if used_x != [need]:
                    problems.append("must apply exactly %s, applies %s" % (need, used_x))
            elif used_x:
                problems.append("applies %s, which belongs to another type kind" % used_x)
            src = sh.nsrc(GB, arm["body"])
            if k == "Bool":
                if fn == "convert_type_to_data":
                    mm = re.search(r"if_then_else\(.*?constr\((\d),vec!\[\]\).*?constr\((\d),vec!\[\]\)", src)
                    if not mm or (mm.group(1), mm.group(2)) != ("1", "0"):
                        problems.append("True must become constructor 1 and False constructor 0")
                if fn == "known_data_to_type":
                    if "equals_integer().apply(Term::integer(1.into()))" not in src or "fst_pair()" not in src:
                        problems.append("a Bool is True iff the constructor index equals 1")
            if k == "Unit" and fn == "convert_type_to_data" and "constr(0,vec![])" not in src:
                problems.append("Void must become constructor 0 without fields")
            if k == "Pair":
                if direction == "to" and not (src.index("fst_pair") < src.index("snd_pair") if "fst_pair" in src and "snd_pair" in src else False):
                    problems.append("a pair must become the two-element list [fst, snd]")
                if fn == "unknown_data_to_type" and "Term::Error" not in src:
                    problems.append("a list with more than two elements must be rejected")
                if fn == "softcast_data_to_type_otherwise" and "unwrap_pair_or" not in src:
                    problems.append("exactly two elements must be required (unwrap_pair_or)")
            if problems:
                rep.bad(rid, key, where, "; ".join(problems), sample={"fn": fn, "kind": k, "helpers": sorted(set(names) & (set(HELPER_CLASS) | ALL_XFORMS))})
            else:
                rep.ok(rid, key, where, sample={"fn": fn, "kind": k, "class": want, "helpers": sorted(set(names) & (set(HELPER_CLASS) | ALL_XFORMS))})
    return tab


def rule_dual(sh, rep, rid):
    """R14-DUAL: the two decoders an `expect` may use (hard: unknown_data_to_type, soft: softcast_data_to_type_otherwise)
    abort on the same shapes, kind by kind: both check the Data class, both require exactly two elements for pairs and a
    field-less constructor of the right index for Bool/Void."""
    tab = table(sh)
    hard = tab["unknown_data_to_type"][1]
    soft = tab["softcast_data_to_type_otherwise"][1]
    for k in list(KIND_CLASS):
        if k not in hard or k not in soft:
            rep.bad(rid, "dual#%s#no-arm" % k, GB, "one of the two decoders has no arm for %s" % k)
            continue
        hn = set(helper_names(hard[k]["body"]))
        sn = set(helper_names(soft[k]["body"]))
        hc = {HELPER_CLASS[n][0] for n in hn if n in HELPER_CLASS}
        sc = {HELPER_CLASS[n][0] for n in sn if n in HELPER_CLASS}
        problems = []
        if hc != sc:
            problems.append("hard cast checks Data class %s, soft cast %s" % (sorted(hc), sorted(sc)))
        if k in ("Bool", "Unit"):
            need = "unwrap_bool_or" if k == "Bool" else "unwrap_void_or"
            if need not in hn or need not in sn:
                problems.append("both decoders must go through %s (index and no-fields check)" % need)
        if k == "Pair":
            hs = sh.nsrc(GB, hard[k]["body"])
            if not ("tail_list().apply(Term::tail_list()" in hs and "delayed_choose_list(" in hs and "Term::Error" in hs) or "unwrap_pair_or" not in sn:
                problems.append("both decoders must reject lists that do not have exactly two elements")
        rep.check(not problems, rid, "dual#%s" % k, sh.loc(GB, soft[k]), "; ".join(problems), sample={"kind": k, "hard": sorted(hn & set(HELPER_CLASS)), "soft": sorted(sn & set(HELPER_CLASS))})
