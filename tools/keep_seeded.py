#!/usr/bin/env python3
"""Keep a confirmed seeded change as /verif/seeded/<ID>-m<k>/ (patch.diff, demonstration, meta.json).
usage: keep_seeded.py <ID> <k>"""
import json, os, shutil, sys, glob
ID, k = sys.argv[1], sys.argv[2]
out = "/tmp/wt/%s-out/m%s" % (ID, k)
meta = json.load(open(os.path.join(out, "meta.json")))
conf = json.load(open(os.path.join(out, "confirm.json")))
s = conf.get("suite_with_change", {})
ok = conf["demo_with_change_rc"] != 0 and conf["demo_without_change_rc"] == 0 and s.get("failed") == 0 and s.get("passed", 0) >= 860 and not [e for e in s.get("errors", []) if e.startswith("error")]
if not ok:
    print("NOT CONFIRMED", ID, k, {x: conf.get(x) for x in ("demo_with_change_rc", "demo_without_change_rc", "suite_with_change")}); sys.exit(1)
dst = "/verif/seeded/%s-m%s" % (ID, k)
os.makedirs(dst, exist_ok=True)
shutil.copy(os.path.join(out, "patch.diff"), dst)
for f in glob.glob(os.path.join(out, "*")):
    b = os.path.basename(f)
    if b in ("patch.diff", "meta.json", "confirm.json") or b.endswith(".log"):
        continue
    if os.path.isdir(f): shutil.copytree(f, os.path.join(dst, b), dirs_exist_ok=True)
    else: shutil.copy(f, dst)
m = {
    "id": "%s-m%s" % (ID, k),
    "property": ID[:3],
    "summary": meta.get("summary"),
    "mechanism": meta.get("mechanism"),
    "needs_to_manifest": meta.get("needs_to_manifest"),
    "files_touched": meta.get("files_touched"),
    "demo_install": meta.get("demo_install"),
    "demo_cmd": meta.get("demo_cmd"),
    "author": "independent sub-agent given only the property text and a scratch worktree",
    "confirmed_by_me": {
        "where": "scratch worktree /tmp/wt/%s (removed afterwards)" % ID,
        "ran": ["git apply patch.diff", "cargo test --workspace --no-fail-fast --offline (with the change, demo absent)", meta.get("demo_cmd", "") + " (with the change)", meta.get("demo_cmd", "") + " (after git checkout -- .)"],
        "suite_with_change": s,
        "demo_with_change_exit": conf["demo_with_change_rc"],
        "demo_without_change_exit": conf["demo_without_change_rc"],
    },
}
json.dump(m, open(os.path.join(dst, "meta.json"), "w"), indent=1)
print("kept", dst)
