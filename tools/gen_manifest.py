#!/usr/bin/env python3
"""Regenerates /verif/MANIFEST.json from the per-property table below (kept next to the rules so that
the manifest, the rules and DESIGN.md do not drift)."""
import json, os, importlib, sys

HERE = os.path.dirname(os.path.dirname(os.path.abspath(__file__)))
sys.path.insert(0, HERE)

CLAIMS = {
    # id: (technique, level text, level note, design ref, engine)
}


def claim(pid, technique, text, note, ref, engine="shape"):
    CLAIMS[pid] = dict(technique=technique, text=text, note=note, ref=ref, engine=engine)


claim("C03", "sibling-table agreement + traversal-completeness lint over the syntax tree (syn)",
      "Decides, for every row at once, the structural clauses the CEK semantics rests on: transition tables total, frames paired, apply order, read-back visits every constructor with sub-terms and threads the binder depth, supplying an argument to a builtin cannot fail, 91-row arity/force agreement across four independent tables, case-on-constant table gated by exactly semantics E. Necessary conditions of the property; each is exact on the current tree.",
      "does not decide that transitions compute the specified value (environment indexing, builtin results); trusts syn's parse", "DESIGN.md §3 C03")
claim("C04", "sibling-table agreement, interval evaluation of piecewise-affine maps, exhaustive evaluation of a finite decision table",
      "91-row agreement of arity and argument types between evaluator, cost model and Aiken signature; which division operation each division builtin calls; consByteString wraps with floor modulo 256; tag-range maps mutually inverse (endpoint evaluation, if-chain or match form, named constants resolved) and written down only where they are evaluated; pallas' big-integer representation taken apart only by the two converters; semantics gate evaluated on all language x protocol inputs.",
      "numerical results, bit numbering, crypto and BLS arithmetic are values and are not decided", "DESIGN.md §3 C04")
claim("C05", "must-pass-through / who-may-write / table-wiring rules over syntax tree and MIR control-flow graph",
      "All-paths accounting discipline: one step charge of the right kind first in every compute arm, start-up before the loop, flush before Done and linear in counts, cost -> pay -> call, single writer of the budget testing both dimensions, 400 cost-parameter wirings name-checked against the field they initialise, mem/cpu sized identically for 91 builtins; positional parameter lists free of duplicates, contiguous, ascending within a builtin and consistently ordered across V1/V2/V3; Data leaves sized by the constants' measures through the big-integer converters; the four division builtins keep their sibling costing shapes under every semantics variant.",
      "values of size measures and costing polynomials and the ledger's coefficient vectors are not decided", "DESIGN.md §3 C05", "shape+flow")
claim("C06", "sibling-table agreement between type checker and evaluator; force-discipline lint over builder chains",
      "Rules out structural run-time errors that come from table drift: checker signature = evaluator unwrappers for 91 builtins, force counts on every Term::Builtin chain, Data representation tables inverse per type kind; plus three clauses of the checker itself: type equality / unification compare list lengths wherever they zip, opaque erasure recurses into every type component, and the implicit-cast flag of unify depends on the expected type only. Thin: soundness of inference is not claimed.",
      "type soundness proper (unification, generalisation, opaque erasure, monomorphisation) is not decided", "DESIGN.md §3 C06")
claim("C08", "sibling-table agreement over the flat codec, per-arm version consistency, derived-hash structural rule",
      "Encoder and decoder tables (Term x3, Constant/Type x6, 91 builtin tags, 4 binders) bijective and equal row by row incl. field order and payload types; per constant kind both encoders and both decoders delegate the payload to the same library codec; every Plutus-version branch internally consistent; hash derived from the code in the same call and never stored; blueprint entries accepted on the hash of the program's own re-encoding; apply_parameter rewrites exactly the targeted validators.",
      "byte-level behaviour of pallas_codec::flat / minicbor and canonicality of foreign CBOR are not decided", "DESIGN.md §3 C08")
claim("C15", "sibling-table agreement between pretty-printer and peg grammar (token tree of peg::parser!)",
      "Printer and parser tables are mutual inverses row by row: 91 builtin names, 11 type names, constant keywords and literal syntax, term keywords, Data constructors, escape forms and their unit (a char is narrowed to u8 only under an is_ascii guard); grammar actions are fallible and free of shift/additive precedence traps; every closing bracket tolerates the printer's soft breaks; separators between printed items are never empty in flat layout; Data constructor indices and big integers go through the shared converters.",
      "layout, big-integer text and hex payloads of arbitrary length are not decided", "DESIGN.md §3 C15")

claim("C01", "specification-table comparison of the operator lowering, contradiction rule (lazy vs commuted), sibling tables for Data casts",
      "13-row operator table (builtin, operand order, laziness) equals the language specification; no lazily lowered operator is ever commuted; checker and generator agree on operand kinds; 4x12 to-/from-Data table inverse per type kind; Air interpreter total; decoder cache keys injective over type constructors.",
      "the meaning of lowering proper (hoisting, monomorphisation, recursion, decision trees, expect decoders) is a statement about values and is not decided", "DESIGN.md §3 C01")
claim("C02", "obligation table between evaluator failure exits and constant-folder guards; typestate of the optimiser pipeline; traversal completeness",
      "Every value-dependent failure exit of each of the 42 foldable builtins (extracted from call and costing arms) is matched by a guard of is_error_safe; the order-agnostic set is a subset of the commutative builtins; Constr/Case are only produced after every reducer that cannot handle them; substitution and occurrence walks are complete and agree; the inliner's inline/drop decisions admit only CEK value forms; positional reducers test saturation; no reducer decodes Data big integers by hand; the BLS compressor keeps G1/G2 names apart.",
      "soundness of inline/curry/split rewrites (whether a rewritten term evaluates equally) is not decided; the folder's default budget is assumed sufficient for one builtin call", "DESIGN.md §3 C02")
claim("C11", "traversal completeness with flow-to-recursion, ordered-protocol (must-pass-through) rule on binder arms, error-path structure",
      "10 walks x 10 constructors: every sub-term reaches the recursive call; in the 4 binder-aware conversions and the interner the scope protocol declare->lookup->start->body->end(->remove) holds in order, unconditionally, on the same unique, and every scope primitive performs its essential operation unconditionally; failed lookups are Err on every path (loop or iterator-chain form), never a default; TryFrom impls own a Converter and propagate.",
      "level arithmetic under shadowing is a runtime quantity: the pairing rule is necessary for correct binding, not sufficient", "DESIGN.md §3 C11")

claim("C10", "panic-site audit over the resolved MIR call graph with derived discharge of arity-indexed sites and a reviewed per-function table; guard recognition for narrowing conversions",
      "Every unwrap/expect, panic!-family macro, Index call, bounds/overflow/division assert and panicking std/num-bigint/bitvec API reachable from Machine::run, Program::eval*, read-back and aiken_optimize_and_intern is enumerated on each run (about 870 sites); args[k] sites are discharged by the arity table, the rest must not exceed a reviewed per-function/per-kind table; every unwrapped narrowing of a builtin argument must be preceded by a two-sided range test, a bounding definition or a costing bound; the profiling array covers every builtin discriminant.",
      "termination, stack depth, allocation failure and panics inside dependencies (blst, secp256k1, num-bigint, bitvec) are not decided; the code generator's own invariants on type-checked ASTs are outside the audited entry set; review-table reasons were established by reading", "DESIGN.md §3 C10", "shape+flow")

claim("C09", "reset-completeness (MIR field-write set vs reset assignments), must-pass-through on finalize, hash-order iteration audit with sink classification, sort-key injectivity, serialised-type field audit",
      "History independence: every CodeGenerator field any method mutates is assigned a fresh value in reset(), reached by finalize on every path with `true`; generate/generate_raw return only through finalize; cache hit replays exactly the recorded deltas. Seed independence: all std HashMap/HashSet iterations (66 today, receiver types resolved in MIR) are classified by their iterator chain; order-sensitive ones must be in a reviewed table; the validator sort keys on the map's own key; no hash map in a serialised blueprint type; rayon sites frozen.",
      "absence of every other nondeterminism (pointer ordering, optimiser internals, file discovery beyond module sequencing) is not decided; that module check order only reaches erased binder names is an assumption; review reasons were established by reading", "DESIGN.md §3 C09", "shape+flow")

claim("C17", "ownership / who-may-touch analysis of Rc-counted data across the parallel section: unsafe-Send surface audit, must-happen-before (assertion take), MIR clone/drop facts of worker functions, deep-copy traversal completeness",
      "The sharing is ruled out structurally: the unsafe impl Send/Sync set and the Rc-bearing fields they expose are the reviewed ones; every unit test's typed assertion is taken unconditionally before an indexed into_par_iter().map().collect(); worker-side functions clone/drop no AST-shared type and no whole test except the reviewed UnitTest copy; deep_clone rebuilds every Rc-bearing child and swallows only Rc-free variants; the constant cache stores no Rc and hands out deep copies on every path; no static holds an Rc.",
      "no schedule is explored; aliasing that the type-level classification cannot see (an Rc<Constant> shared through a path other than the cache or generator state) is not decided", "DESIGN.md §3 C17", "shape+flow")

claim("C20", "panic-site audit over the resolved MIR call graph from every untrusted-input entry point, with a reviewed per-function table; fallible-action lint over the peg grammar",
      "From the flat/CBOR/hex decoders and all Decode impls, the UPLC text parser (generated code included), the Aiken parser and formatter, the blueprint's serde Deserialize/Visitor impls, Parameter::validate / apply / lookup, the configuration loader and the transaction decoding of tx simulation, every unwrap/expect, panic!-family macro, index/slice, arithmetic assert and panicking API reachable in the call graph (about 145 sites) is enumerated and must be in a reviewed per-function table; three demonstrated input-driven panics are listed as known findings; UPLC grammar actions are fallible.",
      "loops, stack depth on deeply nested input and panics inside pallas / minicbor / serde_json / chumsky / peg runtime are not decided; two reviewed tx-decoding sites are input-driven but undemonstrated (DESIGN C20)", "DESIGN.md §3 C20", "shape+flow")

claim("C18", "ordered-protocol and dataflow-shape rules over the application pipeline (syntax tree), per-arm version consistency, panic-site audit (MIR)",
      "Validator::apply validates the head parameter against exactly the datum it then applies, first, and consumes exactly the head with every other field kept; apply_data builds [program datum] and keeps the version; SerializableProgram::map keeps the Plutus version; apply_parameter overwrites program and parameters together under an equality of the same key on both titles; tuple arity checks are equalities before the zip; apply_params_to_script applies in list order; hash derived not stored; rejection by Err not panic (three demonstrated panics listed as known findings).",
      "behavioural equality of the applied validator on the remaining arguments follows from apply_data's shape given C03 and is not decided; file round trips rest on C08", "DESIGN.md §3 C18", "shape+flow")

claim("C19", "per-arm version consistency, budget-threading (dataflow shape) and ordered-protocol rules over the simulation pipeline; spec table of canonically ordered collections; sibling agreement of pointer orderings",
      "Per Plutus version one arm pairs script kind, cost model, language and TxInfo builder; (datum?) -> redeemer -> context for V1/V2, context only for V3; the caller's budget reaches every evaluation; the redeemer loop evaluates against the remaining budget and decrements it in both dimensions, correctly paired, by the units of the redeemer the evaluation returned; machine errors become Err before a result is built; the ledger's ordered collections are sorted in the script context; every positional sort of inputs keys on (transaction id, index); lookup-table discovery loops run to completion.",
      "contents of the script context (value construction in to_plutus_data), phase-one checks beyond pointer construction and slot arithmetic are not decided", "DESIGN.md §3 C19", "shape")

claim("C16", "decision-table agreement, who-may-write (MIR field writes), effect audit (resolved callees), guard lint over the shrinker",
      "Thin but exact: the two places of run_once that decide what a counterexample is (first keep, replay cache) carry explicit three-row tables that agree and match the meaning of `fail` tests; Counterexample.value/choices are written only in consider, together, under Keep, from the replayed choices; every runnable gets the run's seed unchanged; the only clock call in the framework is the reviewed display-only one; every len()-k in simplify is guarded by a test of the same vector.",
      "termination and minimality of simplify, the cache's prefix rule and shortlex monotonicity are arithmetic on runtime values and are not decided", "DESIGN.md §3 C16", "shape+flow")

claim("C13", "composition of four operator tables (formatter, lexer, token display, two parsers), precedence-layer and associativity agreement, arm totality",
      "Thin: for all 13 binary operators the text the formatter prints is lexed to a token that both expression parsers turn back into the same operator, and Token's Display prints what the lexer reads; the parser's layer nesting orders operators as BinOp::precedence() (which the formatter parenthesises by); the formatter's right-associative set equals the set of layers the parser folds to the right, with the matching side lowered; Formatter::expr/pattern/annotation/definition have an explicit arm per variant.",
      "layout-dependent re-parsing, comment placement, idempotence and shape-specific defects are not decided; a defect such as `Foo { i: _, b: True }` -> `Foo(i: _, b: True)` is outside these rules' reach", "DESIGN.md §3 C13", "shape")

claim("C14", "who-may-read audit of the trace level, erasure equality of level-selected alternatives, total decision table, sibling agreement of the two expect decoders",
      "The trace level is read only in the reviewed functions; at each reader the alternatives selected by the level are equal after erasing trace wrappers and message text (`trace`/`todo`/`fail` typing, the validator wrapper, the `?` operator incl. `if v {True} else {False}` = v, the expect failure continuation = delayed error); Tracing::trace_level is a total table returning the stored level or Silent; every branch on the presence of an `otherwise` continuation is a reviewed one and the two decoders it selects agree per type kind.",
      "purity of message expressions (a trace argument that aborts runs only when tracing is on) and preservation of the equivalence by the optimiser are not decided", "DESIGN.md §3 C14", "shape")

claim("C12", "sibling-table agreement between schema generator, schema validator and code generator casts; who-derives-the-index rule over @tag sites; traversal completeness of the decoder cache key; panic-site audit",
      "Per type kind the schema generator publishes the Data class the code generator casts with, and the validator checks each schema node with the helper that tests the matching PlutusData constructor; constructor indices come from @tag (type-level decorators included) with the declaration position as fallback at all three derivation sites; constructors are matched on CBOR tag and general index; tuple arities are equalities; the decoder cache key visits every type component and is injective over type constructors; rejection by Err not panic (one demonstrated panic listed).",
      "`iff` for nested / recursive / generic types (agreement of the three recursive descents beyond one level, on every value) is not decided", "DESIGN.md §3 C12", "shape+flow")

claim("C07", "must-pass-through rule for the exhaustiveness check, shape of the check's decision, who-may-call (MIR callers) of the usefulness algorithm, arm totality of both pattern translations",
      "Thin: the exhaustiveness check is an unconditional, error-propagating statement on the accepting path of `when` (over all clauses) and `let`; check_exhaustiveness pushes useful rows in source order, rejects a useless row as redundant and a non-empty missing set as non-exhaustive; nothing else drives Matrix::is_useful / collect_missing_patterns; neither pattern translation has a catch-all over Pattern; both implementations take constructor sets from the type definition.",
      "correctness of the usefulness algorithm and of the decision-tree compiler, and their agreement with each other and with top-to-bottom matching — the core of the property — are not decided", "DESIGN.md §3 C07", "shape+flow")


# clauses added while testing against sub-agent changes (rounds 1 and 2); kept separate so the first texts stay readable
ADDENDA = {
    "C01": "Also: a recursive function's parameter is hoisted as static only when every self-call passes that very parameter at its own position; under `expect`, only the tail position of a list pattern is dropped because a tail is present; recorded Vec positions are removed from the highest down. The optimiser drops a cast pair only when the inner builtin cannot fail (4 known findings) and counts a use inside a delayed branch as delayed unless the sibling branch is `error`; the decision tree picks list tail cases by longest fitting prefix, distributes tail rows over inclusive ranges, and calls hoisted clause bodies with arguments in parameter order; module constants are cached under a structured key. AirTree::mut_held_types exposes every type a node carries; the hoisted name of a function is an injective function of (module, name) (6 known findings); constructor indices after constrData are computed, never literal.",
    "C02": "Also: no reader of a Data integer handles the 64-bit form only and aborts on the rest; deferred Vec removals at recorded positions run from the highest position down (reversed loop or positions recorded under a reversed enumeration, receiver type confirmed on MIR). cast_data_reducer cancels outer(inner(x)) only for a total inner builtin (failure exits read off the evaluator; 4 known findings); carry_args_to_branch scans the inside of a delay as certain to run only under a test that the sibling branch is `error`; a curried definition refers to its prefix's name only when the whole prefix is constant. No foldable builtin introduces a constant the flat encoder refuses (BLS elements are compressed before folding, never after); the `other branch is error` shortcut of the occurrence analysis applies to two-branch selectors only.",
    "C03": "Also: value_as_term enters read-back with a binder depth equal to the Lambda binders it builds itself.",
    "C04": "Also (MIR, resolved callees): the plain CBOR integer form is chosen by a fallible conversion from >=128 bits into pallas' Int and the negative bignum payload is -1-n computed on big integers in both directions; serialiseData's re-encoder routes each Data constructor to its own re-encoder, writes lists indefinite unless empty and maps definite, and hands byte strings / integers to pallas' own encoders; the G1 and G2 arms of each BLS builtin unwrap the same argument kinds and raise the same errors, and multiScalarMul bounds every scalar of the whole list.",
    "C06": "Also: close_scope assigns back exactly what open_new_scope saved (Hydrator and Environment); every lowering of a call in CodeGenerator::build wraps a non-Data argument for a Data parameter in cast_to_data (sibling agreement of 4 sites).",
    "C07": "Also: every find-by-case on the decision tree's case matrices / relevant columns that updates on a hit creates the entry on a miss, seeded from the default rows (6 sibling sites); equality on exhaustive::Literal / Pattern is derived or free of lossy conversions. At run time: the tail case for a list length is chosen by longest fitting prefix (never by table position), tail rows are distributed over inclusive ranges, hoisted clause bodies get their arguments in parameter order, constructor indices are derived only where @tag is read; in the checker: the local constructor table answers only for local types and clause alternatives keep their source order. A back-passed `let` stays a `let`; missing record patterns are printed with labels in field order; a new case matrix starts from the default rows unconditionally. Int literal patterns reach the checker and the decision tree through one canonicalising function.",
    "C09": "Also: the module-constant cache is keyed by a structured (module, name) key built field by field, never by a flattened string.",
    "C10": "Also: mkCons admits an element only when its whole type equals the list's element type (derived equality on Type), the invariant later arms discharge `unreachable!` on; no partial reader of Data integers aborts on the bignum forms. builtin currying emits closed definitions (discharges the optimiser's final try_from(..).unwrap()). The constant folder leaves no constant the flat encoder refuses (discharges the serialiser's unwrap on compiler output).",
    "C11": "Also: every InternKey is built from both the text and the previous unique of its inputs, unconditionally, and compared / hashed by derived impls.",
    "C12": "Also: a schema's definition key follows every type-variable binding its content follows (sibling conditions of Reference::from_type and Annotated::do_from_type); constant folding to Data decides map-vs-list from the list's element type. constructor positions are turned into indices only in functions that read @tag. The @tag lookup is the same chained lookup at the schema generator, the code generator and the expect decoder, and @list does not depend on the record sugar; no literal constructor index after constrData; nested type parameters are bound in a copy of the caller's bindings; the decoder skips a traversal only when every component is Data; each handler's definitions start empty; orphan-pair pruning records every dependent. Validator parameters of @list types are cast; the binders a hoisted decoder synthesises carry names no field can have.",
    "C13": "Also: tuple-index suffixes are printed with the function the lexer validates them with; the formatter omits a validator's `else` only when it is exactly what the parser synthesises; element-dropping iterator adaptors in formatter methods are enumerated and reviewed. Capture holes are recognised by the prefix of their generated name; call / field access / tuple index parenthesise an operator expression they apply to; the `expect e` shorthand excludes back-passing and a pipe elides only an unlabelled hole; comments popped before an early return are printed; blank lines count as newlines for statement starts; every kind of argument name prints its label; `if x is T` is sugar only for `if x is x: T`.",
    "C16": "Also: the seeded run, the shrinker's replays and the final report evaluate the property through one method under one budget (ExBudget::max()); a candidate replaces the counterexample only under `candidate <=/< current` comparisons on length or sequence; recorded and replayed choices use inverse byte orders (one reversal on each side, cursor = number of choices); the iteration counter is decremented once per executed run, unconditionally.",
    "C08": "Also: a branch shared by several Plutus versions names no single version in its body.",
    "C18": "Also (shared with C08): a branch shared by several Plutus versions names no single version in its body, so applying a parameter cannot re-label a V1 program as V2.",
    "C14": "Also: The presence of a traced continuation (`otherwise.is_some()`) is passed as a value only to the reviewed naming function; every `otherwise == Term::Error.delay()` branch point chooses unknown_data_to_type vs softcast_data_to_type_otherwise; infer_trace infers every sub-expression whatever the level. The branch point of `assignment` binds through soft_cast_assignment when traced and cast_from_data otherwise, nothing else. The user expressions a `trace` evaluates are compared across levels (2 known findings: labels and arguments are level-dependent). The prelude code that renders a trace argument in verbose builds (`diagnostic` and the embedded Aiken functions it reaches) is total: no fail / todo / expect, every builtin with a value-dependent failure exit (read off the evaluator) under a reviewed guard, each un*Data in its own chooseData branch, constant non-zero divisors (1 known finding: constructor index >= 128).",
    "C17": "Also: No generator state is carried from one test's program to the next (C09's reset-completeness and finalize rules are part of the verdict), so the Rc-free constant cache is the only cross-program channel.",
    "C19": "Also: A version-aware failed verdict (V3: non-unit result) is an Err; witness datums are keyed by their original hash; every failed script / datum lookup propagates for every language; no comparator compares a key with itself. Every evaluation entry point reports cost against the budget its machine was created with; both arms of sort_tx_out_value sort the value. Phase one and phase two list the same certificate kinds as script-witnessed; only witness-set scripts can be extraneous.",
    "C20": "Also: The loader's `to_cbor().unwrap()` is discharged by re-running C08's decoder/encoder agreement (whatever the flat decoder builds, the encoder accepts).",
    "C05": "Also: every evaluation entry point reports cost = (budget the machine was created with) - (budget left) (shared with C19).",
    "C15": "Also: the parser's `I <n>` and the printer convert Data big integers through from/to_pallas_bigint, whose -1-n convention is checked on MIR in both directions. The grammar reads a Data constructor index with a rule that holds every u64, and a parsed name's unique always comes from the interner.",
}
# session 3 (round 3 for the twelve properties that had had two): clauses answering those changes and the defects found on the way
ADDENDA3 = {
    "C03": "Round 3: the compute / return tables and the builtin call table have one arm per variant (a guarded second arm is a hidden row); read-back threads no mutable state across environments and is followed through a delegating worker; Type::from(&Constant) names the constant's own kind with list / pair components in place.",
    "C04": "Round 3: where the Aiken signature names a concrete list element type, the call arm checks the list's element type (fixed: both multiScalarMul arms accepted an empty list of another type); a semantics-gated argument check precedes every successful return of its arm; one arm per builtin in the call / cost / signature tables; the evaluator section of C10's panic audit is re-run (a builtin never crashes the evaluator).",
    "C05": "Round 3: every arm of a constructor in Machine::compute (guarded ones included) charges its step; one cost arm per builtin; an evaluation entry point that is given the script's language prices the run with that language's cost model (fixed: eval_version / eval_debug used the V3 model for every version); the two byte-count -> word-count roundings, partially evaluated from their source on six points, equal max(1, ceil(n/8)) for byte strings and ceil(n/8) for literal size arguments.",
    "C10": "Round 3: where the code generator evaluates user code at compile time, a failing evaluation is not unwrapped, except under a guard that what is evaluated is a constant (1 known finding: a module constant that fails panics the compiler).",
    "C11": "Round 3: in all four directions the binder protocol of a Lambda ends with the removal of the binder it declared (fixed: index -> name conversions left it behind, so an index reaching a sibling lambda's level was bound instead of reported free).",
    "C06": "Round 3: the key under which a generic function's instantiations are compiled gives every UplcType constructor its own suffix and association lists a key apart from plain lists; AirTree::mut_held_types exposes every held type (shared with C01).",
    "C07": "Round 3: the current module's constructor table answers only for types of the current module — a prelude type is looked up in the prelude (fixed: a local type named like a prelude type hijacked the exhaustiveness check).",
    "C08": "Round 3: a SerializableProgram version variant is written only in a match arm on that version or under the hash comparison for it; Project::address and ::policy hash a loaded validator under its own version (fixed: address used the project configuration's); the delegation part keeps the kind of the stake credential.",
    "C09": "Round 3: the reduce step of the parallel parse looks for common keys before it extends; flags folded over the directory walk are monotone; Definitions::register leaves no in-progress mark behind on an error (fixed: --include-all-types was hash-order dependent); inside the hash-ordered loops of Blueprint::new definitions are only added to.",
    "C16": "Round 3: TestResult::is_success, evaluated as a finite decision table over (Err | Ok(None) | Ok(Some)) x (3 modes), equals the specification; the seed given on the command line reaches the run unchanged; a reified Pair keeps its components in place (the Vec operations of that arm are simulated).",
    "C17": "Round 3: no static or thread_local holds reference-counted AST data.",
    "C18": "Round 3: an application too many is an Err whatever the form of Validator::apply; every lockstep walk of a value and its schema compares the two lengths first; the interactive construction of a parameter uses the declared constructor index of the chosen alternative (fixed: it used the position in anyOf).",
    "C20": "Round 3: a parser action converting a sequence into a non-empty vector with expect is fed by `.at_least(1)`; an error value whose construction can panic is built lazily.",
}
for _pid, _t in ADDENDA3.items():
    ADDENDA[_pid] = (ADDENDA.get(_pid, "") + " " + _t).strip()
for _pid, _t in ADDENDA.items():
    CLAIMS[_pid]["text"] = CLAIMS[_pid]["text"].rstrip() + " " + _t
    if _pid in ("C01", "C02", "C04", "C15") and "flow" not in CLAIMS[_pid]["engine"]:
        CLAIMS[_pid]["engine"] = "shape+flow"


def main():
    props = [json.loads(l) for l in open(os.path.join(HERE, "properties.jsonl"))]
    checks = []
    na = []
    pending = json.load(open(os.path.join(HERE, "tools", "pending.json"))) if os.path.exists(os.path.join(HERE, "tools", "pending.json")) else {}
    for p in props:
        pid = p["id"]
        if pid in CLAIMS:
            c = CLAIMS[pid]
            checks.append({
                "property_id": pid,
                "quick_cmd": "./check %s --tier quick" % pid,
                "thorough_cmd": "./check %s --tier thorough" % pid,
                "evidence_file": "/verif/evidence/%s.json" % pid,
                "replay_cmd_template": "./check %s --tier quick  # evidence: {path}" % pid,
                "engine": "engine-" + c["engine"],
                "level_claimed": {"category": "other", "text": c["text"], "design_ref": c["ref"]},
                "level_note": c["note"],
                "technique": "static analysis: " + c["technique"],
            })
        else:
            na.append({"property_id": pid, "reason": pending.get(pid, "check not built yet (design in DESIGN.md §3); will be claimed once its rule is armed")})
    m = {
        "version": 1,
        "setup_cmd": "./setup.sh",
        "hooks": {
            "guard": "aiken_verif",
            "enable": "none needed: every check reads /repo's sources (syn) or its MIR (rustc_private driver under cargo +nightly check); no instrumentation is compiled into aiken",
            "baseline_off_cmd": "cd /repo && cargo test --workspace --no-fail-fast --offline",
            "source_commits": [],
            "add_only": True,
        },
        "engines": [
            {"name": "engine-shape", "path": "engine-shape", "serves_properties": sorted(CLAIMS), "kind_free_text": "syn 2 syntax-tree extractor (stable Rust) -> JSON facts; rules in Python under rules/"},
            {"name": "engine-flow", "path": "engine-flow", "serves_properties": sorted(k for k, v in CLAIMS.items() if "flow" in v["engine"]), "kind_free_text": "rustc_private MIR driver (nightly) injected with RUSTC_WORKSPACE_WRAPPER under cargo +nightly check -> call graph, CFG, panic sites, field writes, ADT facts"},
        ],
        "checks": checks,
        "not_applicable": na,
        "notes": "Static analysis only. Every check re-extracts facts from /repo's working tree on each run. Known findings: known_findings.json. Seeded mutants: selftest/ and seeded/.",
    }
    json.dump(m, open(os.path.join(HERE, "MANIFEST.json"), "w"), indent=1)
    print("MANIFEST: %d checks, %d not_applicable" % (len(checks), len(na)))


if __name__ == "__main__":
    main()
