#!/usr/bin/env python3
"""False-alarm study: apply each behaviour-preserving refactoring patch to a clean export of /repo HEAD (never /repo itself),
run every check against it, record any alarm. usage: try_refactors.py RF1 [RF2 …]  -> /verif/seeded/refactors/RESULTS.json"""
import json, os, subprocess, sys, glob, shutil
HERE = os.path.dirname(os.path.dirname(os.path.abspath(__file__)))
ROOT = "/tmp/wt/rfclean"
PROPS = ["C%02d" % i for i in range(1, 21)]

def sh(cmd, cwd=None, env=None, timeout=3600):
    return subprocess.run(cmd, shell=True, cwd=cwd, capture_output=True, text=True, env=env, timeout=timeout)

def main():
    out_path = os.path.join(HERE, "seeded", "refactors", "RESULTS.json")
    os.makedirs(os.path.dirname(out_path), exist_ok=True)
    res = json.load(open(out_path)) if os.path.exists(out_path) else {}
    shutil.rmtree(ROOT, ignore_errors=True)
    os.makedirs(ROOT)
    sh("git -C /repo archive HEAD crates Cargo.toml Cargo.lock examples | tar -x -C %s" % ROOT)
    env = dict(os.environ, VERIF_REPO=ROOT, VERIF_EVIDENCE_DIR="/tmp/verif-rf-ev", VERIF_CACHE="/tmp/wt/rfclean-cache", VERIF_FLOW_TARGET=os.path.join(HERE, ".cache", "flow-target"))
    for rf in sys.argv[1:]:
        cands = sorted(set(glob.glob("/tmp/wt/%s-out/r*" % rf)) | set(glob.glob(os.path.join(HERE, "seeded", "refactors", "%s-r*" % rf))))
        for d in cands:
            pid = "%s-%s" % (rf, os.path.basename(d)) if d.startswith("/tmp/wt/") else os.path.basename(d)
            patch = os.path.join(d, "patch.diff")
            if not os.path.exists(patch) or pid in res:
                continue
            r = sh("patch -p1 -s -i %s" % patch, ROOT)
            if r.returncode != 0:
                res[pid] = {"status": "patch-does-not-apply", "detail": (r.stdout + r.stderr)[:200]}
                sh("git -C /repo archive HEAD crates | tar -x -C %s" % ROOT)
                continue
            alarms = {}
            for p in PROPS:
                o = sh("./check %s" % p, HERE, env)
                fails = [l[:300] for l in o.stdout.splitlines() if l.startswith("FAIL ")]
                if fails:
                    alarms[p] = fails[:5]
            sh("patch -p1 -R -s -i %s" % patch, ROOT)
            meta = json.load(open(os.path.join(d, "meta.json"))) if os.path.exists(os.path.join(d, "meta.json")) else {}
            res[pid] = {"status": "alarm" if alarms else "silent", "alarms": alarms, "kind": meta.get("kind"), "files": meta.get("files"), "summary": (meta.get("summary") or "")[:200]}
            json.dump(res, open(out_path, "w"), indent=1)
            os.makedirs(os.path.join(HERE, "seeded", "refactors", pid), exist_ok=True)
            if os.path.abspath(patch) != os.path.abspath(os.path.join(HERE, "seeded", "refactors", pid, "patch.diff")):
                shutil.copy(patch, os.path.join(HERE, "seeded", "refactors", pid, "patch.diff"))
            print(pid, res[pid]["status"], {k: v[0][:160] for k, v in alarms.items()}, flush=True)
    json.dump(res, open(out_path, "w"), indent=1)

if __name__ == "__main__":
    main()
