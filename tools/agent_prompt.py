#!/usr/bin/env python3
"""Print the brief for a mutation-author sub-agent: the property's text, its scratch worktree, the output convention,
and one-line summaries of earlier changes of that property ("already taken"). Nothing else from /verif is given.
usage: agent_prompt.py <ID e.g. C03c> [--no-taken]"""
import glob, json, os, sys

ID = sys.argv[1]
prop = ID[:3]
P = None
for l in open("/verif/properties.jsonl"):
    p = json.loads(l)
    if p["id"] == prop:
        P = p
taken = []
if "--no-taken" not in sys.argv:
    for d in sorted(glob.glob("/verif/seeded/%s*-m*/meta.json" % prop)):
        m = json.load(open(d))
        s = (m.get("summary") or "").strip().replace("\n", " ")
        taken.append("- " + s[:330])
text = """You are testing how well a verification effort generalises. You get ONE semantic property of the aiken-lang/aiken
toolchain (Rust workspace: crates/uplc, crates/aiken-lang, crates/aiken-project, crates/aiken) and your own scratch git
worktree of the repository at /tmp/wt/{ID} (already created, with a warm `target/` directory so `cargo` builds
incrementally; always pass `--offline`; there is no network). Work ONLY inside /tmp/wt/{ID} and /tmp/wt/{ID}-out. Never
read or write /repo or /verif, and never look at any other directory under /tmp/wt.

## The property

id: {pid}
title: {title}

statement: {statement}

quantifier: {quantifier}

why tests can't settle it: {why}

code anchors: {anchors}

## Your task

Write up to THREE independent changes to the aiken sources (crates/**/src/**) each of which
  1. BREAKS this property (for some input / schedule / history the property's statement becomes false),
  2. still COMPILES (`cargo build --workspace --offline`) without new warnings that a reviewer would notice,
  3. still PASSES THE WHOLE EXISTING TEST SUITE unedited: `cargo test --workspace --no-fail-fast --offline`
     (867 tests; run it yourself with your change applied and confirm 0 failed — a change that fails any test is useless),
  4. needs something SPECIFIC to manifest: an unusual input, a boundary value, a multi-step sequence of operations, a
     particular configuration / Plutus version / protocol version / trace level, a particular interleaving, or two
     cooperating edits in different functions that each look fine alone. NOT something ordinary use would expose at once.
  5. looks like a plausible mistake or a plausible "clean-up / refactor / optimisation" a maintainer might merge — not
     sabotage. Prefer variety: different files, different mechanisms, different parts of the property's statement.
     Realistic is better than clever. A change of one condition, one table row, one argument order, one missing call on
     one path, a helper extracted with a slightly wrong set, a cache key that forgets a component, … are all fine.

For each change k = 1, 2, 3 write into /tmp/wt/{ID}-out/m<k>/ :
  * patch.diff  — `git diff` of the change alone, relative to the worktree's HEAD (must apply with `git apply` on a clean
                  checkout; contains ONLY the breaking change, not the demonstration);
  * a demonstration — one NEW file: normally a Rust integration test crates/<crate>/tests/demo_{idl}_m<k>.rs
                  (never edit an existing test file or anything under src/ for the demo), or a small Aiken project
                  directory plus a shell script that drives the built `aiken` binary; that FAILS (non-zero exit) with the change applied and
                  PASSES (exit 0) on the clean worktree. It must test behaviour (the property), not the source text.
                  Keep a copy of the file(s) in /tmp/wt/{ID}-out/m<k>/ ;
  * meta.json   — {{"summary": "...what the change does and why it breaks the property...",
                   "mechanism": "...one line...",
                   "needs_to_manifest": "...the specific input / sequence / configuration...",
                   "files_touched": ["crates/..."],
                   "demo_install": "copy /tmp/wt/{ID}-out/m<k>/<file> to crates/<crate>/tests/<file>",
                   "demo_cmd": "cd /tmp/wt/{ID} && cargo test -p <crate> --offline --test <name>"}}
                 The demo_install sentence must have exactly that "copy <abs path> to <repo-relative path>" form.

Procedure per change: start from a clean tree (`git checkout -- . && git clean -fdq -- crates examples`), make the edit,
build, run the WHOLE suite (takes a few minutes; `cargo test --workspace --no-fail-fast --offline 2>&1 | grep -E "^test result|FAILED|panicked"`),
write the demo, show it fails with the change, save `git diff -- crates > patch.diff` BEFORE adding the demo file (or
exclude it), then revert the change and show the demo passes on the clean tree. Leave the worktree clean at the end
(`git checkout -- . && git clean -fdq -- crates examples`). Do not commit anything.

Crates available to a demo: whatever the crate under test already depends on (see its Cargo.toml [dependencies] and
[dev-dependencies]); nothing can be downloaded. For aiken-lang / aiken-project behaviour, the test helpers used by the
existing tests (e.g. building a `Project` on a temp dir, or `aiken_lang::parser`, `aiken_lang::format`) are usable from an
integration test only if they are `pub`; otherwise build the `aiken` binary (`cargo build --offline -p aiken`) and drive it
on a small Aiken project from a shell script (an empty-dependency project: aiken.toml with no [[dependencies]]; no stdlib
is available offline).

## Already taken (earlier authors' changes for this same property — do NOT repeat these or close variants; go somewhere else)

{taken}

## Also report

While reading the code you may find that the CLEAN tree already violates the property somewhere (a real defect). If you
can demonstrate one (a failing test on the clean tree), write it up in /tmp/wt/{ID}-out/BASELINE.md with the test. This
is valuable; spend up to a third of your effort on it if you see a lead.

Finish by replying with a short list: for each change, the one-line mechanism, the files touched, and the exact suite
result you observed (passed/failed counts) — plus anything written to BASELINE.md.
""".format(
    ID=ID, idl=ID.lower(), pid=P["id"], title=P["title"], statement=P["statement"], quantifier=P["quantifier"],
    why=P["why_tests_cant"], anchors=json.dumps(P["anchors"]), taken="\n".join(taken) or "(none)")
print(text)
