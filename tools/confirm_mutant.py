#!/usr/bin/env python3
"""Confirm a sub-agent's seeded change in its scratch worktree (never /repo):
   compiles + whole suite passes with the change; demo fails with it and passes without.
   usage: confirm_mutant.py <ID> <k> [--skip-suite]   -> writes /tmp/wt/<ID>-out/m<k>/confirm.json"""
import json, os, re, subprocess, sys, shutil, glob

def sh(cmd, cwd, timeout=3600):
    env = dict(os.environ, CARGO_NET_OFFLINE="true")
    r = subprocess.run(cmd, shell=True, cwd=cwd, capture_output=True, text=True, env=env, timeout=timeout)
    return r.returncode, r.stdout + r.stderr

def main():
    ID, k = sys.argv[1], sys.argv[2]
    wt, out = "/tmp/wt/%s" % ID, "/tmp/wt/%s-out/m%s" % (ID, k)
    meta = json.load(open(os.path.join(out, "meta.json")))
    res = {"id": ID, "k": k}
    sh("git checkout -- . && git clean -fdq -- crates examples", wt)
    rc, o = sh("git apply --check %s/patch.diff && git apply %s/patch.diff" % (out, out), wt)
    res["applies"] = rc == 0
    if rc != 0:
        res["error"] = o[-500:]
        json.dump(res, open(os.path.join(out, "confirm.json"), "w"), indent=1); print(res); return 1
    # install demo files
    inst = meta.get("demo_install", "")
    installed = []
    pairs = re.findall(r"(/tmp/wt/\S+?)\s+(?:to|->|into)\s+(?:/tmp/wt/%s/)?(crates/\S+|examples/\S+)" % ID, inst)
    if not pairs:
        dest = re.search(r"(crates/[\w/.-]+|examples/[\w/.-]+)", inst)
        for f in sorted(set(x for x in glob.glob(os.path.join(out, "demo*")) + glob.glob(os.path.join(out, "*.rs")) if os.path.isfile(x) and x.endswith(".rs"))):
            if dest:
                d = dest.group(1)
                pairs.append((f, d if d.endswith(os.path.basename(f)) or "." in os.path.basename(d) else os.path.join(d, os.path.basename(f))))
    for src, dst in pairs:
        dst = dst.rstrip(".,;)`'\"")
        dstp = os.path.join(wt, dst)
        if os.path.isdir(src):
            shutil.copytree(src, dstp, dirs_exist_ok=True)
        else:
            if dst.endswith("/") or os.path.isdir(dstp):
                dstp = os.path.join(dstp, os.path.basename(src))
            os.makedirs(os.path.dirname(dstp), exist_ok=True)
            shutil.copy(src, dstp)
        installed.append(dstp)
    res["installed"] = installed
    demo = meta["demo_cmd"]
    rc, o = sh(demo, wt)
    res["demo_with_change_rc"] = rc
    res["demo_with_change_tail"] = o[-600:]
    if "--skip-suite" not in sys.argv:
        # the suite must pass with the change and WITHOUT the demo present
        for p in installed:
            if os.path.isdir(p): shutil.rmtree(p)
            elif os.path.exists(p): os.remove(p)
        rc2, o2 = sh("cargo test --workspace --no-fail-fast --offline 2>&1 | grep -E '^test result|FAILED|panicked|error(\\[|:)' | head -60", wt, timeout=7200)
        passed = sum(int(x) for x in re.findall(r"(\d+) passed", o2)); failed = sum(int(x) for x in re.findall(r"(\d+) failed", o2))
        res["suite_with_change"] = {"passed": passed, "failed": failed, "errors": [l for l in o2.splitlines() if l.startswith("error")][:5]}
        for (src, dst), p in zip(pairs, installed):
            if os.path.isdir(src): shutil.copytree(src, p, dirs_exist_ok=True)
            else: shutil.copy(src, p)
    sh("git checkout -- .", wt)
    rc, o = sh(demo, wt)
    res["demo_without_change_rc"] = rc
    res["demo_without_change_tail"] = o[-300:]
    for p in installed:
        if os.path.isdir(p): shutil.rmtree(p)
        elif os.path.exists(p): os.remove(p)
    sh("git checkout -- . ", wt)
    if "--skip-suite" in sys.argv and os.path.exists(os.path.join(out, "confirm.json")):
        prev = json.load(open(os.path.join(out, "confirm.json")))
        if "suite_with_change" in prev:
            res["suite_with_change"] = prev["suite_with_change"]
    s = res.get("suite_with_change", {"passed": -1, "failed": 0})
    res["confirmed"] = bool(res["demo_with_change_rc"] != 0 and res["demo_without_change_rc"] == 0 and s["failed"] == 0 and (s["passed"] >= 860 or s["passed"] == -1) and not s.get("errors"))
    json.dump(res, open(os.path.join(out, "confirm.json"), "w"), indent=1)
    print(json.dumps({k: v for k, v in res.items() if "tail" not in k}))
    return 0 if res["confirmed"] else 1

if __name__ == "__main__":
    sys.exit(main())
