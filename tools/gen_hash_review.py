#!/usr/bin/env python3
"""Authoring tool (never run by a check): recount the non-discharged hash-iteration sites per (function, kind) into
rules/reasons/C09-hash.json, keeping the hand-written reasons."""
import json, os, sys
HERE = os.path.dirname(os.path.dirname(os.path.abspath(__file__)))
sys.path.insert(0, HERE)
from rules import lib, hashorder, panic_audit
ctx = lib.Ctx("quick").prepare(shape=True, flow=True)
fl, sh = ctx.flow, ctx.shape
chains = hashorder.Chains(sh)
p = os.path.join(HERE, "rules", "reasons", "C09-hash.json")
cur = json.load(open(p)) if os.path.exists(p) else {"reasons": [], "sites": {}}
sites = {}
for f, b, kind in hashorder.sites(fl):
    root = panic_audit.root_of(fl, f)["path"]
    if root.startswith("uplc::tx"):
        continue
    rel = panic_audit.rel_file(f)
    ch, cx, it = chains.chain(rel, b["fl"], kind)
    v, why = hashorder.classify(sh, rel, ch, cx)
    if v not in ("free", "sorted"):
        sites.setdefault(root, {}).setdefault(kind, 0)
        sites[root][kind] += 1
cur["sites"] = sites
import re
rs = [re.compile(r["fn"]) for r in cur["reasons"]]
for root in sorted(sites):
    if not any(r.search(root) for r in rs):
        print("NO REASON:", root, sites[root])
json.dump(cur, open(p, "w"), indent=1, sort_keys=True)
print(sum(sum(k.values()) for k in sites.values()), "reviewed sites in", len(sites), "functions")
