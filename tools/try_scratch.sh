#!/bin/sh
# usage: try_scratch.sh <patch> <PROP> [<PROP>...] — like try_seeded.sh, but on a scratch export of /repo's sources
# (outside /repo and /verif, removed afterwards), so that /repo stays free (e.g. while its test suite runs)
p="$1"; shift
S=$(mktemp -d /tmp/verif-scratch-XXXXXX)
mkdir -p $S/repo
rsync -a --exclude target --exclude .git --exclude test_data /repo/crates /repo/Cargo.toml /repo/Cargo.lock /repo/examples $S/repo/
(cd $S/repo && patch -p1 -s -F0 -i "$p") || { echo "patch does not apply"; rm -rf $S; exit 2; }
for c in "$@"; do
  (cd /verif && VERIF_REPO=$S/repo VERIF_EVIDENCE_DIR=$S/evidence VERIF_CACHE=$S/cache VERIF_FLOW_TARGET=/verif/.cache/flow-target VERIF_NO_BATTERY=1 ./check $c 2>&1 | grep -E "^(FAIL|VIOLATION|C[0-9]+ \[|Traceback|  File|\w+Error)" | cut -c1-${TRY_WIDTH:-400})
done
rm -rf $S
