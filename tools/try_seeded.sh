#!/bin/sh
# usage: try_seeded.sh <patch> <PROP> [<PROP>...]  — apply a seeded change to /repo, run the named checks, undo it straight away
p="$1"; shift
cd /repo || exit 2
git diff --quiet || { echo "repo dirty"; exit 2; }
git apply "$p" || { echo "patch does not apply"; exit 2; }
for c in "$@"; do
  (cd /verif && VERIF_EVIDENCE_DIR=/tmp/verif-try-ev ./check $c 2>&1 | grep -E "^(FAIL|VIOLATION|C[0-9]+ \[)" | cut -c1-400)
done
git -C /repo checkout -- .
