#!/bin/sh
# usage: rmwt.sh <name>   -> remove scratch worktree and its build output
for n in "$@"; do
  git -C /repo worktree remove --force /tmp/wt/$n 2>/dev/null || rm -rf /tmp/wt/$n
  rm -rf /tmp/wt/$n /tmp/wt/$n-out
done
git -C /repo worktree prune
