#!/bin/sh
# usage: rmwt.sh <name>   -> remove scratch worktree and its build output
for n in "$@"; do
  git -C /repo worktree remove --force /tmp/wt/$n 2>/dev/null || rm -rf /tmp/wt/$n
  rm -rf /tmp/wt/$n
  # deliverables are kept until explicitly archived: move, do not delete
  if [ -d /tmp/wt/$n-out ]; then mkdir -p /tmp/wt/_done && rm -rf /tmp/wt/_done/$n-out && mv /tmp/wt/$n-out /tmp/wt/_done/$n-out; fi
done
git -C /repo worktree prune
