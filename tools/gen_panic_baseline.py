#!/usr/bin/env python3
"""Authoring tool (never run by a check): prints / rewrites the *counts* of rules/panic_baseline.json from the
current tree, keeping the hand-written reasons. Usage: gen_panic_baseline.py [--write] [--show SECTION]"""
import json, os, sys, importlib

HERE = os.path.dirname(os.path.dirname(os.path.abspath(__file__)))
sys.path.insert(0, HERE)
from rules import lib, flowrun, panic_audit

MODS = ["c10", "c20", "c12", "c18", "c19"]


def main():
    ctx = lib.Ctx("quick").prepare(shape=True, flow=True)
    fl = ctx.flow
    li = panic_audit.LineIndex(ctx.shape)
    cur = json.load(open(panic_audit.BASELINE)) if os.path.exists(panic_audit.BASELINE) else {}
    for m in MODS:
        try:
            mod = importlib.import_module("rules." + m)
        except ModuleNotFoundError:
            continue
        if not hasattr(mod, "panic_sections"):
            continue
        for section, (roots, stop) in mod.panic_sections(fl).items():
            per, auto, seen = panic_audit.collect(fl, roots, li, stop)
            sec = cur.setdefault(section, {"functions": {}})
            sec.pop("reasons", None)
            rpath = os.path.join(HERE, "rules", "reasons", section + ".json")
            sec_reasons = json.load(open(rpath)) if os.path.exists(rpath) else []
            kf = {f["key"].split(" ", 1)[1] for f in json.load(open(os.path.join(HERE, "known_findings.json")))["findings"] if " " in f["key"]}
            sec["functions"] = {rp: {k: len(v) for k, v in sorted(kinds.items()) if "%s#%s" % (rp, k) not in kf} for rp, kinds in sorted(per.items())}
            sec["functions"] = {rp: ks for rp, ks in sec["functions"].items() if ks}
            n = sum(len(v) for d in per.values() for v in d.values())
            print("%s: %d reachable fns, %d sites in %d fns, %d auto-discharged" % (section, len(seen), n, len(per), len(auto)))
            if "--show" in sys.argv and sys.argv[sys.argv.index("--show") + 1] == section:
                import re
                reasons = [(re.compile(r["fn"]), re.compile(r["kind"])) for r in sec_reasons]
                for rp, kinds in sorted(per.items()):
                    for k, v in sorted(kinds.items()):
                        covered = any(a.search(rp) and b.search(k) for a, b in reasons)
                        if "--uncovered" in sys.argv and covered:
                            continue
                        print("  %s %-90s %-50s %d  %s" % ("ok" if covered else "??", rp[-90:], k, len(v), " ".join(x.split("/")[-1] for x in sorted(set(v))[:5])))
    if "--write" in sys.argv:
        json.dump(cur, open(panic_audit.BASELINE, "w"), indent=1, sort_keys=True)
        print("written", panic_audit.BASELINE)


if __name__ == "__main__":
    main()
