#!/usr/bin/env python3
"""Run the registered checks against every kept seeded change (apply to /repo, check, undo straight away) and record which
rule instances fire: seeded/<id>/meta.json gets `caught_by`, seeded/RESULTS.md the table. usage: sweep_seeded.py [ids…]"""
import json, os, subprocess, sys, glob, re
HERE = os.path.dirname(os.path.dirname(os.path.abspath(__file__)))
EXTRA = {"C14": ["C02"], "C17": ["C09"], "C07": ["C01"], "C10": ["C04", "C02"], "C18": ["C08", "C12"], "C15": ["C04"], "C04": ["C10"], "C01": ["C12"], "C12": ["C01", "C18"], "C16": ["C17"], "C05": [], "C20": ["C08"]}

def sh(cmd, cwd=None, timeout=1800):
    return subprocess.run(cmd, shell=True, cwd=cwd, capture_output=True, text=True, timeout=timeout)

def main():
    ids = sys.argv[1:] or sorted(os.path.basename(d) for d in glob.glob(os.path.join(HERE, "seeded", "C*-m*")))
    # SWEEP_ROOT=<dir>: work on a scratch export of /repo HEAD (git archive) instead of /repo itself, so that /repo stays
    # free for the registered checks while a long sweep runs
    ROOT = os.environ.get("SWEEP_ROOT")
    if ROOT:
        sh("rm -rf %s && mkdir -p %s && git -C /repo archive HEAD crates Cargo.toml Cargo.lock examples | tar -x -C %s" % (ROOT, ROOT, ROOT))
    elif sh("git diff --quiet", "/repo").returncode != 0:
        print("/repo is dirty"); return 2
    rows = []
    for sid in ids:
        d = os.path.join(HERE, "seeded", sid)
        meta = json.load(open(os.path.join(d, "meta.json")))
        prop = meta["property"]
        r = sh("patch -p1 -s -F0 -i %s/patch.diff" % d, ROOT) if ROOT else sh("git apply %s/patch.diff" % d, "/repo")
        if r.returncode != 0:
            rows.append((sid, prop, "PATCH-DOES-NOT-APPLY", [])); print(sid, "patch does not apply:", (r.stdout + r.stderr)[:200])
            if ROOT:
                sh("find . -name '*.rej' -delete -o -name '*.orig' -delete; git -C /repo archive HEAD crates | tar -x -C %s" % ROOT, ROOT)
            continue
        caught = {}
        try:
            for c in [prop] + EXTRA.get(prop, []):
                o = sh(("VERIF_REPO=%s VERIF_CACHE=%s-cache VERIF_FLOW_TARGET=%s " % (ROOT, ROOT, os.path.join(HERE, ".cache", "flow-target")) if ROOT else "") + "VERIF_EVIDENCE_DIR=/tmp/verif-sweep-ev ./check %s" % c, HERE)
                fails = [l for l in o.stdout.splitlines() if l.startswith("FAIL ")]
                if fails and "VIOLATION property=%s" % c in o.stdout:
                    caught[c] = [re.sub(r" @ .*$", "", f[5:])[:140] for f in fails][:4]
        finally:
            sh("patch -p1 -R -s -i %s/patch.diff" % d, ROOT) if ROOT else sh("git checkout -- .", "/repo")
        meta["caught_by"] = caught
        meta["caught_by_own_property_check"] = prop in caught
        json.dump(meta, open(os.path.join(d, "meta.json"), "w"), indent=1)
        rows.append((sid, prop, "caught" if caught else "MISSED", caught))
        print(sid, "caught" if caught else "MISSED", {k: v[0] for k, v in caught.items()})
    # table (merge with previous rows for ids not run now)
    allrows = []
    for d in sorted(glob.glob(os.path.join(HERE, "seeded", "C*-m*"))):
        m = json.load(open(os.path.join(d, "meta.json")))
        if "caught_by" in m:
            allrows.append((m["id"], m["property"], m["caught_by"], (m.get("summary") or "")[:110]))
    with open(os.path.join(HERE, "seeded", "RESULTS.md"), "w") as fh:
        fh.write("# Seeded changes vs checks\n\nEach row: a change written by an independent sub-agent (property text + scratch worktree only), confirmed by me (suite 867/0 with the change, demo fails with / passes without), then applied to /repo, checked, and undone.\n\n| id | property | caught by (check: first rule instance) | what the change does |\n|---|---|---|---|\n")
        for sid, prop, cb, summ in allrows:
            c = "; ".join("%s: %s" % (k, v[0]) for k, v in cb.items()) if cb else "**missed**"
            fh.write("| %s | %s | %s | %s |\n" % (sid, prop, c.replace("|", "\\|"), summ.replace("|", "\\|").replace("\n", " ")))
        n = len(allrows); k = sum(1 for r in allrows if r[2]); own = sum(1 for r in allrows if r[1] in r[2])
        fh.write("\n%d changes, %d caught (%d by the check of the property they were written against), %d missed.\n" % (n, k, own, n - k))
    return 0

if __name__ == "__main__":
    sys.exit(main())
