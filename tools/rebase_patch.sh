#!/bin/sh
# usage: rebase_patch.sh <seeded-id>  — re-create seeded/<id>/patch.diff against /repo HEAD (original kept as patch.orig.diff)
d=/verif/seeded/$1
S=$(mktemp -d /tmp/verif-rebase-XXXXXX)
git -C /repo archive HEAD crates | tar -x -C $S
(cd $S && git init -q . && git add -A >/dev/null 2>&1 && git -c user.email=a@b -c user.name=a commit -qm base && patch -p1 -s -F3 -i ${2:-$d/patch.diff}) || { echo "does not apply even with fuzz"; rm -rf $S; exit 1; }
find $S -name '*.orig' -delete
[ -f $d/patch.orig.diff ] || cp $d/patch.diff $d/patch.orig.diff
(cd $S && git diff) > $d/patch.diff
rm -rf $S; echo rebased $1
