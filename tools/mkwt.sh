#!/bin/sh
# usage: mkwt.sh <name>   -> scratch git worktree of /repo HEAD at /tmp/wt/<name>, with a warm private target dir
set -e
n="$1"
mkdir -p /tmp/wt
git -C /repo worktree add --detach /tmp/wt/$n HEAD >/dev/null 2>&1
mkdir -p /tmp/wt/$n/target
rsync -a --exclude incremental /repo/target/ /tmp/wt/$n/target/
echo /tmp/wt/$n
