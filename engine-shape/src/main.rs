//! engine-shape: dumb extractor. Parses Rust sources with `syn` and dumps a
//! compact JSON syntax tree per file. No judgement lives here: every rule is
//! a Python file under /verif/rules reading these facts.
//!
//! usage: engine-shape --root <dir> --out <dir> [<rel-file> ...]
//! With no files given, every `*.rs` under `<root>/crates/*/src` is parsed.

use proc_macro2::{Delimiter, Span, TokenStream, TokenTree};
use quote::ToTokens;
use serde_json::{json, Map, Value};
use std::{fs, path::Path, path::PathBuf};
use syn::{punctuated::Punctuated, spanned::Spanned, Token};

fn sp(s: Span) -> Value {
    let a = s.start();
    let b = s.end();
    json!([a.line, a.column, b.line, b.column])
}

fn ts_str(t: &impl ToTokens) -> String {
    norm(&t.to_token_stream().to_string())
}

/// remove the spaces `TokenStream::to_string` puts between tokens, except
/// between two identifier-ish characters.
fn norm(s: &str) -> String {
    let cs: Vec<char> = s.chars().collect();
    let mut out = String::with_capacity(cs.len());
    let idc = |c: char| c.is_alphanumeric() || c == '_' || c == '"' || c == '\'';
    let mut i = 0;
    let mut in_str = false;
    while i < cs.len() {
        let c = cs[i];
        if in_str {
            out.push(c);
            if c == '\\' && i + 1 < cs.len() {
                out.push(cs[i + 1]);
                i += 2;
                continue;
            }
            if c == '"' {
                in_str = false;
            }
            i += 1;
            continue;
        }
        if c == '"' {
            in_str = true;
            out.push(c);
            i += 1;
            continue;
        }
        if c == ' ' {
            let prev = out.chars().last();
            let next = cs.get(i + 1).copied();
            if let (Some(p), Some(n)) = (prev, next) {
                if idc(p) && idc(n) {
                    out.push(' ');
                }
            }
            i += 1;
            continue;
        }
        out.push(c);
        i += 1;
    }
    out
}

fn obj(k: &str, s: Span) -> Map<String, Value> {
    let mut m = Map::new();
    m.insert("k".into(), Value::String(k.into()));
    m.insert("s".into(), sp(s));
    m
}

fn path_str(p: &syn::Path) -> String {
    // path without generic arguments: a::b::C
    let mut s = String::new();
    if p.leading_colon.is_some() {
        s.push_str("::");
    }
    for (i, seg) in p.segments.iter().enumerate() {
        if i > 0 {
            s.push_str("::");
        }
        s.push_str(&seg.ident.to_string());
    }
    s
}

fn attrs(a: &[syn::Attribute]) -> Value {
    Value::Array(
        a.iter()
            .filter(|a| !a.path().is_ident("doc"))
            .map(|a| Value::String(ts_str(&a.meta)))
            .collect(),
    )
}

fn tokens(ts: TokenStream) -> Value {
    let mut v = vec![];
    for t in ts {
        match t {
            TokenTree::Group(g) => {
                let d = match g.delimiter() {
                    Delimiter::Parenthesis => "(",
                    Delimiter::Brace => "{",
                    Delimiter::Bracket => "[",
                    Delimiter::None => "",
                };
                v.push(json!({"t":"g","d":d,"l":g.span().start().line,"c":tokens(g.stream())}));
            }
            TokenTree::Ident(i) => v.push(json!({"t":"i","v":i.to_string(),"l":i.span().start().line})),
            TokenTree::Punct(p) => v.push(json!({"t":"p","v":p.as_char().to_string(),"j":matches!(p.spacing(), proc_macro2::Spacing::Joint),"l":p.span().start().line})),
            TokenTree::Literal(l) => v.push(json!({"t":"l","v":l.to_string(),"l":l.span().start().line})),
        }
    }
    Value::Array(v)
}

struct MatchesArgs {
    e: syn::Expr,
    pat: syn::Pat,
    guard: Option<syn::Expr>,
}
impl syn::parse::Parse for MatchesArgs {
    fn parse(input: syn::parse::ParseStream) -> syn::Result<Self> {
        let e: syn::Expr = input.parse()?;
        input.parse::<Token![,]>()?;
        let pat = syn::Pat::parse_multi_with_leading_vert(input)?;
        let guard = if input.peek(Token![if]) {
            input.parse::<Token![if]>()?;
            Some(input.parse()?)
        } else {
            None
        };
        let _ = input.parse::<Option<Token![,]>>();
        Ok(MatchesArgs { e, pat, guard })
    }
}

fn mac(m: &syn::Macro, mo: &mut Map<String, Value>) {
    let p = path_str(&m.path);
    mo.insert("path".into(), Value::String(p.clone()));
    let last = p.rsplit("::").next().unwrap_or("").to_string();
    if last == "matches" || last == "assert_matches" {
        if let Ok(a) = syn::parse2::<MatchesArgs>(m.tokens.clone()) {
            mo.insert("e".into(), expr(&a.e));
            mo.insert("pat".into(), pat(&a.pat));
            if let Some(g) = a.guard {
                mo.insert("guard".into(), expr(&g));
            }
            return;
        }
    }
    let parser = Punctuated::<syn::Expr, Token![,]>::parse_terminated;
    if let Ok(args) = syn::parse::Parser::parse2(parser, m.tokens.clone()) {
        mo.insert("args".into(), Value::Array(args.iter().map(expr).collect()));
    } else if let Ok(b) = syn::parse2::<BlockBody>(m.tokens.clone()) {
        mo.insert("stmts".into(), Value::Array(b.0.iter().map(stmt).collect()));
    } else {
        mo.insert("tokens".into(), tokens(m.tokens.clone()));
    }
}

struct BlockBody(Vec<syn::Stmt>);
impl syn::parse::Parse for BlockBody {
    fn parse(input: syn::parse::ParseStream) -> syn::Result<Self> {
        Ok(BlockBody(syn::Block::parse_within(input)?))
    }
}

fn block(b: &syn::Block) -> Value {
    let mut m = obj("Block", b.span());
    m.insert("stmts".into(), Value::Array(b.stmts.iter().map(stmt).collect()));
    Value::Object(m)
}

fn stmt(s: &syn::Stmt) -> Value {
    match s {
        syn::Stmt::Local(l) => {
            let mut m = obj("Local", l.span());
            m.insert("pat".into(), pat(&l.pat));
            if let Some(init) = &l.init {
                m.insert("init".into(), expr(&init.expr));
                if let Some((_, e)) = &init.diverge {
                    m.insert("else".into(), expr(e));
                }
            }
            Value::Object(m)
        }
        syn::Stmt::Item(i) => {
            let mut m = obj("ItemStmt", i.span());
            m.insert("item".into(), item(i));
            Value::Object(m)
        }
        syn::Stmt::Expr(e, semi) => {
            let mut m = obj("ExprStmt", e.span());
            m.insert("e".into(), expr(e));
            m.insert("semi".into(), Value::Bool(semi.is_some()));
            Value::Object(m)
        }
        syn::Stmt::Macro(sm) => {
            let mut m = obj("ExprStmt", sm.span());
            let mut mo = obj("Macro", sm.span());
            mac(&sm.mac, &mut mo);
            m.insert("e".into(), Value::Object(mo));
            m.insert("semi".into(), Value::Bool(sm.semi_token.is_some()));
            Value::Object(m)
        }
    }
}

fn opt_expr(e: &Option<Box<syn::Expr>>) -> Value {
    match e {
        Some(e) => expr(e),
        None => Value::Null,
    }
}

fn expr(e: &syn::Expr) -> Value {
    use syn::Expr::*;
    match e {
        Paren(p) => expr(&p.expr),
        Group(g) => expr(&g.expr),
        Lit(l) => {
            let mut m = obj("Lit", e.span());
            let (lk, v) = match &l.lit {
                syn::Lit::Str(s) => ("str", Value::String(s.value())),
                syn::Lit::ByteStr(s) => ("bytestr", Value::String(String::from_utf8_lossy(&s.value()).into())),
                syn::Lit::Byte(b) => ("byte", json!(b.value())),
                syn::Lit::Char(c) => ("char", Value::String(c.value().to_string())),
                syn::Lit::Int(i) => ("int", Value::String(i.base10_digits().to_string())),
                syn::Lit::Float(f) => ("float", Value::String(f.base10_digits().to_string())),
                syn::Lit::Bool(b) => ("bool", Value::Bool(b.value)),
                other => ("other", Value::String(ts_str(other))),
            };
            m.insert("lk".into(), Value::String(lk.into()));
            m.insert("v".into(), v);
            if let syn::Lit::Int(i) = &l.lit {
                m.insert("suffix".into(), Value::String(i.suffix().to_string()));
                m.insert("raw".into(), Value::String(i.to_string()));
            }
            Value::Object(m)
        }
        Path(p) => {
            let mut m = obj("Path", e.span());
            m.insert("p".into(), Value::String(path_str(&p.path)));
            if p.qself.is_some() || p.path.segments.iter().any(|s| !s.arguments.is_none()) {
                m.insert("full".into(), Value::String(ts_str(p)));
            }
            Value::Object(m)
        }
        Call(c) => {
            let mut m = obj("Call", e.span());
            m.insert("f".into(), expr(&c.func));
            m.insert("args".into(), Value::Array(c.args.iter().map(expr).collect()));
            Value::Object(m)
        }
        MethodCall(c) => {
            let mut m = obj("MethodCall", e.span());
            m.insert("recv".into(), expr(&c.receiver));
            m.insert("m".into(), Value::String(c.method.to_string()));
            m.insert("ms".into(), sp(c.method.span()));
            if let Some(t) = &c.turbofish {
                m.insert("turbofish".into(), Value::String(ts_str(t)));
            }
            m.insert("args".into(), Value::Array(c.args.iter().map(expr).collect()));
            Value::Object(m)
        }
        Match(mm) => {
            let mut m = obj("Match", e.span());
            m.insert("e".into(), expr(&mm.expr));
            let arms = mm
                .arms
                .iter()
                .map(|a| {
                    let mut am = obj("Arm", a.span());
                    am.insert("pat".into(), pat(&a.pat));
                    if let Some((_, g)) = &a.guard {
                        am.insert("guard".into(), expr(g));
                    }
                    am.insert("body".into(), expr(&a.body));
                    Value::Object(am)
                })
                .collect();
            m.insert("arms".into(), Value::Array(arms));
            Value::Object(m)
        }
        If(i) => {
            let mut m = obj("If", e.span());
            m.insert("cond".into(), expr(&i.cond));
            m.insert("then".into(), block(&i.then_branch));
            if let Some((_, el)) = &i.else_branch {
                m.insert("else".into(), expr(el));
            }
            Value::Object(m)
        }
        Let(l) => {
            let mut m = obj("LetCond", e.span());
            m.insert("pat".into(), pat(&l.pat));
            m.insert("e".into(), expr(&l.expr));
            Value::Object(m)
        }
        Block(b) => {
            let mut v = block(&b.block);
            if let (Some(l), Value::Object(m)) = (&b.label, &mut v) {
                m.insert("label".into(), Value::String(l.name.ident.to_string()));
            }
            v
        }
        Unsafe(b) => {
            let mut v = block(&b.block);
            if let Value::Object(m) = &mut v {
                m.insert("unsafe".into(), Value::Bool(true));
            }
            v
        }
        Const(b) => block(&b.block),
        Closure(c) => {
            let mut m = obj("Closure", e.span());
            m.insert("inputs".into(), Value::Array(c.inputs.iter().map(pat).collect()));
            m.insert("body".into(), expr(&c.body));
            m.insert("move".into(), Value::Bool(c.capture.is_some()));
            Value::Object(m)
        }
        Struct(s) => {
            let mut m = obj("Struct", e.span());
            m.insert("p".into(), Value::String(path_str(&s.path)));
            let fields = s
                .fields
                .iter()
                .map(|f| {
                    let mut fm = obj("FieldInit", f.span());
                    fm.insert("name".into(), Value::String(member(&f.member)));
                    fm.insert("short".into(), Value::Bool(f.colon_token.is_none()));
                    fm.insert("e".into(), expr(&f.expr));
                    Value::Object(fm)
                })
                .collect();
            m.insert("fields".into(), Value::Array(fields));
            m.insert("rest".into(), opt_expr(&s.rest));
            m.insert("dotdot".into(), Value::Bool(s.dot2_token.is_some()));
            Value::Object(m)
        }
        Field(f) => {
            let mut m = obj("Field", e.span());
            m.insert("e".into(), expr(&f.base));
            m.insert("f".into(), Value::String(member(&f.member)));
            Value::Object(m)
        }
        Index(i) => {
            let mut m = obj("Index", e.span());
            m.insert("e".into(), expr(&i.expr));
            m.insert("i".into(), expr(&i.index));
            Value::Object(m)
        }
        Binary(b) => {
            let mut m = obj("Binary", e.span());
            m.insert("op".into(), Value::String(ts_str(&b.op)));
            m.insert("l".into(), expr(&b.left));
            m.insert("r".into(), expr(&b.right));
            Value::Object(m)
        }
        Unary(u) => {
            let mut m = obj("Unary", e.span());
            m.insert("op".into(), Value::String(ts_str(&u.op)));
            m.insert("e".into(), expr(&u.expr));
            Value::Object(m)
        }
        Reference(r) => {
            let mut m = obj("Ref", e.span());
            m.insert("mut".into(), Value::Bool(r.mutability.is_some()));
            m.insert("e".into(), expr(&r.expr));
            Value::Object(m)
        }
        Try(t) => {
            let mut m = obj("Try", e.span());
            m.insert("e".into(), expr(&t.expr));
            Value::Object(m)
        }
        Return(r) => {
            let mut m = obj("Return", e.span());
            m.insert("e".into(), opt_expr(&r.expr));
            Value::Object(m)
        }
        Break(b) => {
            let mut m = obj("Break", e.span());
            m.insert("e".into(), opt_expr(&b.expr));
            Value::Object(m)
        }
        Continue(_) => Value::Object(obj("Continue", e.span())),
        Tuple(t) => {
            let mut m = obj("Tuple", e.span());
            m.insert("es".into(), Value::Array(t.elems.iter().map(expr).collect()));
            Value::Object(m)
        }
        Array(t) => {
            let mut m = obj("Array", e.span());
            m.insert("es".into(), Value::Array(t.elems.iter().map(expr).collect()));
            Value::Object(m)
        }
        Repeat(r) => {
            let mut m = obj("Repeat", e.span());
            m.insert("e".into(), expr(&r.expr));
            m.insert("len".into(), expr(&r.len));
            Value::Object(m)
        }
        Macro(mm) => {
            let mut m = obj("Macro", e.span());
            mac(&mm.mac, &mut m);
            Value::Object(m)
        }
        Assign(a) => {
            let mut m = obj("Assign", e.span());
            m.insert("l".into(), expr(&a.left));
            m.insert("r".into(), expr(&a.right));
            Value::Object(m)
        }
        Cast(c) => {
            let mut m = obj("Cast", e.span());
            m.insert("e".into(), expr(&c.expr));
            m.insert("ty".into(), Value::String(ts_str(&c.ty)));
            Value::Object(m)
        }
        Range(r) => {
            let mut m = obj("Range", e.span());
            m.insert("lo".into(), opt_expr(&r.start));
            m.insert("hi".into(), opt_expr(&r.end));
            m.insert("closed".into(), Value::Bool(matches!(r.limits, syn::RangeLimits::Closed(_))));
            Value::Object(m)
        }
        While(w) => {
            let mut m = obj("While", e.span());
            m.insert("cond".into(), expr(&w.cond));
            m.insert("body".into(), block(&w.body));
            Value::Object(m)
        }
        ForLoop(f) => {
            let mut m = obj("For", e.span());
            m.insert("pat".into(), pat(&f.pat));
            m.insert("e".into(), expr(&f.expr));
            m.insert("body".into(), block(&f.body));
            Value::Object(m)
        }
        Loop(l) => {
            let mut m = obj("Loop", e.span());
            m.insert("body".into(), block(&l.body));
            Value::Object(m)
        }
        Await(a) => {
            let mut m = obj("Await", e.span());
            m.insert("e".into(), expr(&a.base));
            Value::Object(m)
        }
        Async(a) => block(&a.block),
        other => {
            let mut m = obj("OtherExpr", e.span());
            m.insert("src".into(), Value::String(ts_str(other)));
            Value::Object(m)
        }
    }
}

fn member(m: &syn::Member) -> String {
    match m {
        syn::Member::Named(i) => i.to_string(),
        syn::Member::Unnamed(i) => i.index.to_string(),
    }
}

fn pat(p: &syn::Pat) -> Value {
    use syn::Pat::*;
    match p {
        Paren(p) => pat(&p.pat),
        Ident(i) => {
            let mut m = obj("Ident", p.span());
            m.insert("name".into(), Value::String(i.ident.to_string()));
            m.insert("ref".into(), Value::Bool(i.by_ref.is_some()));
            m.insert("mut".into(), Value::Bool(i.mutability.is_some()));
            if let Some((_, sub)) = &i.subpat {
                m.insert("sub".into(), pat(sub));
            }
            Value::Object(m)
        }
        Wild(_) => Value::Object(obj("Wild", p.span())),
        Rest(_) => Value::Object(obj("Rest", p.span())),
        Path(pp) => {
            let mut m = obj("PPath", p.span());
            m.insert("p".into(), Value::String(path_str(&pp.path)));
            Value::Object(m)
        }
        TupleStruct(t) => {
            let mut m = obj("PTupleStruct", p.span());
            m.insert("p".into(), Value::String(path_str(&t.path)));
            m.insert("elems".into(), Value::Array(t.elems.iter().map(pat).collect()));
            Value::Object(m)
        }
        Struct(s) => {
            let mut m = obj("PStruct", p.span());
            m.insert("p".into(), Value::String(path_str(&s.path)));
            let fields = s
                .fields
                .iter()
                .map(|f| {
                    json!({"name": member(&f.member), "short": f.colon_token.is_none(), "pat": pat(&f.pat)})
                })
                .collect();
            m.insert("fields".into(), Value::Array(fields));
            m.insert("rest".into(), Value::Bool(s.rest.is_some()));
            Value::Object(m)
        }
        Tuple(t) => {
            let mut m = obj("PTuple", p.span());
            m.insert("elems".into(), Value::Array(t.elems.iter().map(pat).collect()));
            Value::Object(m)
        }
        Slice(t) => {
            let mut m = obj("PSlice", p.span());
            m.insert("elems".into(), Value::Array(t.elems.iter().map(pat).collect()));
            Value::Object(m)
        }
        Or(o) => {
            let mut m = obj("POr", p.span());
            m.insert("cases".into(), Value::Array(o.cases.iter().map(pat).collect()));
            Value::Object(m)
        }
        Lit(l) => {
            let mut m = obj("PLit", p.span());
            m.insert("e".into(), expr(&syn::Expr::Lit(l.clone())));
            Value::Object(m)
        }
        Reference(r) => {
            let mut m = obj("PRef", p.span());
            m.insert("pat".into(), pat(&r.pat));
            Value::Object(m)
        }
        Type(t) => {
            let mut m = obj("PType", p.span());
            m.insert("pat".into(), pat(&t.pat));
            m.insert("ty".into(), Value::String(ts_str(&t.ty)));
            Value::Object(m)
        }
        Range(r) => {
            let mut m = obj("PRange", p.span());
            m.insert("lo".into(), opt_expr(&r.start));
            m.insert("hi".into(), opt_expr(&r.end));
            m.insert("closed".into(), Value::Bool(matches!(r.limits, syn::RangeLimits::Closed(_))));
            Value::Object(m)
        }
        Const(c) => {
            let mut m = obj("PConst", p.span());
            m.insert("src".into(), Value::String(ts_str(c)));
            Value::Object(m)
        }
        Macro(mm) => {
            let mut m = obj("PMacro", p.span());
            m.insert("src".into(), Value::String(ts_str(mm)));
            Value::Object(m)
        }
        other => {
            let mut m = obj("OtherPat", p.span());
            m.insert("src".into(), Value::String(ts_str(other)));
            Value::Object(m)
        }
    }
}

fn generics(g: &syn::Generics) -> Value {
    Value::String(ts_str(g) + &g.where_clause.as_ref().map(|w| ts_str(w)).unwrap_or_default())
}

fn sig(s: &syn::Signature) -> Value {
    let inputs: Vec<Value> = s
        .inputs
        .iter()
        .map(|a| match a {
            syn::FnArg::Receiver(r) => json!({"self": true, "ref": r.reference.is_some(), "mut": r.mutability.is_some(), "src": ts_str(r)}),
            syn::FnArg::Typed(t) => json!({"pat": pat(&t.pat), "ty": ts_str(&t.ty)}),
        })
        .collect();
    let out = match &s.output {
        syn::ReturnType::Default => Value::Null,
        syn::ReturnType::Type(_, t) => Value::String(ts_str(t)),
    };
    json!({"inputs": inputs, "output": out, "generics": generics(&s.generics)})
}

fn fields(f: &syn::Fields) -> Value {
    Value::Array(
        f.iter()
            .enumerate()
            .map(|(i, f)| {
                json!({
                    "name": f.ident.as_ref().map(|i| i.to_string()).unwrap_or_else(|| i.to_string()),
                    "named": f.ident.is_some(),
                    "ty": ts_str(&f.ty),
                    "vis": ts_str(&f.vis),
                    "attrs": attrs(&f.attrs),
                    "l": f.span().start().line,
                })
            })
            .collect(),
    )
}

fn func(attrs_: &[syn::Attribute], vis: Option<&syn::Visibility>, s: &syn::Signature, b: Option<&syn::Block>, span: Span) -> Value {
    let mut m = obj("Fn", span);
    m.insert("name".into(), Value::String(s.ident.to_string()));
    m.insert("attrs".into(), attrs(attrs_));
    m.insert("vis".into(), Value::String(vis.map(|v| ts_str(v)).unwrap_or_default()));
    m.insert("sig".into(), sig(s));
    m.insert("unsafe".into(), Value::Bool(s.unsafety.is_some()));
    if let Some(b) = b {
        m.insert("body".into(), block(b));
    }
    Value::Object(m)
}

fn item(i: &syn::Item) -> Value {
    use syn::Item::*;
    match i {
        Fn(f) => func(&f.attrs, Some(&f.vis), &f.sig, Some(&f.block), i.span()),
        Impl(im) => {
            let mut m = obj("Impl", i.span());
            m.insert("attrs".into(), attrs(&im.attrs));
            m.insert("unsafe".into(), Value::Bool(im.unsafety.is_some()));
            m.insert("generics".into(), generics(&im.generics));
            m.insert(
                "trait".into(),
                match &im.trait_ {
                    Some((neg, p, _)) => Value::String(format!("{}{}", if neg.is_some() { "!" } else { "" }, ts_str(p))),
                    None => Value::Null,
                },
            );
            m.insert("self_ty".into(), Value::String(ts_str(&im.self_ty)));
            let items = im
                .items
                .iter()
                .map(|ii| match ii {
                    syn::ImplItem::Fn(f) => func(&f.attrs, Some(&f.vis), &f.sig, Some(&f.block), ii.span()),
                    syn::ImplItem::Const(c) => {
                        let mut cm = obj("Const", ii.span());
                        cm.insert("name".into(), Value::String(c.ident.to_string()));
                        cm.insert("ty".into(), Value::String(ts_str(&c.ty)));
                        cm.insert("e".into(), expr(&c.expr));
                        Value::Object(cm)
                    }
                    syn::ImplItem::Type(t) => {
                        let mut cm = obj("TypeAlias", ii.span());
                        cm.insert("name".into(), Value::String(t.ident.to_string()));
                        cm.insert("ty".into(), Value::String(ts_str(&t.ty)));
                        Value::Object(cm)
                    }
                    other => {
                        let mut cm = obj("OtherImplItem", ii.span());
                        cm.insert("src".into(), Value::String(ts_str(other)));
                        Value::Object(cm)
                    }
                })
                .collect();
            m.insert("items".into(), Value::Array(items));
            Value::Object(m)
        }
        Enum(e) => {
            let mut m = obj("Enum", i.span());
            m.insert("name".into(), Value::String(e.ident.to_string()));
            m.insert("attrs".into(), attrs(&e.attrs));
            m.insert("generics".into(), generics(&e.generics));
            let vs = e
                .variants
                .iter()
                .map(|v| {
                    json!({
                        "name": v.ident.to_string(),
                        "l": v.span().start().line,
                        "attrs": attrs(&v.attrs),
                        "fields": fields(&v.fields),
                        "style": match &v.fields { syn::Fields::Named(_) => "named", syn::Fields::Unnamed(_) => "tuple", syn::Fields::Unit => "unit" },
                        "disc": v.discriminant.as_ref().map(|(_, e)| expr(e)).unwrap_or(Value::Null),
                    })
                })
                .collect();
            m.insert("variants".into(), Value::Array(vs));
            Value::Object(m)
        }
        Struct(s) => {
            let mut m = obj("StructDef", i.span());
            m.insert("name".into(), Value::String(s.ident.to_string()));
            m.insert("attrs".into(), attrs(&s.attrs));
            m.insert("generics".into(), generics(&s.generics));
            m.insert("fields".into(), fields(&s.fields));
            Value::Object(m)
        }
        Mod(md) => {
            let mut m = obj("Mod", i.span());
            m.insert("name".into(), Value::String(md.ident.to_string()));
            m.insert("attrs".into(), attrs(&md.attrs));
            match &md.content {
                Some((_, items)) => {
                    m.insert("items".into(), Value::Array(items.iter().map(item).collect()));
                }
                None => {
                    m.insert("items".into(), Value::Null);
                }
            }
            Value::Object(m)
        }
        Const(c) => {
            let mut m = obj("Const", i.span());
            m.insert("name".into(), Value::String(c.ident.to_string()));
            m.insert("ty".into(), Value::String(ts_str(&c.ty)));
            m.insert("e".into(), expr(&c.expr));
            Value::Object(m)
        }
        Static(c) => {
            let mut m = obj("Static", i.span());
            m.insert("name".into(), Value::String(c.ident.to_string()));
            m.insert("ty".into(), Value::String(ts_str(&c.ty)));
            m.insert("e".into(), expr(&c.expr));
            Value::Object(m)
        }
        Macro(mm) => {
            let mut m = obj("MacroItem", i.span());
            m.insert("path".into(), Value::String(path_str(&mm.mac.path)));
            if let Some(id) = &mm.ident {
                m.insert("name".into(), Value::String(id.to_string()));
            }
            m.insert("tokens".into(), tokens(mm.mac.tokens.clone()));
            Value::Object(m)
        }
        Trait(t) => {
            let mut m = obj("Trait", i.span());
            m.insert("name".into(), Value::String(t.ident.to_string()));
            let items = t
                .items
                .iter()
                .filter_map(|ti| match ti {
                    syn::TraitItem::Fn(f) => Some(func(&f.attrs, None, &f.sig, f.default.as_ref(), ti.span())),
                    _ => None,
                })
                .collect();
            m.insert("items".into(), Value::Array(items));
            Value::Object(m)
        }
        Use(u) => {
            let mut m = obj("Use", i.span());
            m.insert("src".into(), Value::String(ts_str(&u.tree)));
            Value::Object(m)
        }
        Type(t) => {
            let mut m = obj("TypeAlias", i.span());
            m.insert("name".into(), Value::String(t.ident.to_string()));
            m.insert("ty".into(), Value::String(ts_str(&t.ty)));
            Value::Object(m)
        }
        other => {
            let mut m = obj("OtherItem", i.span());
            m.insert("src".into(), Value::String(ts_str(other).chars().take(200).collect()));
            Value::Object(m)
        }
    }
}

fn walk(dir: &Path, out: &mut Vec<PathBuf>) {
    if let Ok(rd) = fs::read_dir(dir) {
        let mut es: Vec<_> = rd.filter_map(|e| e.ok()).collect();
        es.sort_by_key(|e| e.path());
        for e in es {
            let p = e.path();
            if p.is_dir() {
                walk(&p, out);
            } else if p.extension().map(|x| x == "rs").unwrap_or(false) {
                out.push(p);
            }
        }
    }
}

fn main() {
    let args: Vec<String> = std::env::args().skip(1).collect();
    let mut root = PathBuf::from("/repo");
    let mut out = PathBuf::from("/verif/.cache/shape");
    let mut files: Vec<String> = vec![];
    let mut i = 0;
    while i < args.len() {
        match args[i].as_str() {
            "--root" => {
                root = PathBuf::from(&args[i + 1]);
                i += 2;
            }
            "--out" => {
                out = PathBuf::from(&args[i + 1]);
                i += 2;
            }
            f => {
                files.push(f.to_string());
                i += 1;
            }
        }
    }
    let mut paths = vec![];
    if files.is_empty() {
        if let Ok(rd) = fs::read_dir(root.join("crates")) {
            let mut cs: Vec<_> = rd.filter_map(|e| e.ok()).map(|e| e.path()).collect();
            cs.sort();
            for c in cs {
                walk(&c.join("src"), &mut paths);
            }
        }
    } else {
        for f in files {
            paths.push(root.join(f));
        }
    }
    let mut index = vec![];
    let mut failed = 0;
    for p in paths {
        let rel = p.strip_prefix(&root).unwrap_or(&p).to_string_lossy().to_string();
        let text = match fs::read_to_string(&p) {
            Ok(t) => t,
            Err(e) => {
                eprintln!("engine-shape: cannot read {}: {}", p.display(), e);
                failed += 1;
                continue;
            }
        };
        match syn::parse_file(&text) {
            Ok(f) => {
                let v = json!({
                    "file": rel,
                    "lines": text.lines().count(),
                    "attrs": attrs(&f.attrs),
                    "items": f.items.iter().map(item).collect::<Vec<_>>(),
                });
                let op = out.join(format!("{}.json", rel));
                fs::create_dir_all(op.parent().unwrap()).unwrap();
                fs::write(&op, serde_json::to_vec(&v).unwrap()).unwrap();
                index.push(json!({"file": rel, "lines": text.lines().count(), "items": f.items.len()}));
            }
            Err(e) => {
                eprintln!("engine-shape: PARSE-ERROR {}: {} at {:?}", rel, e, e.span().start());
                index.push(json!({"file": rel, "error": e.to_string()}));
                failed += 1;
            }
        }
    }
    fs::create_dir_all(&out).unwrap();
    fs::write(out.join("INDEX.json"), serde_json::to_vec_pretty(&json!({"root": root.to_string_lossy(), "files": index, "failed": failed})).unwrap()).unwrap();
    println!("engine-shape: {} files, {} failed", index.len(), failed);
    if failed > 0 {
        std::process::exit(2);
    }
}
