#!/bin/sh
# Build the MIR driver (nightly, rustc_private, zero cargo deps) and prime the dependency cache + facts
# for /repo's current tree. Offline.
set -e
cd "$(dirname "$0")"
export CARGO_NET_OFFLINE=true
cargo +nightly build --release --offline
cd ..
python3 - <<'PY'
import sys
sys.path.insert(0, ".")
from rules import flowrun
fl = flowrun.facts("/repo")
print("engine-flow: %d functions, %d ADTs extracted in %ss" % (len(fl.fns), len(fl.adts), fl.done.get("wall_s")))
PY
