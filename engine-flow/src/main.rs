//! engine-flow: dumb MIR fact extractor, run as RUSTC_WORKSPACE_WRAPPER under
//! `cargo +nightly check`. For every workspace crate it writes one JSON-lines
//! file `<VERIF_FLOW_OUT>/<crate>[-<kind>].jsonl` (one write per process):
//!   {"t":"meta",...}
//!   {"t":"fn", id, path, krate, file, line, end, closure_of, upvars, blocks:[...], writes:[...]}
//!   {"t":"adt", id, path, kind, fields:[{variant,name,ty,adts:[..]}]}
//! Every judgement lives in /verif/rules; nothing is decided here.
#![feature(rustc_private)]

extern crate rustc_abi;
extern crate rustc_driver;
extern crate rustc_hir;
extern crate rustc_interface;
extern crate rustc_middle;
extern crate rustc_session;
extern crate rustc_span;

use rustc_driver::{Callbacks, Compilation};
use rustc_hir::def::DefKind;
use rustc_hir::def_id::{DefId, LOCAL_CRATE};
use rustc_interface::interface::Compiler;
use rustc_middle::mir::{self, AssertKind, Operand, Place, ProjectionElem, Rvalue, StatementKind, TerminatorKind};
use rustc_middle::ty::print::with_no_trimmed_paths;
use rustc_middle::ty::{self, Ty, TyCtxt};
use rustc_span::Span;
use std::fmt::Write as _;

fn esc(s: &str) -> String {
    let mut o = String::with_capacity(s.len() + 2);
    o.push('"');
    for c in s.chars() {
        match c {
            '"' => o.push_str("\\\""),
            '\\' => o.push_str("\\\\"),
            '\n' => o.push_str("\\n"),
            '\t' => o.push_str("\\t"),
            '\r' => o.push_str("\\r"),
            c if (c as u32) < 0x20 => {
                let _ = write!(o, "\\u{:04x}", c as u32);
            }
            c => o.push(c),
        }
    }
    o.push('"');
    o
}

fn id_of(tcx: TyCtxt<'_>, d: DefId) -> String {
    let h = tcx.def_path_hash(d);
    format!("{:016x}{:016x}", h.0.split().0.as_u64(), h.0.split().1.as_u64())
}

fn path_of(tcx: TyCtxt<'_>, d: DefId) -> String {
    let p = with_no_trimmed_paths!(tcx.def_path_str(d));
    if d.is_local() {
        format!("{}::{}", tcx.crate_name(LOCAL_CRATE), p)
    } else {
        p
    }
}

struct Loc {
    file: String,
    line: usize,
    exp: bool,
    mac: String,
}

fn loc(tcx: TyCtxt<'_>, span: Span) -> Loc {
    let exp = span.from_expansion();
    let mac = if exp {
        let d = span.ctxt().outer_expn_data();
        match d.kind {
            rustc_span::ExpnKind::Macro(_, name) => name.to_string(),
            rustc_span::ExpnKind::Desugaring(k) => format!("desugar:{:?}", k),
            _ => String::new(),
        }
    } else {
        String::new()
    };
    let cs = span.source_callsite();
    let sm = tcx.sess.source_map();
    let p = sm.lookup_char_pos(cs.lo());
    let file = match &p.file.name {
        rustc_span::FileName::Real(r) => r
            .local_path()
            .map(|p| p.to_string_lossy().to_string())
            .unwrap_or_else(|| format!("{:?}", r)),
        other => format!("{:?}", other),
    };
    Loc { file, line: p.line, exp, mac }
}

fn ty_str<'tcx>(t: Ty<'tcx>) -> String {
    with_no_trimmed_paths!(format!("{}", t))
}

/// (adt path, field name) pairs a place goes through
fn place_fields<'tcx>(tcx: TyCtxt<'tcx>, body: &mir::Body<'tcx>, place: &Place<'tcx>) -> Vec<(String, String, bool)> {
    let mut out = vec![];
    let mut ty = mir::PlaceTy::from_ty(body.local_decls[place.local].ty);
    let mut through_deref_of_shared = false;
    for elem in place.projection.iter() {
        match elem {
            ProjectionElem::Field(f, _) => {
                let base = ty.ty.peel_refs();
                if let ty::Adt(adt, _) = base.kind() {
                    let v = match ty.variant_index {
                        Some(v) => adt.variant(v),
                        None => {
                            if adt.is_enum() {
                                // no variant info: skip
                                ty = ty.projection_ty(tcx, elem);
                                continue;
                            }
                            adt.non_enum_variant()
                        }
                    };
                    if let Some(fd) = v.fields.get(f) {
                        out.push((path_of(tcx, adt.did()), fd.name.to_string(), through_deref_of_shared));
                    }
                }
            }
            ProjectionElem::Deref => {
                if let ty::Ref(_, _, m) = ty.ty.kind() {
                    if m.is_not() {
                        through_deref_of_shared = true;
                    }
                }
            }
            _ => {}
        }
        ty = ty.projection_ty(tcx, elem);
    }
    out
}

fn local_root(place: &Place<'_>) -> usize {
    place.local.as_usize()
}

fn operand_str<'tcx>(op: &Operand<'tcx>) -> String {
    match op {
        Operand::Copy(p) | Operand::Move(p) => format!("_{}{}", p.local.as_usize(), if p.projection.is_empty() { "" } else { ".." }),
        Operand::Constant(c) => {
            let s = with_no_trimmed_paths!(format!("{}", c.const_));
            if s.len() > 60 {
                s.chars().take(60).collect()
            } else {
                s
            }
        }
        #[allow(unreachable_patterns)]
        _ => String::from("?"),
    }
}

struct Dump {
    out_dir: String,
}

impl Callbacks for Dump {
    fn after_analysis<'tcx>(&mut self, _c: &Compiler, tcx: TyCtxt<'tcx>) -> Compilation {
        let krate = tcx.crate_name(LOCAL_CRATE).to_string();
        let mut out = String::new();
        let crate_types: Vec<String> = tcx.crate_types().iter().map(|t| format!("{:?}", t)).collect();
        let is_test = tcx.sess.opts.test;
        let _ = writeln!(out, "{{\"t\":\"meta\",\"krate\":{},\"crate_types\":{},\"test\":{}}}", esc(&krate), esc(&crate_types.join(",")), is_test);
        let mut nfn = 0usize;
        for ldid in tcx.hir_body_owners() {
            let did = ldid.to_def_id();
            let kind = tcx.def_kind(did);
            if !matches!(kind, DefKind::Fn | DefKind::AssocFn | DefKind::Closure) {
                continue;
            }
            // coroutines etc.: skip anything optimized_mir cannot give
            if tcx.is_constructor(did) {
                continue;
            }
            let body: &mir::Body<'tcx> = tcx.optimized_mir(did);
            nfn += 1;
            let l = loc(tcx, body.span);
            let end = tcx.sess.source_map().lookup_char_pos(body.span.source_callsite().hi()).line;
            let root = tcx.typeck_root_def_id(did);
            let mut rec = String::new();
            let _ = write!(
                rec,
                "{{\"t\":\"fn\",\"id\":{},\"path\":{},\"krate\":{},\"file\":{},\"line\":{},\"end\":{},\"kind\":{},\"exp\":{}",
                esc(&id_of(tcx, did)),
                esc(&path_of(tcx, did)),
                esc(&krate),
                esc(&l.file),
                l.line,
                end,
                esc(&format!("{:?}", kind)),
                l.exp
            );
            if root != did {
                let _ = write!(rec, ",\"closure_of\":{},\"closure_of_path\":{}", esc(&id_of(tcx, root)), esc(&path_of(tcx, root)));
            }
            if matches!(kind, DefKind::Closure) {
                let cty = tcx.type_of(did).instantiate_identity().skip_norm_wip();
                if let ty::Closure(_, args) = cty.kind() {
                    let ups: Vec<String> = args.as_closure().upvar_tys().iter().map(|t| esc(&ty_str(t))).collect();
                    let _ = write!(rec, ",\"upvars\":[{}]", ups.join(","));
                }
            }
            // argument and return types
            let sig_tys: Vec<String> = body.args_iter().map(|a| esc(&ty_str(body.local_decls[a].ty))).collect();
            let _ = write!(rec, ",\"args\":[{}],\"ret\":{}", sig_tys.join(","), esc(&ty_str(body.return_ty())));
            let typing_env = ty::TypingEnv::post_analysis(tcx, did);
            rec.push_str(",\"blocks\":[");
            let mut writes = String::new();
            let mut first_w = true;
            let mut aggs = String::new();
            let mut lconsts = String::new();
            let mut assigned: std::collections::HashMap<usize, (u32, String)> = std::collections::HashMap::new();
            for (bb, data) in body.basic_blocks.iter_enumerated() {
                if bb.as_usize() > 0 {
                    rec.push(',');
                }
                let term = data.terminator();
                let succs: Vec<String> = term.successors().map(|s| s.as_usize().to_string()).collect();
                let tl = loc(tcx, term.source_info.span);
                let _ = write!(rec, "{{\"s\":[{}],\"c\":{},\"l\":{},\"x\":{}", succs.join(","), data.is_cleanup, tl.line, tl.exp);
                if tl.exp && !tl.mac.is_empty() {
                    let _ = write!(rec, ",\"m\":{}", esc(&tl.mac));
                }
                match &term.kind {
                    TerminatorKind::Call { func, args, destination, target, unwind: _, fn_span, .. } => {
                        let fty = func.ty(&body.local_decls, tcx);
                        let fl = loc(tcx, *fn_span);
                        let argstr: Vec<String> = args.iter().map(|a| esc(&operand_str(&a.node))).collect();
                        let argtys: Vec<String> = args.iter().map(|a| esc(&ty_str(a.node.ty(&body.local_decls, tcx)))).collect();
                        let _ = write!(rec, ",\"k\":\"call\",\"fl\":{},\"a\":[{}],\"at\":[{}],\"d\":{},\"ret\":{}", fl.line, argstr.join(","), argtys.join(","), local_root(destination), target.map(|t| t.as_usize() as i64).unwrap_or(-1));
                        if let ty::FnDef(cdid, cargs) = fty.kind() {
                            let mut resolved = *cdid;
                            let mut how = "direct";
                            let is_trait_item = tcx.trait_of_assoc(*cdid).is_some();
                            if is_trait_item {
                                how = "trait-unresolved";
                                if let Ok(Some(inst)) = ty::Instance::try_resolve(tcx, typing_env, *cdid, cargs) {
                                    resolved = inst.def_id();
                                    how = match inst.def {
                                        ty::InstanceKind::Item(_) => "trait-resolved",
                                        ty::InstanceKind::Virtual(..) => "virtual",
                                        _ => "shim",
                                    };
                                }
                            }
                            let _ = write!(
                                rec,
                                ",\"callee\":{},\"cid\":{},\"how\":{},\"targs\":{}",
                                esc(&path_of(tcx, resolved)),
                                esc(&id_of(tcx, resolved)),
                                esc(how),
                                esc(&with_no_trimmed_paths!(format!("{:?}", cargs)))
                            );
                            if resolved != *cdid {
                                let _ = write!(rec, ",\"decl\":{}", esc(&path_of(tcx, *cdid)));
                            }
                            if is_trait_item {
                                if let Some(st) = cargs.types().next() {
                                    let _ = write!(rec, ",\"self_ty\":{}", esc(&ty_str(st)));
                                }
                            }
                        } else {
                            // call through a fn pointer / closure value
                            let _ = write!(rec, ",\"callee\":null,\"fty\":{}", esc(&ty_str(fty)));
                        }
                    }
                    TerminatorKind::Assert { msg, cond, .. } => {
                        let kind = match &**msg {
                            AssertKind::BoundsCheck { .. } => "bounds".to_string(),
                            AssertKind::Overflow(op, ..) => format!("overflow:{:?}", op),
                            AssertKind::OverflowNeg(_) => "overflow:Neg".to_string(),
                            AssertKind::DivisionByZero(_) => "div-by-zero".to_string(),
                            AssertKind::RemainderByZero(_) => "rem-by-zero".to_string(),
                            other => format!("other:{:?}", std::mem::discriminant(other)),
                        };
                        let ot = match &**msg {
                            AssertKind::Overflow(_, a, _) => ty_str(a.ty(&body.local_decls, tcx)),
                            AssertKind::BoundsCheck { len, .. } => ty_str(len.ty(&body.local_decls, tcx)),
                            _ => String::new(),
                        };
                        let _ = write!(rec, ",\"k\":\"assert\",\"ak\":{},\"ot\":{},\"cond\":{}", esc(&kind), esc(&ot), esc(&operand_str(cond)));
                        if let AssertKind::BoundsCheck { len, index } = &**msg {
                            let _ = write!(rec, ",\"idx\":{},\"len\":{}", esc(&operand_str(index)), esc(&operand_str(len)));
                        }
                    }
                    TerminatorKind::Drop { place, .. } => {
                        let pty = place.ty(&body.local_decls, tcx).ty;
                        let _ = write!(rec, ",\"k\":\"drop\",\"ty\":{},\"p\":{}", esc(&ty_str(pty)), local_root(place));
                    }
                    TerminatorKind::Return => rec.push_str(",\"k\":\"return\""),
                    TerminatorKind::Unreachable => rec.push_str(",\"k\":\"unreachable\""),
                    TerminatorKind::SwitchInt { discr, .. } => {
                        let _ = write!(rec, ",\"k\":\"switch\",\"on\":{}", esc(&operand_str(discr)));
                    }
                    TerminatorKind::Goto { .. } => rec.push_str(",\"k\":\"goto\""),
                    TerminatorKind::UnwindResume => rec.push_str(",\"k\":\"resume\""),
                    TerminatorKind::UnwindTerminate(_) => rec.push_str(",\"k\":\"abort\""),
                    TerminatorKind::TailCall { .. } => rec.push_str(",\"k\":\"tailcall\""),
                    _ => rec.push_str(",\"k\":\"other\""),
                }
                rec.push('}');
                // statements: field writes and &mut borrows of fields
                for st in &data.statements {
                    if let StatementKind::Assign(b) = &st.kind {
                        let (place, rv) = &**b;
                        let sl = loc(tcx, st.source_info.span);
                        for (adt, f, shared) in place_fields(tcx, body, place) {
                            if !first_w {
                                writes.push(',');
                            }
                            first_w = false;
                            let _ = write!(writes, "{{\"w\":\"assign\",\"adt\":{},\"f\":{},\"l\":{},\"bb\":{},\"x\":{},\"sh\":{}}}", esc(&adt), esc(&f), sl.line, bb.as_usize(), sl.exp, shared);
                        }
                        if let Rvalue::Ref(_, mir::BorrowKind::Mut { .. }, p2) = rv {
                            for (adt, f, shared) in place_fields(tcx, body, p2) {
                                if !first_w {
                                    writes.push(',');
                                }
                                first_w = false;
                                let _ = write!(writes, "{{\"w\":\"mutborrow\",\"adt\":{},\"f\":{},\"l\":{},\"bb\":{},\"x\":{},\"sh\":{}}}", esc(&adt), esc(&f), sl.line, bb.as_usize(), sl.exp, shared);
                            }
                        }
                        // locals assigned a constant or a field-less variant (to name call arguments), and ADT constructions
                        if place.projection.is_empty() {
                            let repr = match rv {
                                Rvalue::Use(Operand::Constant(c), ..) => Some(with_no_trimmed_paths!(format!("{}", c.const_))),
                                Rvalue::Aggregate(k, fs) if fs.is_empty() => match &**k {
                                    mir::AggregateKind::Adt(adid, vidx, ..) => {
                                        let ad = tcx.adt_def(*adid);
                                        Some(format!("{}::{}", path_of(tcx, *adid), ad.variant(*vidx).name))
                                    }
                                    _ => None,
                                },
                                _ => None,
                            };
                            let e = assigned.entry(place.local.as_usize()).or_insert((0, String::new()));
                            e.0 += 1;
                            if let Some(r) = repr {
                                e.1 = r.chars().take(120).collect();
                            } else {
                                e.1 = String::new();
                            }
                        }
                        if let Rvalue::Aggregate(k, _) = rv {
                            if let mir::AggregateKind::Adt(adid, vidx, ..) = &**k {
                                let cn = tcx.crate_name(adid.krate).to_string();
                                if cn != "core" && cn != "std" && cn != "alloc" {
                                    let ad = tcx.adt_def(*adid);
                                    if !aggs.is_empty() {
                                        aggs.push(',');
                                    }
                                    let _ = write!(aggs, "{{\"adt\":{},\"v\":{},\"l\":{},\"bb\":{},\"x\":{}}}", esc(&path_of(tcx, *adid)), esc(&ad.variant(*vidx).name.to_string()), sl.line, bb.as_usize(), sl.exp);
                                }
                            }
                        }
                        if let Rvalue::RawPtr(_, p2) = rv {
                            for (adt, f, shared) in place_fields(tcx, body, p2) {
                                if !first_w {
                                    writes.push(',');
                                }
                                first_w = false;
                                let _ = write!(writes, "{{\"w\":\"rawptr\",\"adt\":{},\"f\":{},\"l\":{},\"bb\":{},\"x\":{},\"sh\":{}}}", esc(&adt), esc(&f), sl.line, bb.as_usize(), sl.exp, shared);
                            }
                        }
                    }
                }
            }
            for (l, (n, r)) in assigned.iter() {
                if *n == 1 && !r.is_empty() {
                    if !lconsts.is_empty() {
                        lconsts.push(',');
                    }
                    let _ = write!(lconsts, "\"{}\":{}", l, esc(r));
                }
            }
            let mut names = String::new();
            for vdi in body.var_debug_info.iter() {
                if let mir::VarDebugInfoContents::Place(p) = &vdi.value {
                    if !names.is_empty() {
                        names.push(',');
                    }
                    let _ = write!(names, "[{},{},{}]", p.local.as_usize(), esc(&vdi.name.to_string()), !p.projection.is_empty());
                }
            }
            let _ = write!(rec, "],\"writes\":[{}],\"aggs\":[{}],\"lc\":{{{}}},\"names\":[{}]}}", writes, aggs, lconsts, names);
            out.push_str(&rec);
            out.push('\n');
        }
        // ADTs
        let mut nadt = 0usize;
        for ldid in tcx.hir_crate_items(()).definitions() {
            let did = ldid.to_def_id();
            let kind = tcx.def_kind(did);
            if !matches!(kind, DefKind::Struct | DefKind::Enum | DefKind::Union) {
                continue;
            }
            nadt += 1;
            let adt = tcx.adt_def(did);
            let l = loc(tcx, tcx.def_span(did));
            let mut rec = String::new();
            let _ = write!(rec, "{{\"t\":\"adt\",\"id\":{},\"path\":{},\"krate\":{},\"kind\":{},\"file\":{},\"line\":{},\"fields\":[", esc(&id_of(tcx, did)), esc(&path_of(tcx, did)), esc(&krate), esc(&format!("{:?}", kind)), esc(&l.file), l.line);
            let mut first = true;
            for v in adt.variants() {
                for f in v.fields.iter() {
                    let fty = tcx.type_of(f.did).instantiate_identity().skip_norm_wip();
                    let mut adts: Vec<String> = vec![];
                    for ga in fty.walk() {
                        if let Some(t) = ga.as_type() {
                            match t.kind() {
                                ty::Adt(a, _) => adts.push(esc(&path_of(tcx, a.did()))),
                                ty::Dynamic(..) => adts.push(esc("dyn")),
                                ty::RawPtr(..) => adts.push(esc("rawptr")),
                                _ => {}
                            }
                        }
                    }
                    adts.sort();
                    adts.dedup();
                    if !first {
                        rec.push(',');
                    }
                    first = false;
                    let _ = write!(rec, "{{\"variant\":{},\"name\":{},\"ty\":{},\"adts\":[{}]}}", esc(&v.name.to_string()), esc(&f.name.to_string()), esc(&ty_str(fty)), adts.join(","));
                }
            }
            rec.push_str("]}");
            out.push_str(&rec);
            out.push('\n');
        }
        for ldid in tcx.hir_crate_items(()).definitions() {
            let did = ldid.to_def_id();
            if !matches!(tcx.def_kind(did), DefKind::Static { .. }) {
                continue;
            }
            let sty = tcx.type_of(did).instantiate_identity().skip_norm_wip();
            let mut adts: Vec<String> = vec![];
            for ga in sty.walk() {
                if let Some(t) = ga.as_type() {
                    if let ty::Adt(a, _) = t.kind() {
                        adts.push(esc(&path_of(tcx, a.did())));
                    }
                }
            }
            adts.sort();
            adts.dedup();
            let l = loc(tcx, tcx.def_span(did));
            let _ = writeln!(out, "{{\"t\":\"static\",\"path\":{},\"ty\":{},\"adts\":[{}],\"file\":{},\"line\":{}}}", esc(&path_of(tcx, did)), esc(&ty_str(sty)), adts.join(","), esc(&l.file), l.line);
        }
        let suffix = if is_test { "-test" } else if crate_types.iter().any(|t| t.contains("Executable")) { "-bin" } else { "" };
        let path = format!("{}/{}{}.jsonl", self.out_dir, krate, suffix);
        let _ = std::fs::create_dir_all(&self.out_dir);
        let tmp = format!("{}.tmp{}", path, std::process::id());
        std::fs::write(&tmp, out).expect("write facts");
        std::fs::rename(&tmp, &path).expect("rename facts");
        eprintln!("engine-flow: {} fns {} adts -> {}", nfn, nadt, path);
        Compilation::Continue
    }
}

fn main() {
    // invoked as: engine-flow <rustc> <args...>  (RUSTC_WORKSPACE_WRAPPER convention)
    let mut args: Vec<String> = std::env::args().collect();
    args.remove(1);
    let out_dir = std::env::var("VERIF_FLOW_OUT").unwrap_or_else(|_| "/verif/.cache/flow-facts".to_string());
    // build scripts and proc-macro crates of the workspace are compiled through the wrapper too: only analyse real members
    let crate_name = args.iter().position(|a| a == "--crate-name").and_then(|i| args.get(i + 1)).cloned().unwrap_or_default();
    let wanted = ["uplc", "aiken_lang", "aiken_project", "aiken", "aiken_lsp"];
    let mut cb = Dump { out_dir };
    if wanted.contains(&crate_name.as_str()) && !args.iter().any(|a| a == "--print" || a.starts_with("--print=")) {
        rustc_driver::run_compiler(&args, &mut cb);
    } else {
        struct Nop;
        impl Callbacks for Nop {}
        rustc_driver::run_compiler(&args, &mut Nop);
    }
}
