//! Baseline finding (UNMODIFIED tree): the optimiser constant-folds
//! `bls12_381_g1_hash_to_group(<const>, <const>)` (and, in its wake, g1_add /
//! g1_equal / g1_scalar_mul of the folded points) into a
//! `(con bls12_381_G1_element ..)` constant. BLS points cannot be flat-encoded,
//! so the optimised program cannot be serialised: `aiken build` dies with
//! "Whoops! You found a bug in the Aiken compiler ... BLS12-381 G1 points are not
//! supported for flat encoding". The unoptimised program serialises fine.
//!
//! Install: copy to `crates/uplc/tests/baseline_c02c_bls_fold.rs`
//! Run:     cargo test --offline -p uplc --test baseline_c02c_bls_fold
//! Expected on the unmodified tree: `optimised_program_is_still_serialisable` FAILS.
use uplc::{
    ast::{DeBruijn, Name, Program},
    optimize::aiken_optimize_and_intern,
    parser,
};

const SRC: &str = r#"
(program
  1.1.0
  (lam
    redeemer
    [
      [
        (builtin bls12_381_G1_equal)
        [
          [ (builtin bls12_381_G1_hashToGroup) (con bytestring #abcd) ]
          (con bytestring #01)
        ]
      ]
      [ (builtin bls12_381_G1_uncompress) redeemer ]
    ]
  )
)
"#;

#[test]
fn unoptimised_program_is_serialisable() {
    let program: Program<Name> = parser::program(SRC).unwrap();
    let program: Program<DeBruijn> = program.try_into().unwrap();
    assert!(program.to_cbor().is_ok());
}

#[test]
fn optimised_program_is_still_serialisable() {
    let program: Program<Name> = parser::program(SRC).unwrap();
    let optimised = aiken_optimize_and_intern(program);
    let pretty = optimised.to_pretty();
    let optimised: Program<DeBruijn> = optimised.try_into().unwrap();
    let encoded = optimised.to_cbor();
    assert!(
        encoded.is_ok(),
        "optimiser output cannot be serialised: {:?}\n{pretty}",
        encoded.err()
    );
}
