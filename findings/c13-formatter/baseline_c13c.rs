// Baseline findings for property C13 (formatter preserves programs) on the UNMODIFIED tree.
// Install: copy to crates/aiken-lang/tests/baseline_c13c.rs
// Run:     cargo test --offline -p aiken-lang --test baseline_c13c --no-fail-fast
// Every test below asserts the property on one input; each FAILS on the unmodified tree
// (except `control`, which passes).
use aiken_lang::{ast::ModuleKind, format, parser};

fn fmt(src: &str) -> Result<String, String> {
    let (module, extra) =
        parser::module(src, ModuleKind::Lib).map_err(|e| format!("parse error: {e:?}"))?;
    let mut out = String::new();
    format::pretty(&mut out, module, extra, src);
    Ok(out)
}

/// Debug rendering of the definitions with every source position erased.
fn tree(src: &str) -> String {
    let (module, _) = parser::module(src, ModuleKind::Lib).expect("must parse");
    erase_positions(&format!("{:#?}", module.definitions))
}

fn comments(src: &str) -> Vec<String> {
    let (_, extra) = parser::module(src, ModuleKind::Lib).expect("must parse");
    extra
        .comments
        .iter()
        .map(|s| src[s.start..s.end].to_string())
        .collect()
}

/// Drops `N..M` spans and the numeric `end_position` / import brace positions from a
/// pretty Debug dump. Works line by line on the `{:#?}` output.
fn erase_positions(dump: &str) -> String {
    dump.lines()
        .map(|l| {
            let t = l.trim_start();
            let is_span = |s: &str| {
                let s = s.trim_end_matches(',');
                match s.split_once("..") {
                    Some((a, b)) => {
                        !a.is_empty()
                            && !b.is_empty()
                            && a.chars().all(|c| c.is_ascii_digit())
                            && b.chars().all(|c| c.is_ascii_digit())
                    }
                    None => false,
                }
            };
            if is_span(t) {
                "<span>".to_string()
            } else if let Some((k, v)) = t.split_once(": ") {
                if is_span(v) || k == "end_position" {
                    format!("{k}: <pos>")
                } else {
                    t.to_string()
                }
            } else if t.trim_end_matches(',').chars().all(|c| c.is_ascii_digit())
                && !t.is_empty()
            {
                // bare number inside a tuple (e.g. `unqualified: (N, [...])`)
                "<num>".to_string()
            } else {
                t.to_string()
            }
        })
        .collect::<Vec<_>>()
        .join("\n")
}

fn check(src: &str) {
    let out = fmt(src).expect("input must parse");
    let out2 = match fmt(&out) {
        Ok(o) => o,
        Err(e) => panic!("formatted output no longer parses:\n{out}\n{e}"),
    };
    assert_eq!(
        comments(src),
        comments(&out),
        "comments not retained in order:\n{out}"
    );
    if tree(src) != tree(&out) {
        panic!(
            "formatted output parses to a different tree.\n--- input\n{src}\n--- output\n{out}"
        );
    }
    assert_eq!(out2, out, "not idempotent");
}

#[test]
fn control() {
    check("fn f(x) {\n  // hello\n  x + 1\n}\n");
}

// F1: any identifier that merely CONTAINS "_capture" is printed as a capture hole.
#[test]
fn f1_identifier_containing_capture() {
    check("fn f(x_capture) {\n  x_capture + 1\n}\n");
}

// F2: a `//` comment in front of a punned field of a record pattern is dropped.
#[test]
fn f2_comment_before_punned_pattern_field() {
    check("fn f(x) {\n  when x is {\n    Foo {\n      // about a\n      a,\n      b,\n    } -> a\n  }\n}\n");
}

// F3: `expect True <- g(x)` (backpassing) is printed as `expect g(x)`.
#[test]
fn f3_expect_true_backpassing() {
    check("fn f(x) {\n  expect True <- g(x)\n  x\n}\n");
}

// F4: a labelled hole in first position of a piped call is dropped together with its label.
#[test]
fn f4_labelled_hole_in_pipe() {
    check("fn f(x) {\n  x |> g(b: _, a: 2)\n}\n");
}

// F5: parentheses around the callee / container of a postfix chain are dropped.
#[test]
fn f5a_call_on_parenthesised_pipeline() {
    check("fn f(x) {\n  (x |> g)(1)\n}\n");
}

#[test]
fn f5b_tuple_index_on_parenthesised_binop() {
    check("fn f(x, y) {\n  (x + y).1st\n}\n");
}

#[test]
fn f5c_field_access_on_parenthesised_pipeline() {
    check("fn f(x) {\n  (x |> g).foo\n}\n");
}

// F6: imports are sorted, and the comments attached to them move along: comment order changes.
#[test]
fn f6_comments_on_sorted_imports() {
    check("// about b\nuse b\n// about a\nuse a\n\nfn f(x) {\n  x\n}\n");
}
