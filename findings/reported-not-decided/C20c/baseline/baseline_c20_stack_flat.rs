//! C20 baseline (clean tree): a modest flat-encoded program must not overflow the stack.
//! Install as crates/uplc/tests/baseline_c20_stack_flat.rs
//!
//! 10 KiB of 0x11 bytes after the version = 20 000 nested `(delay ..)` terms.
//! `Term::decode_debug` (and `Term::decode`) recurse once per term with no depth limit;
//! on an 8 MiB stack (the default for a process' main thread on Linux, where
//! `aiken uplc decode`, `aiken blueprint ..` and `aiken tx simulate` run their decoders)
//! the dev build overflows between 1 000 and 2 000 nested terms (0.5 - 1 KiB of input)
//! and the release build between 8 000 and 14 000 (4 - 7 KiB). The process is killed by
//! SIGABRT ("has overflowed its stack"), which no caller can catch.

use uplc::ast::{DeBruijn, Program};

#[test]
fn deeply_nested_flat_program() {
    std::thread::Builder::new()
        .stack_size(8 * 1024 * 1024)
        .spawn(|| {
            let mut bytes = vec![1u8, 0, 0];
            bytes.extend(std::iter::repeat(0x11).take(10 * 1024));
            bytes.push(0x61); // (error) + padding
            // Ok or Err are both acceptable.
            let _ = Program::<DeBruijn>::from_flat(&bytes);
        })
        .unwrap()
        .join()
        .expect("decoder thread must terminate normally");
}
