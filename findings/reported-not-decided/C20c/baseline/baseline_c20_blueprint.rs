//! C20 baseline (clean tree): JSON given to blueprint loading + parameter application
//! must yield Ok/Err.
//! Install as crates/aiken-project/tests/baseline_c20_blueprint.rs

use aiken_project::blueprint::Blueprint;
use serde_json::{Value, json};
use std::panic::{AssertUnwindSafe, catch_unwind};
use uplc::{
    PlutusData,
    ast::{Data, DeBruijn, Program, SerializableProgram},
};

fn compiled_validator() -> Value {
    let program: Program<DeBruijn> =
        uplc::parser::program("(program 1.1.0 (lam param (lam ctx (con unit ()))))")
            .unwrap()
            .try_into()
            .unwrap();

    serde_json::to_value(SerializableProgram::PlutusV3Program(program)).unwrap()
}

fn load(title: &str, parameter_schema: Value, definitions: Value) -> Result<Blueprint, String> {
    let compiled = compiled_validator();

    serde_json::from_value(json!({
        "preamble": { "title": "acme/demo", "version": "0.0.0", "plutusVersion": "v3" },
        "validators": [
            {
                "title": title,
                "parameters": [ { "title": "param", "schema": parameter_schema } ],
                "compiledCode": compiled["compiledCode"],
                "hash": compiled["hash"]
            }
        ],
        "definitions": definitions
    }))
    .map_err(|e| e.to_string())
}

fn apply_does_not_panic(blueprint: Blueprint, param: &PlutusData) {
    let mut blueprint = blueprint;
    let outcome = catch_unwind(AssertUnwindSafe(|| {
        blueprint.apply_parameter(None, None, param).is_ok()
    }));
    assert!(
        outcome.is_ok(),
        "Blueprint::apply_parameter panicked instead of returning Ok/Err"
    );
}

/// `"definitions": {"Owner": null}` is accepted by the loader (the map's values are
/// `Option<T>`, `None` being a transient state used while *generating* blueprints), and
/// `Definitions::lookup` then `.expect()`s that every entry is `Some`.
#[test]
fn null_definition() {
    // Either outcome is fine for loading: rejecting the document, or accepting it.
    if let Ok(blueprint) = load(
        "demo.demo.spend",
        json!({ "$ref": "#/definitions/Owner" }),
        json!({ "Owner": null }),
    ) {
        apply_does_not_panic(blueprint, &Data::integer(1.into()));
    }
}

/// A validator title without a '.' is accepted by the loader, and
/// `Validator::get_module_and_name` (called by `Blueprint::lookup`, hence by every
/// `blueprint apply/address/hash/policy/convert`) `.expect()`s two dot-separated parts.
#[test]
fn validator_title_without_module() {
    if let Ok(blueprint) = load("spend", json!({ "dataType": "integer" }), json!({})) {
        apply_does_not_panic(blueprint, &Data::integer(1.into()));
    }
}
