//! C20 baseline (clean tree): a modest textual UPLC program must not overflow the stack.
//! Install as crates/uplc/tests/baseline_c20_stack_text.rs
//!
//! 16 000 nested `(delay ..)` (about 125 KiB of text). The peg grammar recurses once per
//! term with no depth limit; on an 8 MiB stack the dev build overflows between 4 000 and
//! 6 000 nested terms and the release build between 8 000 and 14 000. SIGABRT, uncatchable.

#[test]
fn deeply_nested_textual_program() {
    std::thread::Builder::new()
        .stack_size(8 * 1024 * 1024)
        .spawn(|| {
            let n = 16_000;
            let src = format!(
                "(program 1.0.0 {}(error){})",
                "(delay ".repeat(n),
                ")".repeat(n)
            );
            // Ok or Err are both acceptable.
            let _ = uplc::parser::program(&src);
        })
        .unwrap()
        .join()
        .expect("parser thread must terminate normally");
}
