//! C20 baseline (clean tree): bytes given to `Program::from_flat` must yield Ok/Err.
//! Install as crates/uplc/tests/baseline_c20_flat.rs

use std::panic::catch_unwind;
use uplc::ast::{DeBruijn, Program};

fn no_panic(bytes: &[u8]) {
    let owned = bytes.to_vec();
    let outcome = catch_unwind(move || {
        Program::<DeBruijn>::from_flat(&owned)
            .map(|_| ())
            .map_err(|_| ())
    });
    assert!(
        outcome.is_ok(),
        "Program::from_flat panicked instead of returning Ok/Err on {bytes:02x?}"
    );
}

/// A truncated `(con (pair bool (list bool)) ..)`: version 1.0.0, term tag 4, the type
/// tags [7,7,6,4,7,5,4] and the end-of-tags bit take exactly 5 bytes, so the first
/// `bool` payload sits on the first byte past the end of the buffer.
/// `Decoder::bool` indexes `self.buffer[self.pos]` without a bounds check.
#[test]
fn truncated_bool_constant() {
    no_panic(&[0x01, 0x00, 0x00, 0x4b, 0xde, 0xd4, 0xbd, 0x68]);
}

/// A version number whose varint has more than nine continuation bytes: `Decoder::word`
/// shifts a usize left by >= 64 ("attempt to shift left with overflow" with overflow
/// checks on, i.e. in every dev/test build; silently wraps in release).
#[test]
fn overlong_varint_in_version() {
    no_panic(&[
        0xff, 0xff, 0xff, 0xff, 0xff, 0xff, 0xff, 0xff, 0xff, 0xff, 0x01, 0x00, 0x00, 0x60,
    ]);
}
