//! BASELINE (clean tree): reading back a deeply nested closure overflows the stack.
//!
//! The program below runs a tail-recursive loop `go n acc = if n == 0 then acc
//! else go (n - 1) (\u -> acc)` and returns the final `acc`: a lambda that
//! captured a lambda that captured a lambda ... N deep. The CEK machine itself
//! is iterative and finishes well within the default (mainnet-sized) budget,
//! and the specification's answer is the closed term
//! `(lam u (lam u ... (con unit ())))`.
//!
//! `discharge::value_as_term` / `with_env` are mutually recursive with several
//! frames per captured closure, so on a 2 MiB stack (Rust's default for every
//! thread but the main one, e.g. the test harness, rayon or tokio workers) the
//! process aborts with "stack overflow" for N around 2000 (release) or 500
//! (debug) instead of returning the value.

use pallas_primitives::conway::Language;
use uplc::{
    ast::{NamedDeBruijn, Program, Term},
    machine::cost_model::ExBudget,
    parser,
};

fn chain(n: u64) -> Program<NamedDeBruijn> {
    let code = format!(
        "(program 1.0.0 [(lam go [go go (con integer {n}) (con unit ())]) \
           (lam self (lam n (lam acc (force [(force (builtin ifThenElse)) \
              [(builtin equalsInteger) n (con integer 0)] \
              (delay acc) \
              (delay [self self [(builtin subtractInteger) n (con integer 1)] (lam u acc)])]))))])"
    );

    parser::program(&code).unwrap().try_into().unwrap()
}

fn depth(mut term: &Term<NamedDeBruijn>) -> u64 {
    let mut n = 0;

    while let Term::Lambda { body, .. } = term {
        n += 1;
        term = body.as_ref();
    }

    n
}

#[test]
fn shallow_chain_is_read_back() {
    let result = chain(3)
        .eval_version_with_protocol(ExBudget::default(), &Language::PlutusV2, 11)
        .result()
        .unwrap();

    assert_eq!(depth(&result), 3);
}

#[test]
fn deep_chain_is_read_back_within_the_default_budget() {
    const N: u64 = 3000;

    let eval = chain(N).eval_version_with_protocol(ExBudget::default(), &Language::PlutusV2, 11);

    let result = eval.result().expect("fits the default budget");

    assert_eq!(depth(&result), N);

    // Leak the result: dropping a 3000-deep term is recursive as well and is not
    // what this test is about.
    std::mem::forget(result);
    std::mem::forget(eval);
}
