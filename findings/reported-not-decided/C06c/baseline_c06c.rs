//! C06 "well-typed programs cannot go wrong" -- defects of the CLEAN tree (see BASELINE.md).
//!
//! Every module below is accepted by the type checker of the unmodified tree, contains no `fail`,
//! `todo`, partial builtin (and no `expect` that can fail: each `expect` below casts back a value
//! that was built at that very type), and yet its compiled code stops with a structural machine
//! error. Each `#[test]` asserts the property, so each FAILS on the clean tree.

use aiken_lang::{
    IdGenerator,
    ast::{
        DataTypeKey, Definition, FunctionAccessKey, ModuleKind, TraceLevel, Tracing, TypedDataType,
        TypedFunction,
    },
    builtins,
    expr::TypedExpr,
    gen_uplc::CodeGenerator,
    line_numbers::LineNumbers,
    parser,
    plutus_version::PlutusVersion,
    tipo::TypeInfo,
    utils,
};
use indexmap::IndexMap;
use std::collections::HashMap;
use uplc::{
    ast::{NamedDeBruijn, Program},
    machine::{Error, cost_model::ExBudget},
};

/// Run-time failures that the source program may legitimately ask for.
fn is_allowed_failure(err: &Error) -> bool {
    matches!(
        err,
        Error::EvaluationFailure | Error::DivideByZero(..) | Error::OutOfExError(..)
    )
}

/// Type-check `source_code`; when accepted, compile and evaluate each of its (argument-less)
/// tests. Returns `None` when the type checker rejects the module, otherwise the evaluation
/// result of every test.
fn check_and_run(source_code: &str) -> Option<Vec<(String, Result<String, Error>)>> {
    let id_gen = IdGenerator::new();

    let mut module_types: HashMap<String, TypeInfo> = HashMap::new();
    module_types.insert("aiken".to_string(), builtins::prelude(&id_gen));
    module_types.insert("aiken/builtin".to_string(), builtins::plutus(&id_gen));

    let mut functions: IndexMap<FunctionAccessKey, TypedFunction> =
        builtins::prelude_functions(&id_gen, &module_types);
    let mut data_types: IndexMap<DataTypeKey, TypedDataType> =
        builtins::prelude_data_types(&id_gen);
    let mut constants: IndexMap<FunctionAccessKey, TypedExpr> = IndexMap::new();
    let mut module_sources = HashMap::new();

    let kind = ModuleKind::Lib;
    let name = "test_module".to_string();

    let (mut ast, _) = parser::module(source_code, kind).expect("the module must parse");
    ast.name.clone_from(&name);

    let mut warnings = vec![];
    let ast = ast
        .infer(
            &id_gen,
            kind,
            "test/project",
            &module_types,
            Tracing::All(TraceLevel::Verbose),
            &mut warnings,
            None,
        )
        .ok()?;

    ast.register_definitions(&mut functions, &mut constants, &mut data_types);
    module_sources.insert(
        name.clone(),
        (source_code.to_string(), LineNumbers::new(source_code)),
    );
    module_types.insert(name.clone(), ast.type_info.clone());

    let mut generator = CodeGenerator::new(
        PlutusVersion::default(),
        utils::indexmap::as_ref_values(&functions),
        utils::indexmap::as_ref_values(&constants),
        utils::indexmap::as_ref_values(&data_types),
        utils::indexmap::as_str_ref_values(&module_types),
        utils::indexmap::as_str_ref_values(&module_sources),
        Tracing::All(TraceLevel::Verbose),
    );

    let mut results = vec![];

    for def in ast.definitions() {
        if let Definition::Test(test) = def {
            if !test.arguments.is_empty() {
                continue;
            }

            let program = generator.generate_raw(&test.body, &[], &name);

            let program: Program<NamedDeBruijn> = program.try_into().unwrap();

            let result = program
                .eval(ExBudget::max())
                .result()
                .map(|term| term.to_pretty());

            results.push((test.name.clone(), result));
        }
    }

    Some(results)
}

/// The property: an accepted module never goes wrong. `must_succeed` additionally requires every
/// test to evaluate to `True` (used for programs that contain no failing construct at all).
fn assert_cannot_go_wrong(source_code: &str, must_succeed: bool) {
    let Some(results) = check_and_run(source_code) else {
        // Rejected by the type checker: the property says nothing about it.
        return;
    };

    for (test, result) in results {
        match result {
            Ok(term) => assert!(
                !must_succeed || term == "(con bool True)",
                "test {test} evaluated to {term}"
            ),
            Err(err) => assert!(
                !must_succeed && is_allowed_failure(&err),
                "well-typed test `{test}` went wrong at run time: {err:?}"
            ),
        }
    }
}

/// B1. A function value smuggled into a generic container through a generic function.
/// `ensure_serialisable` is applied to literals (`[f]`, `(f, g)`, `Pair(f, g)`), to annotations and
/// to returned types, but an unbound type parameter instantiated later by unification is never
/// re-checked. The code generator then wraps the lambda "as Data" and a list/constr builtin
/// receives a non-constant: NotAConstant.
#[test]
fn b1_function_in_generic_option() {
    assert_cannot_go_wrong(
        r#"
        fn unwrap_or(o: Option<a>, d: a) -> a {
          when o is {
            Some(x) -> x
            None -> d
          }
        }

        test fn_in_option() {
          let f = unwrap_or(Some(fn(n: Int) { n + 1 }), fn(n: Int) { n })
          f(1) == 2
        }
        "#,
        true,
    )
}

#[test]
fn b1_function_in_generic_list() {
    assert_cannot_go_wrong(
        r#"
        fn wrap(x: a) -> List<a> {
          [x]
        }

        fn head_or(xs: List<a>, d: a) -> a {
          when xs is {
            [x, ..] -> x
            [] -> d
          }
        }

        test fn_in_generic_list() {
          let f = head_or(wrap(fn(n: Int) { n + 1 }), fn(n: Int) { n })
          f(1) == 2
        }
        "#,
        true,
    )
}

#[test]
fn b1_function_in_generic_pair() {
    assert_cannot_go_wrong(
        r#"
        fn fst(p: Pair<a, b>) -> a {
          p.1st
        }

        fn mk(x: a, y: b) -> Pair<a, b> {
          Pair(x, y)
        }

        test fn_in_generic_pair() {
          let f = fst(mk(fn(n: Int) { n + 1 }, 1))
          f(1) == 2
        }
        "#,
        true,
    )
}

/// B2. `expect f: fn(Int) -> Int = g` with `g: fn(Data) -> Int` (and the converse) type-checks:
/// `Environment::unify` propagates `allow_cast` into the *arguments* of two function types, so
/// Int ~ Data is accepted there. No conversion exists for function values: the callee receives an
/// unwrapped Int where it expects Data (or Data where it expects an Int): TypeMismatch.
#[test]
fn b2_expect_between_function_types_data_param() {
    assert_cannot_go_wrong(
        r#"
        fn g(d: Data) -> Int {
          expect n: Int = d
          n
        }

        test expect_fn_cast() {
          expect f: fn(Int) -> Int = g
          f(1) == 1
        }
        "#,
        false,
    )
}

#[test]
fn b2_expect_between_function_types_int_param() {
    assert_cannot_go_wrong(
        r#"
        fn h(n: Int) -> Int {
          n + 1
        }

        test expect_fn_cast_rev() {
          let d: Data = 1
          expect f: fn(Data) -> Int = h
          f(d) == 2
        }
        "#,
        false,
    )
}

/// B3. `builtin.head_list` used as a first-class function on a list of pairs. The code generator
/// only skips the un-Data conversion of the head when the *whole* type held by the node is a Pair;
/// for a bare builtin reference that type is the function type, so `unListData`-based pair
/// decoding is applied to a value that already is a native pair.
#[test]
fn b3_first_class_head_list_on_pairs() {
    assert_cannot_go_wrong(
        r#"
        use aiken/builtin

        fn apply(f: fn(List<a>) -> a, xs: List<a>) -> a {
          f(xs)
        }

        test head_pairs_first_class() {
          let p = apply(builtin.head_list, [Pair(1, 2)])
          p.1st == 1
        }
        "#,
        true,
    )
}

/// B4. A single-field opaque type whose field is `Data`, built from a non-Data value (implicit
/// upcast at the constructor). `erase_opaque_type_operations` replaces the constructor call by its
/// argument and, when that argument is a CastToData node, by the *uncast* value: the Int is never
/// wrapped, and reading the field back as Data hands a raw integer to `unIData`.
#[test]
fn b4_opaque_wrapper_around_data_loses_the_upcast() {
    assert_cannot_go_wrong(
        r#"
        opaque type Foo {
          inner: Data,
        }

        fn mk(n: Int) -> Foo {
          Foo { inner: n }
        }

        fn get(f: Foo) -> Data {
          f.inner
        }

        test opaque_data_field() {
          expect n: Int = get(mk(42))
          n == 42
        }
        "#,
        true,
    )
}

/// B5. `builtin.choose_void` is typed `fn(Data, a) -> a` (first parameter `Data`, not `Void`).
/// Fully applied it is special-cased and never calls chooseUnit, but as a first-class function the
/// real builtin is applied to a Data argument.
#[test]
fn b5_first_class_choose_void() {
    assert_cannot_go_wrong(
        r#"
        use aiken/builtin

        fn app(f: fn(Data, a) -> a, d: Data, x: a) -> a {
          f(d, x)
        }

        test choose_void_first_class() {
          let d: Data = Void
          app(builtin.choose_void, d, 1) == 1
        }
        "#,
        true,
    )
}

/// B6. A generic function instantiated, in one program, at an `@list`-decorated record type and at
/// an ordinary record type. Both instantiations get the variant name `_data`
/// (`get_generic_variant_name`), so the second reuses the code specialised for the first, although
/// an `@list` record is a native list (wrapped with listData) and an ordinary one is already Data.
#[test]
fn b6_generic_function_at_list_decorated_and_plain_records() {
    assert_cannot_go_wrong(
        r#"
        @list
        pub type T {
          a: Int,
          b: Int,
        }

        pub type U {
          a: Int,
          b: Int,
        }

        fn singleton(x: a) -> List<a> {
          [x]
        }

        test list_decorated_then_plain() {
          let ts = singleton(T { a: 1, b: 2 })
          let us = singleton(U { a: 1, b: 2 })
          ts == [T { a: 1, b: 2 }] && us == [U { a: 1, b: 2 }]
        }
        "#,
        true,
    )
}

/// Control for B6: each instantiation alone is fine.
#[test]
fn b6_control_each_alone() {
    assert_cannot_go_wrong(
        r#"
        @list
        pub type T {
          a: Int,
          b: Int,
        }

        pub type U {
          a: Int,
          b: Int,
        }

        fn singleton(x: a) -> List<a> {
          [x]
        }

        test only_t() {
          singleton(T { a: 1, b: 2 }) == [T { a: 1, b: 2 }]
        }

        test only_u() {
          singleton(U { a: 1, b: 2 }) == [U { a: 1, b: 2 }]
        }
        "#,
        true,
    )
}
